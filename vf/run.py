"""Single entry point: python -m vf.run <Cxx> [--tier quick|thorough] [--replay file] [--only shard-substring]

exit 0 = property held on everything explored (KNOWN-FINDING lines allowed)
exit 1 = at least one `VIOLATION property=<id> replay=<path>` line
exit 2 = harness error / generator defect / inconclusive (never reported as a violation)
"""
from __future__ import annotations

import argparse
import importlib
import json
import os
import sys
import time
import traceback


_SLOT = None


def _machine_slot(n_slots: int = 2):
    """At most `n_slots` checks run their 16 workers at the same time on this machine (development convenience:
    several sessions share the 16 cores). A lone run takes a slot immediately; VF_NO_LOCK=1 bypasses."""
    global _SLOT
    if os.environ.get("VF_NO_LOCK") == "1":
        return
    import fcntl
    import tempfile

    base = os.path.join(tempfile.gettempdir(), "vf_slots")
    os.makedirs(base, exist_ok=True)
    files = [open(os.path.join(base, f"slot{i}.lock"), "w") for i in range(n_slots)]
    while True:
        for f in files:
            try:
                fcntl.flock(f, fcntl.LOCK_EX | fcntl.LOCK_NB)
                _SLOT = f  # keep the descriptor (and the lock) until the process exits
                return
            except OSError:
                continue
        time.sleep(0.5)


def main(argv=None) -> int:
    from vf.core import env

    env.ensure_env()
    env.ensure_deps()
    ap = argparse.ArgumentParser()
    ap.add_argument("prop")
    ap.add_argument("--tier", default=os.environ.get("VERIF_TIER", "quick"), choices=["quick", "thorough"])
    ap.add_argument("--replay", default=None)
    ap.add_argument("--only", default=None, help="run only shards whose name contains this substring (debug)")
    ap.add_argument("--workers", type=int, default=int(os.environ.get("VF_WORKERS", "16")))
    args = ap.parse_args(argv)
    prop = args.prop.upper()
    try:
        seed = int(os.environ.get("VERIF_SEED", "1"))
    except ValueError:
        seed = 1
    if args.replay:
        args.replay = os.path.abspath(args.replay)
    t0 = time.time()
    os.environ.setdefault("VF_SHRINK_BUDGET_S", "15" if args.tier == "quick" else "90")
    _machine_slot()
    scratch = env.enter_scratch()
    os.environ["VF_SCRATCH_BASE"] = str(scratch)  # worker scratch dirs live inside ours and vanish with it
    try:
        env.import_leaspy()
        from vf.core import harness

        mod = importlib.import_module(f"vf.checks.{prop.lower()}")
        if args.replay:
            rep = json.loads(open(args.replay).read())
            fails = mod.replay(rep["sub_check"], rep["input"])
            hit = [f for f in fails]
            if hit:
                for f in hit:
                    print(f"  sub_check={f['sub_check']} bucket={f['bucket']}\n  observed={f['observed'][:800]}\n  expected={f['expected'][:800]}")
                print(f"VIOLATION property={prop} replay={args.replay}")
                return 1
            print(f"OK property={prop} replay passes")
            return 0
        specs = mod.shards(args.tier, seed)
        if args.only:
            specs = [s for s in specs if args.only in json.dumps(s[1:], default=str)]
        results = harness.run_shards(specs, workers=args.workers)
        return harness.finalize(
            prop, args.tier, seed, results, rule=mod.RULE, assumptions=mod.ASSUMPTIONS,
            replay_fn=mod.replay, t0=t0, required_classes=getattr(mod, "REQUIRED_CLASSES", None),
            exhaustive=False, extra_cov=getattr(mod, "EXTRA_COVERAGE", None),
        )
    except SystemExit:
        raise
    except BaseException:
        print("HARNESS-ERROR\n" + traceback.format_exc(), file=sys.stderr)
        return 2


if __name__ == "__main__":
    sys.exit(main())
