"""C03 - every sampler step is a Metropolis-Hastings transition for the documented target.

One `sampler.sample(state, temperature_inv=beta)` call per case on a live model state; torch.randn / torch.rand / shuffle,
`State.put` and the sampler's decision function are wrapped pass-through and recorded. Oracle (per block, in recorded order):
  proposal   : value after `put` differs from the value before only inside the block, by std_block * recorded normal draw (bit-exact)
  acceptance : accepted  <=>  u < exp(-D),  D = (regul_new - regul_old) * beta + (attach_new - attach_old), the four terms evaluated
               *independently* (definition on a fresh copy of the pre-block state at the old and at the proposed value), same float ops
  locality   : (individual step) perturbing the data and latent values of the other individuals leaves row i's decision and value unchanged
  accounting : one uniform draw per decision (scalar per population block, one (n,) tensor per individual step), also when alpha >= 1
  boundary   : with the uniform draw forced to equal alpha exactly the proposal is rejected ("below", not "at most")
"""
from __future__ import annotations

from hypothesis import strategies as st

from vf.checks import c02
from vf.checks.c01 import Unset, brief, fast_copy, fresh_state, same, scratch_eval
from vf.core import env, gen, observe
from vf.core.harness import Collector, drive, exc_bucket, jhash, shard_seed

PROP = "C03"
MOD = "vf.checks.c03"
RULE = (
    "Hypothesis cases: model kind (logistic/linear/shared-speed/joint/mixture; scalar/diagonal noise; 0-2 sources) x generated cohort x latent "
    "variable x sampler kind (Gibbs, FastGibbs, Metropolis-Hastings for population variables; individual Gibbs) x inverse temperature in "
    "{1, (0,0.2), (0.2,1)} x proposal scale factor {0.01..30} x seed x cold/warm cache x random or fixed block order x 1-3 consecutive "
    "sampler.sample calls on the same sampler, each block of each call judged separately. Non-trivial = beta < 1 and the step contains both an accepted and a rejected decision, or some decision with |log u + D| < 1; "
    "distinct by case."
)
ASSUMPTIONS = [
    "torch.randn / torch.rand / shuffle / State.put / the decision function are wrapped pass-through (recorded, not replaced), except in the `boundary` sub-check where the uniform draw is forced to equal alpha.",
    "The likelihood terms used for D are the model's own variables evaluated from their definitions on a fresh copy of the state (their agreement with the documented densities is C08's job).",
    "mixture_logistic individual steps: the regularity of a state is the membership-probability-weighted sum of the per-cluster regularities, with the probabilities evaluated at that same state (they depend on the sampled block).",
    "Extreme current states (one individual with xi = 100, i.e. non-finite energy terms) are generated: a NaN ratio must give a rejection (u < NaN is false).",
]
REQUIRED_CLASSES = {"step:individual": 200, "step:Gibbs": 60, "step:FastGibbs": 60, "step:Metropolis-Hastings": 60, "beta<1": 300,
                    "has-accept-and-reject": 100, "near-boundary": 100, "alpha>=1": 50, "nontrivial": 200, "consecutive-call": 150, "fixed-block-order": 100, "extreme-state": 200, "kind:mixture_logistic": 80, "alpha=inf": 15}


class Fail(Exception):
    def __init__(self, bucket, observed="", expected=""):
        self.bucket, self.observed, self.expected = bucket, observed, expected


def _terms(c, values, name, individual):
    import torch

    from leaspy.utils.weighted_tensor import WeightedTensor

    if individual:
        att = scratch_eval(c["dag"], values, "nll_attach_ind")
        reg = scratch_eval(c["dag"], values, f"nll_regul_{name}_ind")
        reg = reg.weighted_value if isinstance(reg, WeightedTensor) else reg
        if reg.ndim == 2:
            # mixture prior: one regularity per cluster, weighted by the membership probabilities *of the state it is
            # evaluated at* (they depend on the block: "everything that depends on that block")
            tot = scratch_eval(c["dag"], values, "nll_regul_ind_sum_ind")
            tot = tot.value if isinstance(tot, WeightedTensor) else tot
            probs = torch.softmax(torch.clamp(-tot, min=-100.0), dim=1)
            reg = (probs * reg).sum(dim=1)
        att = att.weighted_value if isinstance(att, WeightedTensor) else att
        return att, reg
    return scratch_eval(c["dag"], values, "nll_attach"), scratch_eval(c["dag"], values, f"nll_regul_{name}")


def _alpha(c, vals_old, vals_new, name, beta, individual):
    import torch

    a0, r0 = _terms(c, vals_old, name, individual)
    a1, r1 = _terms(c, vals_new, name, individual)
    return torch.exp(-1 * ((r1 - r0) * beta + (a1 - a0))), (r1 - r0) * beta + (a1 - a0)


def run_step(c, case, *, forced_u=None, perturb_others_of=None):
    """Run one sampler step with recording. Returns dict(records..., post)."""
    import random as _r

    import torch

    from leaspy.variables.state import State

    s = fresh_state(c["state0"])
    name = c02._pick(c["ind_latent"] if case["which"] == "ind" else c["pop_latent"], case["var"])
    if case.get("pop_shift") and case["which"] == "pop":
        # a state far from the mode of the sampled population variable: single moves change the energy by hundreds of units
        # (exp(-D) overflows to +inf for large improvements - such a proposal must be accepted)
        with s.auto_fork(None):
            s[name] = fast_copy(s._values[name]) + float(case["pop_shift"])
    if case.get("extreme") is not None and "xi" in c["ind_latent"]:
        # a current state in which one individual has a non-finite energy term (its decisions must still follow u < exp(-D))
        with s.auto_fork(None):
            v = fast_copy(s._values["xi"])
            v[case["extreme"] % c["n"]] = 100.0
            s["xi"] = v
    if perturb_others_of is not None:
        i = perturb_others_of
        with s.auto_fork(None):
            for k in c["ind_latent"]:
                v = fast_copy(s._values[k])
                keep = v[i].clone()
                v = v * 1.5 + 0.25
                v[i] = keep
                s[k] = v
            from leaspy.utils.weighted_tensor import WeightedTensor

            y = s._values["y"]
            yv = y.value.clone()
            keep = yv[i].clone()
            yv = (yv * 0.8 + 0.05)
            yv[i] = keep
            s["y"] = WeightedTensor(yv, y.weight)
    algo = observe.make_samplers(s, c["ds"], sampler_pop=case["sampler_pop"],
                                 pop_params=None if case.get("random_order", True) else dict(random_order_dimension=False))
    sampler = algo.samplers[name]
    sampler.std = sampler.std * float(case["std_factor"])
    if case["cold"]:
        with s.auto_fork(None):
            s[name] = fast_copy(s._values[name])
    torch.manual_seed(case["seed"])
    _r.seed(case["seed"])
    puts, decisions = [], []

    def before_put(self, variable_name, variable_value, **kw):
        if self is s:
            puts.append(dict(name=variable_name, before={k: v for k, v in self._values.items()}, change=fast_copy(variable_value), kw=kw))

    def after_put(out, self, variable_name, variable_value, **kw):
        if self is s:
            puts[-1]["after"] = fast_copy(self._values[variable_name])

    hook = "_group_metropolis_step" if case["which"] == "ind" else "_metropolis_step"

    def after_dec(out, alpha):
        decisions.append(dict(alpha=fast_copy(alpha) if hasattr(alpha, "clone") else alpha, accepted=out.clone() if hasattr(out, "clone") else out))

    import contextlib

    @contextlib.contextmanager
    def force_rand():
        if forced_u is None:
            yield
            return
        o = torch.rand
        torch.rand = lambda *a, **k: forced_u.clone()
        try:
            yield
        finally:
            torch.rand = o

    calls = []
    for _call in range(1 if (forced_u is not None or perturb_others_of is not None) else int(case.get("n_calls", 1))):
        puts.clear()
        decisions.clear()
        std_used = sampler.std.clone()
        with observe.wrap_method(State, "put", before=before_put, after=after_put), observe.wrap_method(sampler, hook, after=after_dec):
            with observe.record_rng() as rec:
                with force_rand():
                    sampler.sample(s, temperature_inv=float(case["beta"]))
        calls.append(dict(state=s, name=name, sampler=sampler, puts=list(puts), decisions=list(decisions), rec=rec, post=fast_copy(s._values[name]), std=std_used))
    out = dict(calls[0])
    out["calls"] = calls
    return out


def body(col: Collector, case):
    import math

    import torch

    from leaspy.exceptions import LeaspyModelInputError

    c = c02._ctx(case["cfg"], case["cohort"])
    if isinstance(c, str):
        col.exclude(c)
        return
    c["derived_set"] = set(c["derived"])
    individual = case["which"] == "ind"
    beta = float(case["beta"])
    classes = ["kind:" + case["cfg"]["kind"], "beta=1" if beta == 1.0 else "beta<1"]
    if case.get("extreme") is not None:
        classes.append("extreme-state")
    if beta < 0.2:
        classes.append("beta<0.2")
    near = False
    n_acc = n_rej = 0
    try:
        try:
            r = run_step(c, case)
        except LeaspyModelInputError:
            col.exclude("step-aborted:model-refused-to-evaluate-the-proposed-population-value")
            return
        first = r
        for ci, r in enumerate(first["calls"]):
            s, name, sampler, puts, decisions, rec = r["state"], r["name"], r["sampler"], r["puts"], r["decisions"], r["rec"]
            if ci:
                classes.append("consecutive-call")
            zs, us = rec.of("randn"), rec.of("rand")
            if individual:
                classes.append("step:individual")
                blocks = [()]
            else:
                classes.append("step:" + case["sampler_pop"])
                import numpy as _np

                ref_blocks = [tuple(b) for b in _np.ndindex(tuple(r["std"].shape))]  # one block per scale entry
                if case.get("random_order", True):
                    blocks = [tuple(b) for b in rec.of("shuffle")[-1]] if rec.of("shuffle") else []
                    if sorted(blocks) != sorted(ref_blocks):
                        raise Fail("accounting:blocks-visited-are-not-a-permutation-of-all-blocks", blocks, ref_blocks)
                else:
                    blocks = ref_blocks
                    classes.append("fixed-block-order")
            if ci == 0:
                first_blocks = blocks
            # accounting
            if not (len(puts) == len(blocks) == len(decisions) == len(zs)):
                raise Fail("accounting:proposals-vs-blocks", f"{len(puts)} puts, {len(zs)} normal draws, {len(decisions)} decisions", f"{len(blocks)} blocks")
            if len(us) != len(decisions):
                raise Fail("accounting:uniform-draws-vs-decisions", f"{len(us)} uniform draws", f"{len(decisions)} decisions (a draw is consumed for every decision)")
            for blk, p, d, z, u in zip(blocks, puts, decisions, zs, us):
                before = p["before"][name]
                after = p["after"]
                std = r["std"]  # the scale in force during this call
                # ---- proposal
                if p["name"] != name:
                    raise Fail("proposal:other-variable-assigned", p["name"], name)
                if individual:
                    exp_change = std.reshape((-1,) + (1,) * (before.ndim - 1)) * z
                    exp_after = before + exp_change
                    if tuple(u.shape) != (c["n"],):
                        raise Fail("accounting:uniform-shape", tuple(u.shape), (c["n"],))
                else:
                    exp_after = before.clone()
                    exp_after[blk] = before[blk] + std[blk] * z
                    if tuple(z.shape) != tuple(before[blk].shape):
                        raise Fail("proposal:draw-shape", tuple(z.shape), tuple(before[blk].shape))
                    if tuple(u.shape) != ():
                        raise Fail("accounting:uniform-shape", tuple(u.shape), "() - one scalar per block")
                if not same(after, exp_after):
                    diff = (after != exp_after)
                    raise Fail("proposal:not-std-times-normal-draw-on-block-only", f"after = {brief(after)}", f"before + std_block * z on block {blk} only = {brief(exp_after)}")
                # ---- acceptance
                vals_old = dict(p["before"])
                vals_new = dict(p["before"])
                vals_new[name] = exp_after
                alpha_ref, D = _alpha(c, vals_old, vals_new, name, beta, individual)
                acc = d["accepted"]
                exp_acc = u < alpha_ref
                if not bool(torch.equal(torch.as_tensor(acc).to(torch.bool), torch.as_tensor(exp_acc).to(torch.bool))):
                    raise Fail("acceptance:decision-differs-from-u<exp(-D)", f"accepted = {torch.as_tensor(acc).tolist()}",
                               f"u < exp(-D) = {torch.as_tensor(exp_acc).tolist()} (u = {brief(torch.as_tensor(u).reshape(-1))}, alpha = {brief(torch.as_tensor(alpha_ref).reshape(-1))})")
                if not same(torch.as_tensor(d["alpha"]).to(alpha_ref.dtype).reshape(alpha_ref.shape), alpha_ref):
                    raise Fail("acceptance:alpha-differs-from-exp(-D)", brief(torch.as_tensor(d["alpha"]).reshape(-1)), brief(alpha_ref.reshape(-1)))
                accv = torch.as_tensor(acc).to(torch.bool).reshape(-1)
                n_acc += int(accv.sum())
                n_rej += int((~accv).sum())
                margin = (torch.log(torch.as_tensor(u).to(torch.float64).reshape(-1).clamp_min(1e-300)) + torch.as_tensor(D).to(torch.float64).reshape(-1)).abs()
                if bool((margin < 1).any()):
                    near = True
                if bool((torch.as_tensor(alpha_ref).reshape(-1) >= 1).any()):
                    classes.append("alpha>=1")
                if bool((torch.as_tensor(alpha_ref).reshape(-1) == 0).any()):
                    classes.append("alpha=0")
                if bool(torch.isinf(torch.as_tensor(alpha_ref).reshape(-1)).any()):
                    classes.append("alpha=inf")
            # ---- state after (per block semantics): accepted -> proposed, rejected -> previous
            if individual:
                accm = decisions[0]["accepted"].to(torch.bool).reshape((-1,) + (1,) * (puts[0]["after"].ndim - 1))
                exp_post = torch.where(accm, puts[0]["after"], puts[0]["before"][name])
            else:
                exp_post = puts[-1]["after"] if bool(decisions[-1]["accepted"]) else puts[-1]["before"][name]
            if not same(r["post"], exp_post):
                raise Fail("state-after:latent-value", brief(r["post"]), brief(exp_post))
        r = first["calls"][0]
        s, name, sampler, puts, decisions, rec = r["state"], r["name"], r["sampler"], r["puts"], r["decisions"], r["rec"]
        blocks = first_blocks
        # ---- locality (individual steps): other individuals' data and latents perturbed, same draws
        if individual and case["locality"] is not None and c["n"] >= 2:
            i = case["locality"] % c["n"]
            r2 = run_step(c, case, perturb_others_of=i)
            a1, a2 = decisions[0]["accepted"][i], r2["decisions"][0]["accepted"][i]
            if bool(a1) != bool(a2) or not same(r["post"][i], r2["post"][i]):
                raise Fail("locality:decision-depends-on-other-individuals", f"row {i}: accepted {bool(a2)}, value {brief(r2['post'][i])}",
                           f"accepted {bool(a1)}, value {brief(r['post'][i])}")
            if not same(torch.as_tensor(decisions[0]["alpha"])[i], torch.as_tensor(r2["decisions"][0]["alpha"])[i]):
                raise Fail("locality:alpha-depends-on-other-individuals", brief(torch.as_tensor(r2["decisions"][0]["alpha"])[i].reshape(-1)),
                           brief(torch.as_tensor(decisions[0]["alpha"])[i].reshape(-1)))
            classes.append("locality-checked")
        # ---- boundary: u == alpha exactly must be a rejection
        if case["boundary"] and not individual and len(blocks) == 1:
            a = torch.as_tensor(decisions[0]["alpha"]).reshape(())
            # the forced draw is a float32 like the real one: only alphas exactly representable in float32 can be hit
            if 0 < float(a) < 1 and float(a.to(torch.float32)) == float(a):
                r3 = run_step(c, case, forced_u=a.to(torch.float32))
                if bool(r3["decisions"][0]["accepted"]):
                    raise Fail("acceptance:accepted-at-u==alpha", "accepted", "rejected (accepted exactly when u is *below* exp(-D))")
                classes.append("boundary-checked")
        if case["boundary"] and individual:
            a_raw = torch.as_tensor(decisions[0]["alpha"])
            a = a_raw.to(torch.float32)
            ok = (a > 0) & (a < 1) & (a.to(a_raw.dtype) == a_raw)
            if bool(ok.any()):
                forced = torch.where(ok, a, torch.full_like(a, 0.5))
                r3 = run_step(c, case, forced_u=forced)
                if bool(r3["decisions"][0]["accepted"][ok].any()):
                    raise Fail("acceptance:accepted-at-u==alpha", "accepted", "rejected (accepted exactly when u is *below* exp(-D))")
                classes.append("boundary-checked")
    except Fail as f:
        col.fail("step", f.bucket, case, observed=f.observed, expected=f.expected)
        col.case(classes=classes)
        return
    except Unset as u:
        col.exclude(f"term-not-computable:{u}")
        return
    except gen.InitRejected as e:
        col.exclude(str(e))
        return
    except AssertionError as e:
        col.fail("step", "assertion:" + exc_bucket(e), case, observed=repr(e), expected="no assertion")
        col.case(classes=classes)
        return
    except (RuntimeError, ValueError, TypeError, IndexError, KeyError) as e:
        col.fail("step", "unexpected-exception:" + exc_bucket(e), case, observed=repr(e), expected="step succeeds")
        col.case(classes=classes)
        return
    both = n_acc >= 1 and n_rej >= 1
    if both:
        classes.append("has-accept-and-reject")
    if near:
        classes.append("near-boundary")
    nt = (beta < 1 and both) or near
    if nt:
        classes.append("nontrivial")
    col.case(classes=sorted(set(classes)), nontrivial=jhash(case) if nt else None,
             sample=dict(kind=case["cfg"]["kind"], var=name, sampler=("individual Gibbs" if individual else case["sampler_pop"]), beta=beta,
                         std_factor=case["std_factor"], blocks=len(blocks), accepted=n_acc, rejected=n_rej, near_boundary=near))


@st.composite
def step_case(draw, kinds):
    c = draw(c02.base_case(kinds))
    c.update(
        which=draw(st.sampled_from(["ind", "pop", "pop"])), var=draw(st.integers(0, 7)),
        sampler_pop=draw(st.sampled_from(["Gibbs", "FastGibbs", "Metropolis-Hastings"])),
        std_factor=draw(st.sampled_from([0.01, 0.1, 0.3, 1.0, 1.0, 3.0, 10.0, 30.0])),
        beta=draw(st.one_of(st.just(1.0), gen.f32(0.01, 0.2), gen.f32(0.2, 0.999))),
        seed=draw(st.integers(0, 100_000)), cold=draw(st.booleans()),
        locality=draw(st.none() | st.integers(0, 7)), boundary=draw(st.booleans()),
        random_order=draw(st.sampled_from([True, True, False])), n_calls=draw(st.sampled_from([1, 1, 2, 3])),
        extreme=draw(st.sampled_from([None, None, None, 0, 1, 3])),
        pop_shift=draw(st.sampled_from([0.0, 0.0, 1.5, -1.0, 3.0])),
    )
    return c


def shard_run(kinds, seed: int, n_examples: int, shard: int = 0):
    env.import_leaspy()
    col = Collector(PROP, f"step-{'+'.join(kinds)}-{shard}")
    drive(col, step_case(tuple(kinds)), body, n_examples=n_examples, seed=shard_seed(seed, shard, 3))
    return col


def shards(tier: str, seed: int):
    n = dict(quick=140, thorough=2500)[tier]
    kind_sets = [("logistic",), ("joint",), ("linear",), ("shared_speed_logistic",), ("logistic", "joint"), ("logistic", "linear"), ("mixture_logistic",), ("logistic",)]
    return [(MOD, "shard_run", dict(kinds=kind_sets[k % len(kind_sets)], seed=seed, n_examples=n, shard=k)) for k in range(16)]


def replay(sub_check: str, inp):
    env.import_leaspy()
    col = Collector(PROP, "replay")
    body(col, inp)
    return col.failures
