"""C10 - re-centring is a pure gauge change; space shifts are orthogonal to progression.

One generated case = a model configuration, a cohort, a complete set of *generated* population values (positions, velocities,
mixing coefficients, Weibull parameters, noise) and individual latents (xi with a drawn non-zero mean, tau, sources) written
into a live state, the way the step is reached (direct call / through `compute_sufficient_statistics`) and the fork mode of
the state.

Sub-checks (both evaluated inside one body, on the same state):
  recentre : kinds with the step (logistic, linear, joint with/without sources). Before/after oracle: xi zero-mean afterwards;
             `model`, every per-individual attachment term, the event likelihood and the space shifts unchanged within the
             stated float32 tolerance.
  ortho    : kinds with sources (logistic, linear, joint, shared-speed). Validity predicate, independent of the Householder
             construction: every row of `mixing_matrix` and every individual space shift is Euclid-orthogonal to G.v (the
             progression direction in the model's metric), taken (a) from the state's own `metric_sqr*v0`
             (`g_metric*collin_to_d_gamma_t0`) and (b) from a float64 closed form written from the documentation;
             basis columns orthonormal. Evaluated before and after the re-centring step.
"""
from __future__ import annotations

import math

from hypothesis import strategies as st

from vf.checks.c01 import fresh_state
from vf.core import env, gen
from vf.core.harness import Collector, drive, exc_bucket, jhash, leaspy_frame, shard_seed

PROP = "C10"
MOD = "vf.checks.c10"
RTOL = 1e-5
RTOL_REF_SHARED = 1e-4
MEAN_TOL = 1e-6
BASIS_EPS_FACTOR = 16.0  # direct basis calls: relative tolerance 16*dim*eps(dtype); worst observed on the unchanged tree: 3.3*eps (cosine), 6*eps (orthonormality), at every scale
BASIS_SCALES = [1.0, 1e-3, 1e-6, 1e-9, 1e-12, 1e3, 1e6]
LOG_V0_OFFSETS = [0.0, 0.0, 0.0, 0.0, 0.0, -12.0, -18.0, -22.0, -25.0]
TINY = 1e-30  # absolute floor (times ||w||): float32 products of denormal-sized betas / sources underflow inexactly
STEP_KINDS = ("logistic", "linear", "joint")

RULE = (
    "Hypothesis cases = (configuration, cohort, 3-6 value sets; every value set is one oracle evaluation on a fresh copy of the initialised state): kind in {logistic, linear, joint (1 feature without sources / >=2 features with sources), shared-speed logistic "
    "(orthogonality only)} x dimension 1-4 (thorough 1-5) x 0..dimension-1 sources x scalar/diagonal noise x cohort of 2-8 (thorough 2-12) "
    "individuals with 1-4 visits and missing cells (events for joint); every population value generated (log_g/g in [-3,3], log_v0 in [-6,-1], "
    "betas in [-1,1], n_log_nu in [-3.9,0], log_rho in [-0.7,1.6], zeta in [-1,1], shared-speed log_g/deltas in [-2,2], noise_std in [0.05,0.5]) "
    "and every latent generated (xi = drawn offset in +-[0.15,2] or 0 plus deviations in [-2,2], tau = tau_mean + tau_std*[-3,3], sources in [-3,3]); "
    "step reached directly or through compute_sufficient_statistics, fork mode none/REF/COPY, warm/cold cache; one value set in three also drives the public "
    "compute_individual_trajectory API (1-4 ages in [40,100], first 3 individuals) around the in-place re-centring of model.state. "
    "Direct basis cases: float32/float64 dx of dimension 2-6 (both signs, magnitudes 1e-3..1e3, times a global scale 1e-12..1e6), metric scalar / positive vector / SPD matrix, every strip_col (one evaluation each). "
    "One value set in ~2 of the step kinds has every log_v0 shifted by -12..-25 (globally slow progression). "
    "Non-trivial = (kind has the step and |mean xi| > 0.1 before it) or (dimension >= 3 with >= 2 sources and no all-zero betas column) or "
    "(direct basis call with strip_col != 0, a matrix metric or a negative component); distinct by case."
)
ASSUMPTIONS = [
    "The step rewrites float32 operands, so 'unchanged' is judged with rtol 1e-5: model within 1e-5*S (S = 1 for logistic kinds whose values lie in (0,1); "
    "S = max|g| + max v0*max|rt| + max|space shift| for linear); a Gaussian attachment term of individual i within 1e-5*(|value| + 3*n_obs_i) plus the first-order "
    "propagation sum_obs |residual|/noise_std^2 * (model tolerance); an event term within 1e-5*(|value| + 1); a space shift of individual i within "
    "1e-5*sum_s |source_is|*||mixing row s||.",
    "Zero mean after the step: |mean xi| <= 1e-6*max(1, max|xi before|) (float32 summation error for <= 12 individuals).",
    "Orthogonality: |m.w| <= 1e-5*||m||*||w|| for every mixing row m, |s_i.w| <= 1e-5*(sum_s |source_is|*||m_s||)*||w|| for every space shift; w is both the state's own "
    "metric_sqr*v0 (shared-speed: g_metric*collin_to_d_gamma_t0) and a float64 closed form G.v with G = 1/(p(1-p))^2 at p = gamma(t0) "
    "(logistic/joint: p = 1/(1+g), v = v0; shared-speed: p_k = 1/(1+g*exp(-delta_k)), v = p(1-p); linear: G = 1). Against the closed form the shared-speed "
    "kind uses 1e-4 (its float32 g_metric contains 1-gamma_t0, which loses up to ~7e-6 relative accuracy on the generated domain).",
    "Basis columns orthonormal within 1e-5 (max-abs of B^T B - I).",
    "Joint kind: generated tau is kept >= 0.3 below the event time for 3 cases out of 4 (what the model's own initialisation does); otherwise the event term may hold the "
    "barrier value 1e307, which is compared with the same relative rule.",
    "Regularity terms of xi / log_v0 / n_log_nu are expected to change and are not compared.",
    "Model level: 4 value sets in 9 shift every log_v0 by a global offset in {-12, -18, -22, -25} (log_v0 down to -31, v0 >= 3e-14 still a normal float32); the orthogonality "
    "bounds are relative to ||m||*||w||, so they apply unchanged; class tiny-velocity = ||metric_sqr*v0|| < 1e-7.",
    "Trajectory API: compute_individual_trajectory(ages, {xi, tau, sources}) of up to 3 individuals at 1-4 generated ages, called twice before the step (warm caches) and once after "
    "it with the re-centred xi, on the model whose own state is re-centred in place; longitudinal columns within the model tolerance above; the joint event column (corrected "
    "survival S/S0) within 1e-5*(1 + max (t-tau)/nu_rep)^rho) and only where that exponent is <= 50 (float32 survival not yet in the denormal range), else counted and skipped.",
    "Direct basis sub-check: compute_orthonormal_basis(dx, G, strip_col=j) for float32 / float64 dx of dimension 2-6 with components +-[1e-3, 1e3] times a global scale in "
    "{1, 1e-3, 1e-6, 1e-9, 1e-12, 1e3, 1e6} (orthogonality is scale-free; a zero component is drawn with small "
    "probability; strip_col values where (G.dx)[j] == 0 are excluded and counted: torch.sign(0) = 0 makes the reflection degenerate there, reproducer "
    "repro_basis_zero_strip_component), G a positive scalar tensor, a positive vector or an SPD matrix A^T A + c I (|A_ij| <= 1, c in [1, 3]); predicate: shape (dim, dim-1), "
    "max|B^T B - I| <= 16*dim*eps(dtype), cosine |b.w|/(|b||w|) <= 16*dim*eps + dim*eps*|| |G||dx| ||/||w|| per column (second term: forward error of the function's own G.dx; "
    "measured on the unchanged tree at every scale and both dtypes: cosine <= 3.3 eps, orthonormality <= 6 eps), "
    "smallest singular value of [B | w/||w||] >= 0.5 (full rank), w = G.dx in float64.",
]
REQUIRED_CLASSES = {"tiny-velocity": 200, "ortho:tiny-velocity": 50, "basis:tiny-velocity": 100, "basis:float64": 100, "traj": 0.1, "traj:joint": 30, "traj:event-column-judged": 10, "basis": 0.03, "basis:strip-nonzero": 0.02, "basis:metric-2d": 100, "basis:metric-1d": 100,
                    "basis:metric-scalar": 100, "recentre": 0.4, "recentre:nontrivial": 0.25, "ortho": 0.3, "ortho:nontrivial": 0.04, "kind:joint": 0.05, "kind:linear": 0.05,
                    "kind:logistic": 0.05, "kind:shared_speed_logistic": 0.03, "how:suffstats": 0.08, "how:direct": 0.08, "joint:no-sources": 5, "joint:sources": 5}


# ------------------------------------------------------------------------------------------------
# helpers
# ------------------------------------------------------------------------------------------------
def _np(v):
    """float64 numpy copy of a tensor / WeightedTensor value."""
    import numpy as np

    from leaspy.utils.weighted_tensor import WeightedTensor

    if isinstance(v, WeightedTensor):
        v = v.value
    return np.array(v.detach().to("cpu").double().numpy(), dtype=np.float64, copy=True)


def _weight(v):
    import numpy as np

    from leaspy.utils.weighted_tensor import WeightedTensor

    if isinstance(v, WeightedTensor) and v.weight is not None:
        return np.array(v.weight.detach().to("cpu").double().numpy() != 0)
    return np.ones(tuple(v.shape), dtype=bool)


class Fail(Exception):
    def __init__(self, sub, bucket, observed="", expected=""):
        self.sub, self.bucket, self.observed, self.expected = sub, bucket, observed, expected


def _has_step(kind):
    return kind in STEP_KINDS


def ref_direction(kind, vals):
    """G.v in float64 from the documented closed forms (independent of the state's metric variables)."""
    import numpy as np

    if kind == "linear":
        return np.exp(vals["log_v0"])
    if kind in ("logistic", "joint"):
        g = np.exp(vals["log_g"])
        p = 1.0 / (1.0 + g)
        return np.exp(vals["log_v0"]) / (p * (1.0 - p)) ** 2
    if kind == "shared_speed_logistic":
        d = np.concatenate([[0.0], vals["deltas"]])
        ge = np.exp(vals["log_g"][0] - d)
        p = 1.0 / (1.0 + ge)
        return 1.0 / (p * (1.0 - p))  # G.v with v = p(1-p), G = 1/(p(1-p))^2
    raise ValueError(kind)


# ------------------------------------------------------------------------------------------------
# state construction
# ------------------------------------------------------------------------------------------------
_CTX = {}


def build_ctx(cfg, coh):
    """(model, dataset, initial live state) for the configuration and cohort, or a string (excluded class). Cached: one
    initialisation serves every value set of a case (initialisation is ~10x the cost of an oracle evaluation)."""
    import torch

    from leaspy.variables.specs import ModelParameter

    key = jhash([cfg, coh])
    if key in _CTX:
        return _CTX[key]
    _CTX.clear()
    try:
        m, ds, s = gen.live_state(cfg, coh, latents="mode")
    except gen.InitRejected as e:
        _CTX[key] = str(e)
        return _CTX[key]
    if any(not bool(torch.isfinite(s._values[k]).all()) for k in s.dag.sorted_variables_by_type.get(ModelParameter, {}) if s._values[k] is not None):
        _CTX[key] = "initialisation-produced-non-finite-parameters"
        return _CTX[key]
    _CTX[key] = (m, ds, s)
    return _CTX[key]


def build_state(ctx, kind, pop, lat):
    """a fresh state (independent copies of the initial values) with every generated value written in."""
    import torch

    m, ds, s0 = ctx
    s = fresh_state(s0)
    n = ds.n_individuals

    def put(name, vals):
        cur = s._values[name]
        s[name] = gen.tensor_from(vals, tuple(cur.shape), like=cur)

    with s.auto_fork(None):
        for name in ("log_g", "g", "log_v0", "deltas", "betas", "n_log_nu", "log_rho", "zeta", "noise_std"):
            if name in pop and name in s.dag and s._values.get(name) is not None:
                put(name, pop[name])
        if pop.get("log_v0_offset"):
            s["log_v0"] = s._values["log_v0"] + float(pop["log_v0_offset"])  # globally slow progression (orthogonality is scale-free)
        cur = s._values["xi"]
        base = float(s._values["xi_mean"].reshape(-1)[0]) if kind == "shared_speed_logistic" else 0.0
        s["xi"] = (gen.tensor_from(lat["xi_dev"], tuple(cur.shape)).double() + float(lat["xi_off"]) + base).to(cur.dtype)
        cur = s._values["tau"]
        tau = (float(s._values["tau_mean"].reshape(-1)[0])
               + float(s._values["tau_std"].reshape(-1)[0]) * gen.tensor_from(lat["tau_dev"], tuple(cur.shape)).double())
        if kind == "joint" and lat.get("barrier", True):
            ev = s._values["event"]
            ev_t = (ev.value if hasattr(ev, "value") else ev).double().reshape(n, -1)[:, :1]
            tau = torch.minimum(tau, ev_t - 0.3)
        s["tau"] = tau.to(cur.dtype)
        if "sources" in s.dag:
            put("sources", lat["sources"])
    return s


# ------------------------------------------------------------------------------------------------
# oracle: orthogonality
# ------------------------------------------------------------------------------------------------
def check_ortho(s, kind, tag):
    """Validity predicate on the current state. Returns a small info dict; raises Fail."""
    import numpy as np

    B = _np(s["orthonormal_basis"])
    M = _np(s["mixing_matrix"])
    S = _np(s["space_shifts"])
    src = _np(s["sources"])
    betas = _np(s["betas"])
    d = B.shape[0]
    if B.shape != (d, d - 1) or M.shape != (betas.shape[1], d) or S.shape != (src.shape[0], d):
        raise Fail("ortho", f"{tag}:shape", f"basis {B.shape}, mixing {M.shape}, space_shifts {S.shape}", f"({d},{d - 1}), ({betas.shape[1]},{d}), ({src.shape[0]},{d})")
    if not (np.isfinite(B).all() and np.isfinite(M).all() and np.isfinite(S).all()):
        raise Fail("ortho", f"{tag}:non-finite", "non-finite basis / mixing matrix / space shifts", "finite values")
    if kind == "shared_speed_logistic":
        w_state = _np(s["g_metric"]) * _np(s["collin_to_d_gamma_t0"])
        vals = dict(log_g=_np(s["log_g"]), deltas=_np(s["deltas"]))
    else:
        w_state = _np(s["metric_sqr"]) * _np(s["v0"])
        vals = dict(log_v0=_np(s["log_v0"]))
        if kind != "linear":
            vals["log_g"] = _np(s["log_g"])
    w_ref = ref_direction(kind, vals)
    # orthonormal columns
    err = float(np.abs(B.T @ B - np.eye(d - 1)).max())
    if not err <= RTOL:
        raise Fail("ortho", f"{tag}:basis-not-orthonormal", f"max|B^T B - I| = {err:.3g}", f"<= {RTOL}")
    worst = 0.0
    row_norm = np.linalg.norm(M, axis=1)
    for wname, w, tol in (("state", w_state, RTOL), ("closed-form", w_ref, RTOL_REF_SHARED if kind == "shared_speed_logistic" else RTOL)):
        wn = float(np.linalg.norm(w))
        if not (np.isfinite(w).all() and wn > 0):
            raise Fail("ortho", f"{tag}:direction-non-finite:{wname}", f"w = {w.tolist()}", "finite non-zero G.v")
        for r in range(M.shape[0]):
            dot = abs(float(M[r] @ w))
            bound = tol * row_norm[r] * wn + TINY * wn
            if row_norm[r] > 0:
                worst = max(worst, dot / (row_norm[r] * wn))
            if not dot <= bound:
                raise Fail("ortho", f"{tag}:mixing-row-not-orthogonal:{wname}",
                           f"row {r}: |m.w| = {dot:.6g} = {dot / max(row_norm[r] * wn, 1e-300):.3g}*||m||*||w||; m = {M[r].tolist()}, w = {w.tolist()}",
                           f"<= {tol}*||m||*||w|| = {bound:.6g}")
        scale = np.abs(src) @ row_norm  # (n,)
        for i in range(S.shape[0]):
            dot = abs(float(S[i] @ w))
            bound = tol * scale[i] * wn + TINY * wn
            if not dot <= bound:
                raise Fail("ortho", f"{tag}:space-shift-not-orthogonal:{wname}",
                           f"individual {i}: |s.w| = {dot:.6g}; s = {S[i].tolist()}, w = {w.tolist()}", f"<= {bound:.6g}")
    return dict(worst_cos=worst, betas_cols_nonzero=bool((np.abs(betas).sum(axis=0) > 0).all()), w_norm=float(np.linalg.norm(w_state)))


# ------------------------------------------------------------------------------------------------
# oracle: re-centring
# ------------------------------------------------------------------------------------------------
def _snapshot(s, kind, has_src):
    keys = ["model", "nll_attach_ind", "nll_attach"]
    if kind == "joint":
        keys += ["nll_attach_y_ind", "nll_attach_event_ind"]
    if has_src:
        keys.append("space_shifts")
    return {k: _np(s[k]) for k in keys}


def _tolerances(s, kind, has_src, snap):
    """Per-quantity absolute tolerance arrays (float64), from values observed *before* the step."""
    import numpy as np

    y = s["y"]
    yv, yw = _np(y), _weight(y)
    model = snap["model"]
    if kind == "linear":
        rt = s["rt"]
        rtv = np.abs(_np(rt))[_weight(rt)]
        S = float(np.abs(_np(s["g"])).max()) + float(_np(s["v0"]).max()) * (float(rtv.max()) if rtv.size else 0.0)
        if has_src:
            S += float(np.abs(snap["space_shifts"]).max())
        S = max(S, 1e-30)
    else:
        S = 1.0
    tol = dict(model=np.full(model.shape, RTOL * S))
    sig = _np(s["noise_std"]).reshape(-1)
    sig = np.broadcast_to(sig, (model.shape[-1],)) if sig.size in (1, model.shape[-1]) else sig
    resid = np.where(yw, np.abs(yv - model), 0.0)
    nobs = yw.reshape(yw.shape[0], -1).sum(axis=1)
    prop = (resid / sig**2).reshape(resid.shape[0], -1).sum(axis=1) * (RTOL * S)
    gauss_key = "nll_attach_y_ind" if kind == "joint" else "nll_attach_ind"
    tol[gauss_key] = RTOL * (np.abs(snap[gauss_key]) + 3.0 * nobs) + prop
    if kind == "joint":
        tol["nll_attach_event_ind"] = RTOL * (np.abs(snap["nll_attach_event_ind"]) + 1.0)
        tol["nll_attach_ind"] = tol["nll_attach_y_ind"] + tol["nll_attach_event_ind"] + RTOL * np.abs(snap["nll_attach_ind"])
    tol["nll_attach"] = np.asarray(float(tol["nll_attach_ind"].sum()) + RTOL * abs(float(snap["nll_attach"])))
    if has_src:
        src, M = _np(s["sources"]), _np(s["mixing_matrix"])
        per_ind = np.abs(src) @ np.linalg.norm(M, axis=1)
        tol["space_shifts"] = np.broadcast_to((RTOL * per_ind + TINY)[:, None], snap["space_shifts"].shape)
    return tol, S


def check_recentre(m, s, kind, case, has_src):
    import numpy as np

    from leaspy.variables.state import StateForkType

    xi0 = _np(s["xi"])
    mean0 = float(xi0.mean())
    # reference values: read on the state itself (everything cached when the step runs) or, for a "cold" state, on a twin
    # holding copies of the same independent values (the state under test then has no derived value cached)
    ref = fresh_state(s) if case.get("cold") else s
    before = _snapshot(ref, kind, has_src)
    if not all(np.isfinite(v).all() for v in before.values()):
        return dict(skipped="non-finite-value-before-the-step", mean0=mean0)
    tol, S = _tolerances(ref, kind, has_src, before)
    s.auto_fork_type = {"none": None, "ref": StateForkType.REF, "copy": StateForkType.COPY}[case["fork"]]
    suff = None
    if case["how"] == "direct":
        m._center_xi_realizations(s)
    else:
        suff = m.compute_sufficient_statistics(s)
    xi1 = _np(s["xi"])
    mean1 = float(xi1.mean())
    mtol = MEAN_TOL * max(1.0, float(np.abs(xi0).max()))
    if not abs(mean1) <= mtol:
        raise Fail("recentre", "xi-not-zero-mean", f"mean(xi) = {mean1:.6g} after the step (was {mean0:.6g})", f"|mean| <= {mtol:.3g}")
    after = _snapshot(s, kind, has_src)
    worst = {}
    for k, b in before.items():
        a = after[k]
        if a.shape != b.shape:
            raise Fail("recentre", f"shape-changed:{k}", str(a.shape), str(b.shape))
        diff = np.abs(a - b)
        bad = ~(diff <= tol[k])
        worst[k] = float(np.nanmax(diff / np.maximum(tol[k], 1e-300))) if diff.size else 0.0
        if bad.any():
            idx = tuple(int(i) for i in np.argwhere(bad)[0])
            raise Fail("recentre", f"changed:{k}",
                       f"{k}{list(idx)} = {a[idx]!r} after, {b[idx]!r} before (|diff| = {diff[idx]:.6g}; mean xi before = {mean0:.6g}; {int(bad.sum())} entries off)",
                       f"|diff| <= {float(np.asarray(tol[k])[idx]):.6g}")
    if suff is not None:
        got = float(_np(suff["nll_attach"]))
        if not abs(got - float(before["nll_attach"])) <= float(tol["nll_attach"]):
            raise Fail("recentre", "changed:suff-stats-nll_attach", f"{got!r} returned, {float(before['nll_attach'])!r} before the step", f"|diff| <= {float(tol['nll_attach']):.6g}")
    barrier = bool(kind == "joint" and (np.abs(before["nll_attach_event_ind"]) >= 1e300).any())
    return dict(mean0=mean0, mean1=mean1, worst=worst, barrier=barrier, scale=S)


# ------------------------------------------------------------------------------------------------
# oracle: public trajectory API around an in-place re-centring of model.state
# ------------------------------------------------------------------------------------------------
def _ips_of(s, i, has_src):
    ips = dict(xi=float(_np(s["xi"])[i, 0]), tau=float(_np(s["tau"])[i, 0]))
    if has_src:
        ips["sources"] = [float(x) for x in _np(s["sources"])[i]]
    return ips


def _traj_calls(m, s, ages, inds, has_src):
    return [_np(m.compute_individual_trajectory(list(ages), _ips_of(s, i, has_src))) for i in inds]


def _traj_tolerance(s, kind, d, ages, i, has_src):
    """(tolerance of the longitudinal columns, tolerance of the event column or None if not judged, exponent) from pre-step values."""
    import numpy as np

    t = np.asarray(ages, dtype=np.float64)
    xi, tau = float(_np(s["xi"])[i, 0]), float(_np(s["tau"])[i, 0])
    if kind == "linear":
        S = float(np.abs(_np(s["g"])).max()) + float(_np(s["v0"]).max()) * float(np.abs(np.exp(xi) * (t - tau)).max())
        if has_src:
            S += float(np.abs(_np(s["space_shifts"])[i]).max())
        S = max(S, 1e-30)
    else:
        S = 1.0
    ev_tol = expo = None
    if kind == "joint":
        nu, rho = float(_np(s["nu"])[0]), float(_np(s["rho"])[0])
        shift = float(_np(s["survival_shifts"])[i, 0]) if has_src else 0.0
        nu_rep = nu * math.exp(-(xi + shift / rho))
        expo = float((np.clip(t - tau, 0.0, None) / nu_rep).max() ** rho)
        if expo <= 50.0:
            ev_tol = RTOL * (1.0 + expo)
    return RTOL * S, ev_tol, expo


def check_traj_compare(kind, d, before, after, tols):
    import numpy as np

    judged_event = 0
    for k, (b, a, (tol_y, tol_ev, expo)) in enumerate(zip(before, after, tols)):
        if a.shape != b.shape:
            raise Fail("traj", "shape-changed", str(a.shape), str(b.shape))
        if not np.isfinite(b[..., :d]).all():
            raise Fail("traj", "non-finite-trajectory-before-the-step", str(b.tolist()), "finite longitudinal values")
        diff = np.abs(a[..., :d] - b[..., :d])
        if not (diff <= tol_y).all():
            raise Fail("traj", "changed:trajectory", f"individual #{k}: after the step {a[..., :d].tolist()}, before {b[..., :d].tolist()} (max |diff| = {float(np.nanmax(diff)):.6g})",
                       f"|diff| <= {tol_y:.6g}")
        if kind == "joint" and tol_ev is not None:
            be, ae = b[..., d:], a[..., d:]
            if np.isfinite(be).all():
                judged_event += 1
                de = np.abs(ae - be)
                if not (de <= tol_ev).all():
                    raise Fail("traj", "changed:event-prediction", f"individual #{k}: after the step {ae.tolist()}, before {be.tolist()} (exponent {expo:.4g})", f"|diff| <= {tol_ev:.6g}")
    return judged_event


# ------------------------------------------------------------------------------------------------
# oracle: compute_orthonormal_basis called directly
# ------------------------------------------------------------------------------------------------
def body_basis(col: Collector, case):
    import numpy as np
    import torch

    from leaspy.utils.linalg import compute_orthonormal_basis

    dt = torch.float64 if case.get("dtype") == "float64" else torch.float32
    scale = float(case.get("scale", 1.0))
    eps = float(torch.finfo(dt).eps)
    dx = torch.tensor(case["dx"], dtype=dt) * scale  # orthogonality is scale-free: the direction is judged at every magnitude
    dim = dx.shape[0]
    form = case["metric"]["form"]
    if form == "scalar":
        G = torch.tensor(case["metric"]["value"], dtype=dt)
        G64 = float(G) * np.eye(dim)
    elif form == "1d":
        G = torch.tensor(case["metric"]["value"], dtype=dt)
        G64 = np.diag(G.double().numpy())
    else:
        A = torch.tensor(case["metric"]["A"], dtype=torch.float32).reshape(dim, dim)
        G = (A.T.double() @ A.double() + float(case["metric"]["c"]) * torch.eye(dim, dtype=torch.float64)).to(dt)
        G = 0.5 * (G + G.T)
        G64 = G.double().numpy()
    dx64 = dx.double().numpy()
    w = G64 @ dx64
    wn = float(np.linalg.norm(w))
    fwd = dim * eps * float(np.linalg.norm(np.abs(G64) @ np.abs(dx64)))  # forward error of the function's own G.dx in its dtype
    tol = BASIS_EPS_FACTOR * dim * eps  # relative (cosine / orthonormality) tolerance from dtype and dimension
    for j in range(dim):
        classes = ["basis", f"basis:dim-{dim}", "basis:metric-" + form, "basis:" + ("float64" if dt == torch.float64 else "float32"), f"basis:scale-{scale:g}"]
        if scale <= 1e-9:
            classes += ["tiny-velocity", "basis:tiny-velocity"]
        inp = dict(dx=case["dx"], metric=case["metric"], strip_col=j, scale=scale, dtype=case.get("dtype", "float32"))
        # the function's own float32 (G.dx)[j] may be exactly 0: dx[j] == 0 for scalar / diagonal metrics, |w[j]| within the matvec error for a matrix
        if wn == 0.0 or (dx64[j] == 0.0 if form != "2d" else abs(w[j]) <= fwd):
            col.exclude("basis:zero-component-at-strip-col(sign(0)=0: degenerate reflection)")
            continue
        classes.append("basis:strip-0" if j == 0 else "basis:strip-nonzero")
        if (dx64 < 0).any():
            classes.append("basis:negative-component")
        try:
            B = _np(compute_orthonormal_basis(dx, G, strip_col=j))
        except Exception as e:  # noqa: BLE001 - every documented input must be accepted
            if leaspy_frame(e) == "outside-leaspy" and not isinstance(e, (RuntimeError, AssertionError)):
                raise
            col.fail("basis", "unexpected-exception:" + exc_bucket(e), inp, observed=repr(e), expected="a (dim, dim-1) basis")
            col.case(classes=classes)
            continue
        bucket = obs = exp = None
        if B.shape != (dim, dim - 1):
            bucket, obs, exp = "shape", str(B.shape), str((dim, dim - 1))
        elif not np.isfinite(B).all():
            bucket, obs, exp = "non-finite", str(B.tolist()), "finite basis"
        else:
            err = float(np.abs(B.T @ B - np.eye(dim - 1)).max())
            dots = np.abs(B.T @ w)
            bn = np.linalg.norm(B, axis=0)
            bound = tol * bn * wn + fwd
            smin = float(np.linalg.svd(np.concatenate([B, (w / wn)[:, None]], axis=1), compute_uv=False).min())
            if not err <= tol:
                bucket, obs, exp = "columns-not-orthonormal", f"max|B^T B - I| = {err:.3g}", f"<= {tol:.3g}"
            elif not (dots <= bound).all():
                k = int(np.argmax(dots - bound))
                bucket, obs, exp = ("column-not-orthogonal-to-G.dx" + ("" if j == 0 else ":strip-col-nonzero"),
                                    f"column {k}: cosine |b.w|/(|b||w|) = {dots[k] / max(bn[k] * wn, 1e-300):.3g} (||w|| = {wn:.3g}); b = {B[:, k].tolist()}, w = {w.tolist()}",
                                    f"cosine <= {bound[k] / max(bn[k] * wn, 1e-300):.3g}")
            elif not smin >= 0.5:
                bucket, obs, exp = "basis-plus-direction-not-full-rank", f"smallest singular value of [B | w/||w||] = {smin:.3g}", ">= 0.5"
        if bucket:
            col.fail("basis", bucket, inp, observed=obs, expected=exp)
            col.case(classes=classes)
            continue
        col.case(classes=classes, nontrivial=jhash(inp) if (j != 0 or form == "2d" or (dx64 < 0).any() or scale != 1.0) else None,
                 sample=dict(sub_check="basis", dim=dim, metric=form, strip_col=j, dx=case["dx"], scale=scale, dtype=case.get("dtype", "float32")))


@st.composite
def basis_case(draw, max_dim=6):
    dim = draw(st.sampled_from([x for x in (2, 2, 3, 3, 4, 5, 6) if x <= max_dim]))
    comp = st.one_of(gen.f32(1e-3, 1e3), gen.f32(-1e3, -1e-3), gen.f32(0.01, 10), gen.f32(-10, -0.01), gen.f32(0.01, 10), st.sampled_from([0.0, 1.0, -1.0]))
    dx = [draw(comp) for _ in range(dim)]
    form = draw(st.sampled_from(["scalar", "1d", "1d", "2d", "2d"]))
    if form == "scalar":
        metric = dict(form=form, value=draw(gen.f32(0.01, 100)))
    elif form == "1d":
        metric = dict(form=form, value=[draw(gen.f32(0.01, 500)) for _ in range(dim)])
    else:
        metric = dict(form=form, A=[draw(gen.f32(-1, 1)) for _ in range(dim * dim)], c=draw(gen.f32(1, 3)))
    return dict(dx=dx, metric=metric, scale=draw(st.sampled_from(BASIS_SCALES)), dtype=draw(st.sampled_from(["float32", "float32", "float64"])))


def repro_basis_zero_strip_component():
    """compute_orthonormal_basis with an exactly-zero component of G.dx at strip_col (outside what any model kind can produce: v0 = exp(.) > 0;
    excluded by construction in `body_basis`): torch.sign(0) = 0 gives alpha = 0, the reflection maps G.dx to -G.dx instead of onto e_j and the
    remaining column is *collinear* to G.dx. Returns (basis, |b.w|/(|b||w|)) for dx = (0, 1), G = 1: expected cosine 0, observed 1."""
    import torch

    env.import_leaspy()
    from leaspy.utils.linalg import compute_orthonormal_basis

    dx = torch.tensor([0.0, 1.0])
    B = compute_orthonormal_basis(dx, torch.tensor(1.0), strip_col=0)
    return B.tolist(), float((B[:, 0] @ dx).abs() / (B[:, 0].norm() * dx.norm()))


def shard_basis(seed: int, n_examples: int, max_dim: int = 6, shard: int = 0):
    env.import_leaspy()
    col = Collector(PROP, f"basis-{shard}")
    drive(col, basis_case(max_dim=max_dim), body_basis, n_examples=n_examples, seed=shard_seed(seed, shard, 7))
    return col


# ------------------------------------------------------------------------------------------------
# body
# ------------------------------------------------------------------------------------------------
def body(col: Collector, case):
    cfg = case["cfg"]
    ctx = build_ctx(cfg, case["cohort"])
    if isinstance(ctx, str):
        col.exclude(ctx, n=len(case["variants"]))
        return
    for var in case["variants"]:
        sig = jhash([cfg, case["cohort"], var])
        seen = col.__dict__.setdefault("_c10_seen", set())  # per collector: shrinking / replay use fresh collectors
        if sig in seen:
            col.cls("skipped:value-set-already-evaluated")  # Hypothesis re-uses parts of earlier examples; not counted as an evaluation
            continue
        seen.add(sig)
        one(col, ctx, cfg, case["cohort"], var)


def one(col: Collector, ctx, cfg, cohort, var):
    """one oracle evaluation = one generated value set on the configuration / cohort."""
    kind = cfg["kind"]
    d, sd = cfg["kwargs"]["dimension"], cfg["kwargs"]["source_dimension"]
    has_src = sd >= 1
    m, ds, _ = ctx
    inp = dict(cfg=cfg, cohort=cohort, variants=[var])  # replayable on its own
    classes = ["kind:" + kind, f"dim:{d}", f"sources:{sd}"]
    if kind == "joint":
        classes.append("joint:sources" if has_src else "joint:no-sources")
    info_o = info_r = None
    s = build_state(ctx, kind, var["pop"], var["lat"])
    try:
        try:
            if has_src:
                classes.append("ortho")
                info_o = check_ortho(fresh_state(s) if var.get("cold") and _has_step(kind) else s, kind, "before")
            if _has_step(kind):
                classes += ["recentre", "how:" + var["how"], "fork:" + var["fork"], "cache:cold" if var.get("cold") else "cache:warm"]
                ages = var.get("traj")
                if ages:
                    # public API on the model whose own state is the one re-centred in place (what `fit` works on);
                    # two calls before the step so that anything the model caches between calls is warm
                    classes += ["traj", "traj:" + kind]
                    inds = list(range(min(3, ds.n_individuals)))
                    m.state = s
                    _traj_calls(m, s, ages, inds, has_src)
                    traj_before = _traj_calls(m, s, ages, inds, has_src)
                    traj_tols = [_traj_tolerance(fresh_state(s) if var.get("cold") else s, kind, d, ages, i, has_src) for i in inds]
                info_r = check_recentre(m, s, kind, var, has_src)
                if "skipped" in info_r:
                    col.exclude(info_r["skipped"])
                    info_r = None
                else:
                    if has_src:
                        check_ortho(s, kind, "after-recentre")
                    if ages:
                        n_ev = check_traj_compare(kind, d, traj_before, _traj_calls(m, s, ages, inds, has_src), traj_tols)
                        if n_ev:
                            classes.append("traj:event-column-judged")
                        elif kind == "joint":
                            classes.append("traj:event-column-skipped(exponent>50-or-non-finite)")
        except Fail:
            raise
        except AssertionError as e:
            raise Fail("recentre" if _has_step(kind) else "ortho", "assertion:" + exc_bucket(e), repr(e), "no assertion") from e
        except (RuntimeError, ValueError, TypeError, IndexError, KeyError, AttributeError, ArithmeticError) as e:
            if leaspy_frame(e) == "outside-leaspy":
                raise  # harness error, not a judgement on leaspy
            raise Fail("recentre" if _has_step(kind) else "ortho", "unexpected-exception:" + exc_bucket(e), repr(e), "the step and every read succeed") from e
    except Fail as f:
        col.fail(f.sub, f.bucket, inp, observed=f.observed, expected=f.expected)
        col.case(classes=classes)
        return
    finally:
        m.state = ctx[2]
    nt_r = info_r is not None and abs(info_r["mean0"]) > 0.1
    nt_o = info_o is not None and d >= 3 and sd >= 2 and info_o["betas_cols_nonzero"]
    if nt_r:
        classes.append("recentre:nontrivial")
    if nt_o:
        classes.append("ortho:nontrivial")
    if var["pop"].get("log_v0_offset"):
        classes.append("slow-progression(log_v0-offset)")
    if info_o is not None and info_o["w_norm"] < 1e-7:
        classes += ["tiny-velocity", "ortho:tiny-velocity"]
    if info_r is not None and info_r["barrier"]:
        classes.append("joint:event-barrier-value")
    if info_r is not None and abs(info_r["mean0"]) <= 0.1:
        classes.append("recentre:small-mean")
    sample = dict(kind=kind, dimension=d, source_dimension=sd, n_individuals=ds.n_individuals, how=var["how"], fork=var["fork"], pop=var["pop"])
    if info_r is not None:
        sample.update(mean_xi_before=info_r["mean0"], mean_xi_after=info_r["mean1"], worst_change_over_tolerance=info_r["worst"])
    if info_o is not None:
        sample.update(worst_abs_cosine_mixing_vs_direction=info_o["worst_cos"])
    col.case(classes=classes, nontrivial=jhash(inp) if (nt_r or nt_o) else None, sample=sample)


# ------------------------------------------------------------------------------------------------
# strategy
# ------------------------------------------------------------------------------------------------
def _floats(lo, hi, n):
    return st.lists(gen.f32(lo, hi), min_size=n, max_size=n)


@st.composite
def case_strategy(draw, kinds, max_dim=4, max_ind=8, n_var=(3, 6)):
    kind = draw(st.sampled_from(list(kinds)))
    if kind == "joint":
        d = draw(st.sampled_from([1, 1, 2, 2, 3, 3]))
        sd = 0 if d == 1 else draw(st.integers(1, d - 1))
        kw = dict(dimension=d, source_dimension=sd, nb_events=1)
    else:
        lo = 2 if kind == "shared_speed_logistic" else 1
        d = draw(st.sampled_from([x for x in (1, 2, 2, 3, 3, 3, 4, 4, 5) if lo <= x <= max_dim]))
        if kind == "shared_speed_logistic":
            sd = draw(st.integers(1, d - 1))  # orthogonality only: sources needed
        else:
            sd = draw(st.sampled_from([0] + 3 * list(range(1, d)))) if d > 1 else 0
        kw = dict(dimension=d, source_dimension=sd, obs_models=draw(st.sampled_from(["gaussian-scalar", "gaussian-diagonal"])))
    cfg = dict(kind=kind, kwargs=kw)
    n = draw(st.integers(2, max_ind))
    cohort = draw(gen.cohort(kind=gen.data_kind_for(cfg), n_ind=(n, n), n_visits=(1, 4), features=[f"f{j}" for j in range(d)],
                             event=kind == "joint", id_kinds=("s",), shuffle=False))
    variants = [draw(variant_strategy(kind, d, sd, n)) for _ in range(draw(st.integers(n_var[0], n_var[1])))]
    return dict(cfg=cfg, cohort=cohort, variants=variants)


@st.composite
def variant_strategy(draw, kind, d, sd, n):
    pop = dict(noise_std=draw(_floats(0.05, 0.5, d)))
    if kind == "shared_speed_logistic":
        pop.update(log_g=draw(_floats(-2, 2, 1)), deltas=draw(_floats(-2, 2, d - 1)))
    else:
        pop["log_v0"] = draw(_floats(-6, -1, d))
        off = draw(st.sampled_from(LOG_V0_OFFSETS))
        if off:
            pop["log_v0_offset"] = off
        pop["g" if kind == "linear" else "log_g"] = draw(_floats(-3, 3, d))
    if sd:
        pop["betas"] = draw(_floats(-1, 1, (d - 1) * sd))
    if kind == "joint":
        pop.update(n_log_nu=draw(_floats(-3.9, 0, 1)), log_rho=draw(_floats(-0.7, 1.6, 1)))
        if sd:
            pop["zeta"] = draw(_floats(-1, 1, sd))
    lat = dict(xi_off=draw(st.one_of(gen.f32(0.15, 2), gen.f32(-2, -0.15), gen.f32(0.15, 2), gen.f32(-2, -0.15), st.just(0.0))),
               xi_dev=draw(_floats(-2, 2, n)), tau_dev=draw(_floats(-3, 3, n)))
    if sd:
        lat["sources"] = draw(_floats(-3, 3, n * sd))
    if kind == "joint":
        lat["barrier"] = draw(st.sampled_from([True, True, True, False]))
    var = dict(pop=pop, lat=lat, how=draw(st.sampled_from(["direct", "suffstats"])), fork=draw(st.sampled_from(["none", "ref", "ref", "copy"])),
               cold=draw(st.booleans()))
    if _has_step(kind) and draw(st.sampled_from([True, False, False])):
        var["traj"] = draw(st.lists(gen.f32(40, 100), min_size=1, max_size=4))
    return var


# ------------------------------------------------------------------------------------------------
# shards
# ------------------------------------------------------------------------------------------------
def shard_run(kinds, seed: int, n_examples: int, max_dim: int = 4, max_ind: int = 8, shard: int = 0):
    env.import_leaspy()
    col = Collector(PROP, f"gauge-{'+'.join(kinds)}-{shard}")
    drive(col, case_strategy(tuple(kinds), max_dim=max_dim, max_ind=max_ind), body, n_examples=n_examples, seed=shard_seed(seed, shard))
    return col


KIND_SETS = [("joint",), ("joint",), ("joint", "logistic"), ("logistic",), ("logistic",), ("linear",), ("linear",), ("logistic", "linear"),
             ("shared_speed_logistic",), ("shared_speed_logistic", "logistic"), ("joint", "linear"), ("logistic", "linear", "joint"),
             ("logistic", "linear", "joint", "shared_speed_logistic"), ("joint",), ("logistic",), ("linear", "shared_speed_logistic")]


def shards(tier: str, seed: int):
    n, max_dim, max_ind = dict(quick=(170, 4, 8), thorough=(2500, 5, 12))[tier]
    specs = []
    for k, ks in enumerate(KIND_SETS):
        n_k = n if "joint" not in ks else int(n * 0.5)  # joint initialisation (lifelines fit) is several times slower
        specs.append((MOD, "shard_run", dict(kinds=ks, seed=seed, n_examples=n_k, max_dim=max_dim, max_ind=max_ind, shard=k)))
    specs.sort(key=lambda sp: -sp[2]["n_examples"] * (2 if "joint" in sp[2]["kinds"] else 1))
    n_b = dict(quick=250, thorough=3000)[tier]
    for k in range(2):
        specs.append((MOD, "shard_basis", dict(seed=seed, n_examples=n_b, shard=100 + k)))
    return specs


def repro_joint_init_id_order():
    """Reproducer of a defect found while building joint states (NOT a C10 violation). Repaired in /repo by
    'fix: joint and mixture models pair first-visit ages with the right individuals'; kept as a regression helper, no longer excluded.

    `JointModel._estimate_initial_event_parameters` (joint.py, `dataset.event_time[:, i] - approx_tau`) and `put_individual_parameters`
    take per-individual first visits from `dataset.to_pandas().reset_index("TIME").groupby("ID").min()` (rows in *sorted* ID order) and combine
    them positionally with `dataset.event_time` / the state's individuals (dataset order = order of appearance in the table). With ids whose
    appearance order is not the sorted order (['c','b','a'], or s0..s11 where 's10' < 's2') every individual is paired with another one's
    first visit: initial Weibull parameters / tau are silently wrong, or lifelines refuses a non-positive duration (ValueError).
    Returns (result with ids in sorted order, result with the same individuals labelled in reverse order)."""
    import pandas as pd

    env.import_leaspy()
    from leaspy.io.data import Data, Dataset
    from leaspy.models.factory import model_factory

    def run(ids):
        spec = {ids[0]: (80, 85.0, 1), ids[1]: (50, 55.0, 0), ids[2]: (60, 66.0, 1)}
        rows = [[i, spec[i][0] + k, 0.3 + 0.1 * k, spec[i][1], spec[i][2]] for i in ids for k in range(3)]
        ds = Dataset(Data.from_dataframe(pd.DataFrame(rows, columns=["ID", "TIME", "f0", "EVENT_TIME", "EVENT_BOOL"]), "joint"))
        m = model_factory("joint", dimension=1, source_dimension=0, nb_events=1)
        try:
            m.initialize(ds)
            return dict(ids=ids, n_log_nu_mean=m.state["n_log_nu_mean"].tolist(), log_rho_mean=m.state["log_rho_mean"].tolist())
        except Exception as e:  # noqa: BLE001 - reproducer reports whatever is raised
            return dict(ids=ids, error=f"{type(e).__name__}: {e}")

    return run(["a", "b", "c"]), run(["c", "b", "a"])


def replay(sub_check: str, inp):
    env.import_leaspy()
    col = Collector(PROP, "replay")
    if sub_check == "basis":
        body_basis(col, dict(dx=inp["dx"], metric=inp["metric"], scale=inp.get("scale", 1.0), dtype=inp.get("dtype", "float32")))
        return [f for f in col.failures if f["input"].get("strip_col") == inp.get("strip_col", f["input"].get("strip_col"))]
    body(col, inp)
    return col.failures
