"""C05 - sufficient statistics follow the stochastic-approximation schedule.

Engine A: exhaustive configuration grid (n_iter 1..12 x burn-in fraction or explicit count x step power) on real short fits.
Engine B: Hypothesis configurations beyond the grid (n_iter <= 60, arbitrary fractions/powers, generated cohorts, all model kinds).
Recorded per iteration k (pass-through wrappers): s_k = return value of model.compute_sufficient_statistics(state),
S_k = algo.sufficient_statistics after the maximisation step, and the burn_in flag handed to the update rules.
"""
from __future__ import annotations

import math

from hypothesis import strategies as st

from vf.checks.c01 import same
from vf.core import env, gen, observe
from vf.core.harness import Collector, drive, exc_bucket, jhash, shard_seed

PROP = "C05"
MOD = "vf.checks.c05"
RULE = (
    "Grid: n_iter 1..12 x (burn-in fraction in {0,.1,.29,.5,.7,.9,1} or explicit count 0..n_iter+1) x power in {0.51,0.8,1.0} x model kind "
    "(logistic, linear; thorough: + shared-speed, joint, mixture) on a fixed small cohort, every iteration of every run judged; refused powers "
    "{0.5,0.3,1.0001,0,-1,2,nan,+inf,-inf}; annealing blocks shorter and longer than the memory-less phase; Hypothesis: n_iter 1..60, fraction in [0,1] or count, power in (0.5,1], generated cohort and model kind. "
    "Non-trivial = a run that contains all three regimes (k <= n_burn_in, k = n_burn_in+1, k >= n_burn_in+2); distinct by configuration."
)
ASSUMPTIONS = [
    "n_burn_in = the explicit count if given (also when the fraction keeps its default value: the code documents that the count has priority), else int(fraction * n_iter) evaluated in Python floats (the documented formula; int(0.29*100) = 28 is expected).",
    "Memory-less phase (k <= n_burn_in + 1): S_k must equal s_k bit-exactly. Afterwards S_k must equal (1-e_k) S_(k-1) + e_k s_k both bit-exactly with the same float32 ops and against float64 within 8 ulp of the summed magnitudes.",
    "LeaspyConvergenceError during a generated fit (collapsed variance) ends the case as a rejected input.",
]
REQUIRED_CLASSES = {"all-three-regimes": 100, "refused-power": 12, "nb=0": 10, "nb>=n_iter": 10, "explicit-count": 50, "explicit-count+default-fraction": 30, "second-run-of-same-algorithm-object": 30,
                    "annealing-longer-than-memoryless-phase": 30, "counts-given-through-load_parameters": 30}

GRID_FRACS = [0.0, 0.1, 0.29, 0.5, 0.7, 0.9, 1.0]
GRID_POWERS = [0.51, 0.8, 1.0]
BAD_POWERS = [0.5, 0.3, 1.0001, 0.0, -1.0, 2.0, "nan", "inf", "-inf"]  # strings: non-finite floats kept JSON-clean in replays


def fixed_cohort(kind="logistic", nf=2, event=False):
    rows = []
    for i in range(6):
        k = 3 + (i % 3)
        for j in range(k):
            a = round(60 + 2.5 * i + 1.7 * j, 4)
            vals = []
            for f in range(nf):
                x = 0.18 * (a - 68 - i) + 0.4 * f - 0.3 + 0.11 * math.sin(3.1 * i + 1.3 * j + f)
                v = 1 / (1 + math.exp(-x)) if kind != "linear" else 0.3 * x
                vals.append(round(min(0.97, max(0.03, v)) if kind != "linear" else v, 5))
            if nf > 1 and (i + j) % 4 == 3:
                vals[(i + j) % nf] = None
            rows.append([f"s{i}", a] + vals)
    case = dict(kind=kind, features=[f"f{j}" for j in range(nf)], rows=rows, id_kind="s", miss_mode="sparse")
    if event:
        evs = {}
        for i in range(6):
            last = max(r[1] for r in rows if r[0] == f"s{i}")
            evs[str(i)] = [round(last + 0.5 + 0.7 * i, 4), 0 if i in (1, 4) else 1]
        case["events"] = evs
        case["rows"] = [r + evs[r[0][1:]] for r in rows]
    return case


def tval(v):
    return (v.value if hasattr(v, "value") else v).detach().clone()


def run_config(col: Collector, cfg, cohort, algo_kw, sub_check, classes):
    """Run one fit with recording and judge every iteration. Returns regimes seen (set) or None if rejected."""
    import torch

    from leaspy.algo import AlgorithmSettings
    from leaspy.algo.fit.mcmc_saem import TensorMcmcSaemAlgorithm as A
    from leaspy.exceptions import LeaspyAlgoInputError, LeaspyConvergenceError

    inp = dict(cfg=cfg, cohort=cohort, algo=algo_kw)
    n_iter = algo_kw["n_iter"]
    if isinstance(algo_kw.get("burn_in_step_power"), str):
        algo_kw = dict(algo_kw, burn_in_step_power=float(algo_kw["burn_in_step_power"]))
    power = algo_kw.get("burn_in_step_power", 0.8)
    if algo_kw.get("n_burn_in_iter") is not None:
        nb = algo_kw["n_burn_in_iter"]
    else:
        nb = int(algo_kw.get("n_burn_in_iter_frac", 0.9) * n_iter)
    # an annealing block (any length, shorter or longer than the memory-less phase) does not enter the statement: nb is unchanged
    rec = []
    box = {}

    def before_max(self, model, state):
        box.clear()
        ocs = model.compute_sufficient_statistics
        oup = model.update_parameters

        def wcs(st_):
            s_ = ocs(st_)
            box["s"] = {k: tval(v) for k, v in s_.items()}
            return s_

        def wup(st_, suff, *, burn_in):
            box["burn_in"] = burn_in
            box["passed"] = {k: tval(v) for k, v in suff.items()}
            return oup(st_, suff, burn_in=burn_in)

        model.compute_sufficient_statistics = wcs
        model.update_parameters = wup
        box["model"] = model

    def after_max(out, self, model, state):
        del model.compute_sufficient_statistics
        del model.update_parameters
        rec.append(dict(k=self.current_iteration, s=box.get("s"), S={k: tval(v) for k, v in self.sufficient_statistics.items()},
                        burn_in=box.get("burn_in"), passed=box.get("passed")))

    df, data, ds = gen.dataset_from_case(cohort)
    model = gen.build_model(cfg)
    ok_power = 0.5 < power <= 1
    try:
        with observe.wrap_method(A, "_maximization_step", before=before_max, after=after_max):
            settings = AlgorithmSettings("mcmc_saem", seed=algo_kw.get("seed", 0), progress_bar=False,
                                         **{k: v for k, v in algo_kw.items() if k not in ("seed", "second_run", "via_load_parameters")})
            if algo_kw.get("second_run"):
                # one algorithm object run twice (what BaseModel.fit does, minus the fresh algorithm per call):
                # the SECOND run is the one recorded and judged
                from leaspy.models.base import BaseModel

                algorithm = BaseModel._get_algorithm(None, settings, None)
                warm = gen.build_model(cfg)
                dataset_w = BaseModel._get_dataset(data)
                warm.initialize(dataset_w)
                algorithm.run(warm, dataset_w)
                rec.clear()
                dataset = BaseModel._get_dataset(data)
                model.initialize(dataset)
                algorithm.run(model, dataset)
                classes.append("second-run-of-same-algorithm-object")
            elif algo_kw.get("via_load_parameters"):
                # the counts reach the algorithm through the documented BaseAlgorithm.load_parameters
                # (docstring example: {'n_iter': 5000, 'n_burn_in_iter': 4000}) after it was created with other counts
                from leaspy.algo import algorithm_factory
                from leaspy.models.base import BaseModel

                other = {k: v for k, v in algo_kw.items() if k not in ("seed", "second_run", "via_load_parameters", "n_iter", "n_burn_in_iter", "n_burn_in_iter_frac")}
                algorithm = algorithm_factory(AlgorithmSettings("mcmc_saem", seed=algo_kw.get("seed", 0), progress_bar=False, n_iter=2 * n_iter + 7, **other))
                algorithm.load_parameters({"n_iter": n_iter, "n_burn_in_iter": nb})
                dataset = BaseModel._get_dataset(data)
                model.initialize(dataset)
                algorithm.run(model, dataset)
                classes.append("counts-given-through-load_parameters")
            else:
                model.fit(data, algorithm_settings=settings)
    except LeaspyAlgoInputError as e:
        if ok_power and gen.is_zero_scale_refusal(e):
            col.exclude("sampler-refused:zero-initial-scale")
            return None
        if ok_power:
            col.fail(sub_check, "valid-configuration-refused:" + exc_bucket(e), inp, observed=repr(e), expected="runs all iterations")
        elif rec:
            col.fail(sub_check, "power-refused-after-iterations-ran", inp, observed=f"{len(rec)} iterations ran", expected="refused at construction, nothing runs")
        else:
            classes.append("refused-power")
        return set()
    except LeaspyConvergenceError:
        col.exclude("fit-collapsed-variance(LeaspyConvergenceError)")
        return None
    except Exception as e:
        if type(e).__name__ == "ConvergenceError":
            col.exclude("joint-init-weibull-fit-not-converged")
            return None
        if gen.is_zero_scale_refusal(e):
            col.exclude("sampler-refused:zero-initial-scale")
            return None
        col.fail(sub_check, "unexpected-exception:" + exc_bucket(e), inp, observed=repr(e), expected="fit runs")
        return set()
    if not ok_power:
        col.fail(sub_check, "power-outside-(0.5,1]-accepted", inp, observed=f"ran {len(rec)} iterations with power {power}", expected="LeaspyAlgoInputError")
        return set()
    if [r["k"] for r in rec] != list(range(1, n_iter + 1)):
        col.fail(sub_check, "iterations-not-1..n_iter", inp, observed=[r["k"] for r in rec], expected=f"1..{n_iter}")
        return set()
    regimes = set()
    prev = None
    for r in rec:
        k, s_k, S_k = r["k"], r["s"], r["S"]
        if s_k is None:
            col.fail(sub_check, "statistics-not-computed-in-iteration", inp, observed=f"iteration {k}", expected="compute_sufficient_statistics called once")
            return regimes
        if r["burn_in"] != (k <= nb):
            col.fail(sub_check, "burn-in-flag-wrong", inp, observed=f"k={k}: burn_in={r['burn_in']}", expected=f"{k <= nb} (n_burn_in={nb})")
            return regimes
        if set(r["passed"]) != set(S_k) or any(not same(r["passed"][q], S_k[q]) for q in S_k):
            col.fail(sub_check, "update-rules-fed-with-other-statistics", inp, observed=f"k={k}", expected="the statistics in force")
            return regimes
        if k <= nb + 1:
            regimes.add("memoryless" if k <= nb else "first-with-memory")
            bad = [q for q in s_k if q not in S_k or not same(S_k[q], s_k[q])]
            if bad or set(S_k) != set(s_k):
                col.fail(sub_check, "memoryless-phase-statistics-differ-from-current", inp,
                         observed=f"k={k} (n_burn_in={nb}): {bad[:3]}", expected="S_k == s_k exactly")
                return regimes
        else:
            regimes.add("averaging")
            e = (k - nb) ** (-power)
            for q in s_k:
                exp32 = prev[q] * (1.0 - e) + e * s_k[q]
                exp64 = prev[q].double() * (1.0 - e) + e * s_k[q].double()
                mag = prev[q].double().abs() * (1.0 - e) + e * s_k[q].double().abs()
                tol = 8 * 1.1920929e-07 * mag + 1e-30
                got = S_k[q]
                fin = torch.isfinite(exp64)
                if not same(got, exp32):
                    col.fail(sub_check, "averaging-step-differs(bit-exact)", inp, observed=f"k={k} {q}: {got.flatten()[:4].tolist()}",
                             expected=f"(1-e)S+e*s with e=({k}-{nb})^-{power}: {exp32.flatten()[:4].tolist()}")
                    return regimes
                if bool(((got.double() - exp64).abs()[fin] > tol[fin]).any()):
                    col.fail(sub_check, "averaging-step-differs(float64)", inp, observed=f"k={k} {q}: {got.flatten()[:4].tolist()}",
                             expected=f"{exp64.flatten()[:4].tolist()}")
                    return regimes
        prev = S_k
    return regimes


def judge_cfg(col, cfg, cohort, algo_kw, sub_check, extra_classes=()):
    classes = list(extra_classes) + ["kind:" + cfg["kind"]]
    n_iter = algo_kw["n_iter"]
    if algo_kw.get("n_burn_in_iter") is not None:
        nb = algo_kw["n_burn_in_iter"]
        classes.append("explicit-count")
        if "n_burn_in_iter_frac" not in algo_kw:
            classes.append("explicit-count+default-fraction")
    else:
        nb = int(algo_kw.get("n_burn_in_iter_frac", 0.9) * n_iter)
    ann = algo_kw.get("annealing")
    if ann:
        classes.append("annealing")
        if int(ann["n_iter_frac"] * n_iter) > nb:
            classes.append("annealing-longer-than-memoryless-phase")
    if nb == 0:
        classes.append("nb=0")
    if nb >= n_iter:
        classes.append("nb>=n_iter")
    regimes = run_config(col, cfg, cohort, algo_kw, sub_check, classes)
    if regimes is None:
        return
    nt = len(regimes) == 3
    if nt:
        classes.append("all-three-regimes")
    col.case(classes=classes, nontrivial=jhash([cfg, algo_kw, cohort["rows"][:3]]) if nt else None,
             sample=dict(model=cfg, algo=algo_kw, n_burn_in=nb, regimes=sorted(regimes)))


# ------------------------------------------------------------------------------------------------
def grid_configs():
    out = []
    for n_iter in range(1, 13):
        for power in GRID_POWERS:
            for fr in GRID_FRACS:
                out.append(dict(n_iter=n_iter, n_burn_in_iter_frac=fr, burn_in_step_power=power))
            for cnt in range(0, n_iter + 2):
                out.append(dict(n_iter=n_iter, n_burn_in_iter=cnt, n_burn_in_iter_frac=None, burn_in_step_power=power))
            for cnt in (0, n_iter // 2, n_iter):  # count given, fraction left at its default: the count has priority
                out.append(dict(n_iter=n_iter, n_burn_in_iter=cnt, burn_in_step_power=power))
            if n_iter >= 4:  # annealing shorter / longer than the memory-less phase: the phase length is the configured one
                for fr, fa, P in ((0.5, 0.25, 2), (0.5, 0.8, 2), (0.25, 1.0, 3), (0.0, 0.5, 2)):
                    out.append(dict(n_iter=n_iter, n_burn_in_iter_frac=fr, burn_in_step_power=power,
                                    annealing=dict(do_annealing=True, n_iter_frac=fa, n_plateau=P, initial_temperature=5.0)))
                out.append(dict(n_iter=n_iter, n_burn_in_iter=n_iter // 3, n_burn_in_iter_frac=None, burn_in_step_power=power,
                                annealing=dict(do_annealing=True, n_iter_frac=0.9, n_plateau=2, initial_temperature=2.0)))
            if n_iter >= 3:  # counts given through BaseAlgorithm.load_parameters after construction
                out.append(dict(n_iter=n_iter, n_burn_in_iter=n_iter // 2, n_burn_in_iter_frac=None, burn_in_step_power=power, via_load_parameters=True))
                out.append(dict(n_iter=n_iter, n_burn_in_iter_frac=0.29, burn_in_step_power=power, via_load_parameters=True))
            if n_iter >= 4:  # the same algorithm object run twice: the schedule restarts with every run
                out.append(dict(n_iter=n_iter, n_burn_in_iter_frac=0.5, burn_in_step_power=power, second_run=True))
    return out


KIND_CFGS = {
    "logistic": dict(kind="logistic", kwargs=dict(dimension=2, source_dimension=1, obs_models="gaussian-diagonal")),
    "linear": dict(kind="linear", kwargs=dict(dimension=2, source_dimension=1, obs_models="gaussian-scalar")),
    "shared_speed_logistic": dict(kind="shared_speed_logistic", kwargs=dict(dimension=2, source_dimension=1, obs_models="gaussian-diagonal")),
    "joint": dict(kind="joint", kwargs=dict(dimension=2, source_dimension=1, nb_events=1)),
    "mixture_logistic": dict(kind="mixture_logistic", kwargs=dict(dimension=2, source_dimension=1, n_clusters=2, obs_models="gaussian-diagonal")),
}


def shard_grid(kind: str, part: int, n_parts: int):
    env.import_leaspy()
    col = Collector(PROP, f"grid-{kind}-{part}/{n_parts}")
    cfg = KIND_CFGS[kind]
    cohort = fixed_cohort("linear" if kind == "linear" else "logistic", 2, event=(kind == "joint"))
    cfgs = grid_configs()
    for i, akw in enumerate(cfgs):
        if i % n_parts != part:
            continue
        judge_cfg(col, cfg, cohort, akw, "grid", ["grid"])
    if part == 0:
        for p in BAD_POWERS:
            for n_iter in (1, 5):
                judge_cfg(col, cfg, cohort, dict(n_iter=n_iter, burn_in_step_power=p), "grid", ["grid", "bad-power"])
    col.extra["grid_configurations"] = sum(1 for i in range(len(cfgs)) if i % n_parts == part)
    return col


@st.composite
def gen_case(draw, kinds):
    cfg = draw(gen.model_cfg(kinds=kinds, dim=(1, 3)))
    feats = [f"f{j}" for j in range(cfg["kwargs"]["dimension"])]
    cohort = draw(gen.cohort(kind=gen.data_kind_for(cfg), n_ind=(max(4, gen.min_ind_for(cfg)), 8), n_visits=(2, 5), features=feats, event=cfg["kind"] == "joint",
                             id_kinds=("s",), shuffle=False))
    n_iter = draw(st.integers(1, 60))
    akw = dict(n_iter=n_iter, seed=draw(st.integers(0, 999)))
    if draw(st.booleans()):
        akw["n_burn_in_iter_frac"] = draw(st.one_of(st.sampled_from([0.0, 1.0, 0.5, 0.9]), st.floats(0, 1, allow_nan=False)))
    else:
        akw["n_burn_in_iter"] = draw(st.integers(0, n_iter + 2))
        if draw(st.booleans()):
            akw["n_burn_in_iter_frac"] = None  # else: fraction left at its default, the explicit count still has priority
    pw = draw(st.one_of(st.sampled_from([1.0, 0.51, 0.8]), st.floats(0.5, 1.0, exclude_min=True, allow_nan=False), st.sampled_from(BAD_POWERS)))
    akw["burn_in_step_power"] = pw
    if draw(st.booleans()):
        akw["sampler_pop"] = draw(st.sampled_from(["Gibbs", "FastGibbs", "Metropolis-Hastings"]))
    if n_iter >= 2 and draw(st.sampled_from([False, False, True])):
        fa = draw(st.sampled_from([0.25, 0.5, 0.8, 1.0]))
        P = min(draw(st.integers(1, 4)), int(fa * n_iter) + 1)  # valid scheme: at least n_plateau - 1 annealing iterations
        akw["annealing"] = dict(do_annealing=True, n_iter_frac=fa, n_plateau=max(1, P), initial_temperature=draw(st.sampled_from([2.0, 10.0])))
    if draw(st.sampled_from([False, False, True])) and not isinstance(pw, str) and 0.5 < pw <= 1:
        akw["second_run"] = True
    elif "annealing" not in akw and not isinstance(pw, str) and 0.5 < pw <= 1 and draw(st.sampled_from([False, False, True])):
        akw["via_load_parameters"] = True
    return dict(cfg=cfg, cohort=cohort, algo=akw)


def body_gen(col, case):
    judge_cfg(col, case["cfg"], case["cohort"], case["algo"], "generated", ["generated"])


def shard_gen(kinds, seed: int, n_examples: int, shard: int = 0):
    env.import_leaspy()
    col = Collector(PROP, f"gen-{'+'.join(kinds)}-{shard}")
    drive(col, gen_case(tuple(kinds)), body_gen, n_examples=n_examples, seed=shard_seed(seed, shard, 5))
    return col


def shards(tier: str, seed: int):
    specs = []
    kinds = ["logistic", "linear"] if tier == "quick" else list(KIND_CFGS)
    for kind in kinds:
        parts = 4 if tier == "quick" else 3
        for p in range(parts):
            specs.append((MOD, "shard_grid", dict(kind=kind, part=p, n_parts=parts)))
    n = 14 if tier == "quick" else 250
    ksets = [("logistic",), ("linear",), ("shared_speed_logistic",), ("joint",), ("mixture_logistic",), ("logistic", "joint"), ("linear", "logistic"), ("joint", "shared_speed_logistic")]
    for s in range(8 if tier == "quick" else 16):
        specs.append((MOD, "shard_gen", dict(kinds=ksets[s % len(ksets)], seed=seed, n_examples=n, shard=s)))
    return specs


def replay(sub_check: str, inp):
    env.import_leaspy()
    col = Collector(PROP, "replay")
    judge_cfg(col, inp["cfg"], inp["cohort"], inp["algo"], sub_check)
    return col.failures
