"""C12 - a fitted model is self-consistent and survives save/load unchanged.

Sub-check "fit":       short seeded mcmc_saem fits (8-30 iterations) of every kind on generated cohorts. After the fit every
                       population latent variable must equal the mode of its (normal) prior under the final parameters, i.e. the
                       `<variable>_mean` parameter that gets saved; v0 / g / mixing matrix / trajectories recomputed in float64 from
                       the *saved* numbers must agree with what the fitted object answers. Then the round trip below.
Sub-check "roundtrip": hand-written parameters for every kind / dimension / source_dimension / noise structure / feature names /
                       instance name / with_mixing_matrix: save -> load -> same class, name, features, dimension, source_dimension,
                       observation models; parameters and hyperparameters equal as float32; estimate equal (1e-6) on generated
                       individuals; save of the reloaded model reproduces the file except the `leaspy_version` key.
                       A third of the cases are *updated in place*: the object first receives another generated parameter set and
                       then the final one through a second load_parameters; every oracle is applied to the final set.
                       A fifth of the cases go on with one or two further, different models saved over the same file path and
                       reloaded from it (a stale read of the path rebuilds the previous model). Feature names include leading /
                       trailing / inner blanks and tabs, given at construction, through the `features` setter or by the dataset.

Known findings handled by the harness (DESIGN.md section 6):
  F7  - `save` writes the *instance* name under "name", `load` feeds it to `model_factory` as the model *kind*: a model whose name
        is not its kind cannot be reloaded (or is silently renamed / rebuilt as another kind). NEUTRALISE_F7 rewrites the saved
        "name" to the kind before `load` (cases counted) so that everything else is still checked.
  F19 - after a scalar-noise *fit* `noise_std` is a 0-d tensor although its spec shape is (1,): saved as a bare number, reloaded
        with shape (1,), re-saved as a list. EXCLUDE_F19 compares such files/parameters modulo that one shape (cases counted).
  F64 - (found by this check) a joint or mixture fit leaves float64 parameters (tau_mean, tau_std, xi_std, noise_std, ...; their
        `put_individual_parameters` seeds xi/tau as torch.double): the file holds 17 significant digits, the reloaded model is
        float32, its re-saved file differs in the last digits. EXCLUDE_F64_FIT compares such files at float32 (cases counted).
"""
from __future__ import annotations

import json
import math
import os
import re

from hypothesis import strategies as st

from vf.core import env, gen
from vf.core.harness import Collector, drive, exc_bucket, jhash, shard_seed

PROP = "C12"
MOD = "vf.checks.c12"

NEUTRALISE_F7 = True
EXCLUDE_F19 = True
EXCLUDE_F64_FIT = True

BUCKET_F7 = "reload:instance-name-read-as-kind"
BUCKET_F19 = "fit-leaves-parameter-with-other-shape-than-spec:noise_std"
BUCKET_F64 = "fit-leaves-float64-parameters"

RULE = (
    "fit: Hypothesis cases = model configuration (kind in logistic/linear/shared_speed_logistic/joint/mixture_logistic, dimension 1-4, "
    "source_dimension 0..dimension-1, noise gaussian-scalar/gaussian-diagonal/bernoulli) x instance name x feature names x generated "
    "cohort (vf.core.gen.cohort, 2-8 individuals) x n_iter 8-30 x seed x algorithm configuration (memory-less phase as default / "
    "fraction in {0,.25,.5,.75,1} / explicit count with fraction None / explicit count with default fraction; annealing on/off; "
    "population sampler Gibbs/FastGibbs/Metropolis-Hastings) x individuals to estimate; roundtrip: the same configuration "
    "space with hand-written float32 parameters in the DESIGN.md ranges, with_mixing_matrix in {True, False}, constructor given "
    "features only or features+dimension, and for 1/3 of the cases a first parameter set replaced by the final one through a second "
    "load_parameters on the same object, for 1/4 feature names assigned through the `features` setter, for 1/5 one or two further "
    "different models written over the same file path and reloaded. Feature names: pool + generated text incl. leading/trailing/inner "
    "blanks and tabs (also as dataset headers of the fitted models). Non-trivial = source_dimension >= 1 and dimension >= 2 and instance name != model kind; "
    "distinct by the whole case."
)
ASSUMPTIONS = [
    "Hand-written models are built the way BaseModel.load builds them: model_factory(kind, instance_name=..., **hyperparameters), "
    "load_parameters(dict), _is_initialized = True; feature names are always given (a model without features cannot be reloaded). "
    "load_parameters is documented as 'instantiate or update': after a second call the object must be indistinguishable from one "
    "that only ever received the final parameters (population variables at their prior modes included).",
    "Prior mode: every population latent variable of the shipped kinds has a Normal(<name>_mean, <name>_std) prior, whose mode is "
    "<name>_mean; equality with the saved parameter is exact (same float32 numbers).",
    "Mixing matrix oracle is a predicate, not a re-implementation: every row is orthogonal to G*v0 (metric-weighted velocity; "
    "shared-speed: g_metric*collinear term) within 1e-4*|row|*|G v0| (largest defect seen in 58k cases: 1.7e-5) and the Gram matrix of the rows equals betas_mean^T betas_mean "
    "within 5e-5*max(1,|betas|^2) (columns of the basis are orthonormal).",
    "Reference trajectories are float64 closed forms fed with the numbers in the saved file; tolerance 2e-6 + the change of the "
    "closed form under a 2e-5 relative perturbation of the summed terms (float32 evaluation). For `joint` only the longitudinal "
    "columns have a reference; the event columns are compared between the saved and the reloaded model only.",
    "estimate before/after reload must agree within 1e-6*max(1,|value|); parameters/hyperparameters bit-equal after conversion to float32.",
    "File comparison: ordered key/value structure and bytes, both without the `leaspy_version` entry.",
    "F7 neutralised (saved name rewritten to the kind before load), F19 and the float64 joint/mixture-fit drift compared modulo the "
    "affected entries; all three are counted under `excluded` and have reproducers (replay with the flag switched off in the input).",
    "JointModel with dimension >= 2 and source_dimension = 0 cannot be constructed (ValueError at construction) and is not generated; "
    "bernoulli noise only with kind logistic; mixture_logistic with dimension >= 2 always has >= 1 source and 2-3 clusters; nb_events = 1.",
    "Fits that stop with LeaspyConvergenceError (collapsed variance on a tiny cohort) or whose joint initialisation fails inside "
    "the initial lifelines Weibull fit / whose sampler initialisation refuses a zero proposal scale / that end with non-finite "
    "parameters are counted as excluded: the property speaks about completed fits.",
]
REQUIRED_CLASSES = {
    "nontrivial": 0.1, "fit": 200, "roundtrip": 1500, "roundtrip:updated-in-place": 250, "roundtrip-completed": 0.9, "name!=kind": 0.3, "name:unicode": 50,
    "name:other-kind": 50, "name:kind-in-other-case": 50, "sources>=1": 0.3,
    "kind:logistic": 100, "kind:linear": 100, "kind:shared_speed_logistic": 100, "kind:joint": 100, "kind:mixture_logistic": 100,
    "noise:gaussian-scalar": 200, "noise:gaussian-diagonal": 200, "noise:bernoulli": 30, "with_mixing_matrix=False": 200,
    "features:unicode-or-space": 200, "features:outer-blank": 200, "features:tab": 100, "features:via-setter": 200,
    "fit:features:outer-blank": 30, "fit:explicit-burn-in-count": 60, "fit:explicit-burn-in-count:fraction-none": 30,
    "fit:explicit-burn-in-count:fraction-none:>=2-iterations-with-memory": 15, "fit:explicit-burn-in-count:fraction-default": 15,
    "fit:burn-in-fraction": 40, "fit:burn-in-fraction-0-or-1": 10, "fit:burn-in-default": 20, "fit:annealing": 40,
    "fit:sampler-pop:FastGibbs": 10, "fit:sampler-pop:Metropolis-Hastings": 10, "roundtrip:same-path-overwritten": 200, "roundtrip:same-path-later-step": 200, "give-dimension": 200,
    "fit:scalar-noise": 50, "fit:sources>=1": 50, "fit:kind:joint": 10, "fit:kind:mixture_logistic": 10, "fit:pop-variables-moved": 100,
}

KINDS = ("logistic", "linear", "shared_speed_logistic", "joint", "mixture_logistic")
LOGISTIC_LIKE = ("logistic", "joint", "mixture_logistic")
RESERVED_COLUMNS = {"ID", "TIME", "EVENT_TIME", "EVENT_BOOL"}


# ------------------------------------------------------------------------------------------------
# strategies (plain JSON)
# ------------------------------------------------------------------------------------------------
_FEATURE_POOL = ["f0", "f1", "f2", "f3", "Y1", "memory score", "ADAS-13", "0", "a_b", "x.y", "é", "αβ", "MMSE", "putamen (left)",
                 "ft 1", "日本", "Tau", "xi", "model", "name",
                 " MMSE", "ADAS 13 ", "\tx", "y\t", "a\tb", "  two  blanks  ", " f0", "f1 "]


def _feature_name():
    txt = st.text(alphabet=st.sampled_from(list("abcXYZ019 \t_-.éµ/%")), min_size=1, max_size=8).map(
        lambda s: s + "_" if s in RESERVED_COLUMNS else s)
    return st.one_of(st.sampled_from(_FEATURE_POOL), txt)


def _features(d):
    return st.lists(_feature_name(), min_size=d, max_size=d, unique=True)


def _name(kind):
    others = [k for k in KINDS if k != kind]
    return st.one_of(
        st.none(), st.just(kind), st.none(),
        st.sampled_from(["test-model-logistic", "test-model", "my model", "model_v2.1"]),
        st.sampled_from(["modèle-µ", "模型-1", "Ωmega run #3", "naïve"]),
        st.sampled_from(others),
        st.just(kind.upper()), st.just(kind.capitalize()),
        st.text(alphabet=st.sampled_from(list("abcdeMN 0123-_é")), min_size=1, max_size=10),
    )


def _cfg_strategy(kinds=KINDS):
    @st.composite
    def _c(draw):
        kind = draw(st.sampled_from(list(kinds)))
        d = draw(st.integers(2 if kind in ("shared_speed_logistic", "mixture_logistic") else 1, 4))
        sd = draw(st.integers(0, d - 1))
        kw = dict(dimension=d, source_dimension=sd)
        if kind == "joint":
            kw["nb_events"] = 1
            if d >= 2 and sd == 0:
                kw["source_dimension"] = 1
            noise = draw(st.sampled_from(["gaussian-scalar", "gaussian-diagonal", None]))
            if noise:
                kw["obs_models"] = noise
        elif kind == "mixture_logistic":
            kw["source_dimension"] = max(sd, 1)
            kw["n_clusters"] = draw(st.sampled_from([2, 2, 3]))
            kw["obs_models"] = draw(st.sampled_from(["gaussian-scalar", "gaussian-diagonal"]))
        else:
            opts = ["gaussian-scalar", "gaussian-diagonal", "gaussian-scalar", "gaussian-diagonal"] + (["bernoulli"] if kind == "logistic" else [])
            kw["obs_models"] = draw(st.sampled_from(opts))
        return dict(kind=kind, kwargs=kw)

    return _c()


def _noise_of(cfg):
    kw = cfg["kwargs"]
    n = kw.get("obs_models")
    if n is None:  # joint default
        n = "gaussian-diagonal"
    if n == "gaussian-diagonal" and kw["dimension"] == 1:
        n = "gaussian-scalar"  # one noise level for one feature: the observation model names itself gaussian-scalar
    return n


def _vec(n, lo, hi):
    return st.lists(gen.f32(lo, hi), min_size=n, max_size=n)


@st.composite
def _parameters(draw, cfg):
    kind, kw = cfg["kind"], cfg["kwargs"]
    d, sd = kw["dimension"], kw["source_dimension"]
    noise = _noise_of(cfg)
    K = kw.get("n_clusters")
    p = {}
    if kind == "mixture_logistic":
        p["tau_mean"] = draw(_vec(K, 40, 90))
        p["tau_std"] = draw(_vec(K, 1, 15))
        p["xi_mean"] = draw(_vec(K, -1, 1))
        p["xi_std"] = draw(_vec(K, 0.05, 1.5))
        w = draw(_vec(K, 0.1, 1.0))
        import numpy as np

        p["probs"] = [float(np.float32(x / sum(w))) for x in w]
    else:
        p["tau_mean"] = draw(_vec(1, 40, 90))
        p["tau_std"] = draw(_vec(1, 1, 15))
        p["xi_std"] = draw(_vec(1, 0.05, 1.5))
    if noise == "gaussian-scalar":
        p["noise_std"] = draw(_vec(1, 0.01, 0.5))
    elif noise == "gaussian-diagonal":
        p["noise_std"] = draw(_vec(d, 0.01, 0.5))
    if kind in LOGISTIC_LIKE:
        p["log_g_mean"] = draw(_vec(d, -3, 3))
        p["log_v0_mean"] = draw(_vec(d, -6, -1))
    elif kind == "linear":
        p["g_mean"] = draw(_vec(d, -3, 3))
        p["log_v0_mean"] = draw(_vec(d, -6, -1))
    else:  # shared speed
        p["log_g_mean"] = draw(_vec(1, -3, 3))
        p["xi_mean"] = draw(_vec(1, -6, -1))
        p["deltas_mean"] = draw(_vec(d - 1, -2, 2))
    if sd >= 1:
        p["betas_mean"] = [draw(_vec(sd, -1, 1)) for _ in range(d - 1)]
        if kind == "mixture_logistic":
            p["sources_mean"] = [draw(_vec(K, -2, 2)) for _ in range(sd)]
    if kind == "joint":
        p["n_log_nu_mean"] = draw(_vec(1, -3.9, 0))
        p["log_rho_mean"] = draw(_vec(1, -0.69, 1.6))
        if sd >= 1:
            p["zeta_mean"] = [draw(_vec(1, -1, 1)) for _ in range(sd)]
    return p


@st.composite
def _individuals(draw, sd, shared_speed=False):
    n = draw(st.integers(1, 3))
    out = []
    for i in range(n):
        ind = dict(id=f"s{i}", xi=draw(gen.f32(-5, -2) if shared_speed else gen.f32(-2, 2)), tau=draw(gen.f32(40, 95)),
                   ages=draw(st.lists(gen.f32(20, 100), min_size=1, max_size=4)))
        if sd >= 1:
            ind["sources"] = draw(_vec(sd, -3, 3))
        out.append(ind)
    return out


@st.composite
def _roundtrip_single(draw, kinds=KINDS):
    cfg = draw(_cfg_strategy(kinds))
    kw = cfg["kwargs"]
    case = dict(cfg=cfg, name=draw(_name(cfg["kind"])), features=draw(_features(kw["dimension"])),
                give_dimension=draw(st.booleans()), with_mixing_matrix=draw(st.sampled_from([True, True, False])),
                parameters=draw(_parameters(cfg)),
                individuals=draw(_individuals(kw["source_dimension"], cfg["kind"] == "shared_speed_logistic")))
    if draw(st.sampled_from([False, False, False, True])):
        # names assigned through the `features` setter of an object constructed with its dimension only
        case["features_via_setter"] = True
    if draw(st.sampled_from([False, False, True])):
        # multi-step variant: the object first receives another parameter set, then `parameters` through a second
        # load_parameters ("instantiate or update"); everything is judged against `parameters`, the set that gets saved
        case["parameters_first"] = draw(_parameters(cfg))
    return case


@st.composite
def roundtrip_case(draw, kinds=KINDS):
    case = draw(_roundtrip_single(kinds))
    if draw(st.sampled_from([False, False, False, False, True])):
        # multi-step variant: one or two further, different models (any kind) are saved over the SAME file path within the
        # case and reloaded from it; each step is judged with the whole oracle
        n = draw(st.integers(1, 2))
        case["then_same_path"] = [draw(_roundtrip_single(KINDS)) for _ in range(n)]
    return case


@st.composite
def _algo_config(draw, n_iter, kind):
    """Extra mcmc_saem settings (plain kwargs of `fit`): how the memory-less phase is given, annealing, population sampler."""
    algo = {}
    mode = draw(st.sampled_from(["default", "fraction", "fraction", "count-fraction-none", "count-fraction-none", "count-fraction-default"]))
    if mode == "fraction":
        algo["n_burn_in_iter_frac"] = draw(st.sampled_from([0.0, 0.25, 0.5, 0.75, 1.0]))
    elif mode.startswith("count"):
        algo["n_burn_in_iter"] = draw(st.one_of(st.integers(0, n_iter), st.integers(1, max(1, n_iter - 3))))
        if mode == "count-fraction-none":
            algo["n_burn_in_iter_frac"] = None  # the documented way to give the count without the deprecation warning
    if draw(st.sampled_from([False, False, True])):
        # at least n_plateau - 1 annealing iterations (fewer are refused at initialisation)
        algo["annealing"] = dict(do_annealing=True, initial_temperature=draw(st.sampled_from([2, 5, 10])),
                                 n_plateau=draw(st.integers(2, 3)), n_iter_frac=0.5)
    if kind != "mixture_logistic" and draw(st.sampled_from([False, False, True])):
        algo["sampler_pop"] = draw(st.sampled_from(["FastGibbs", "Metropolis-Hastings"]))
    return algo


@st.composite
def fit_case(draw, kinds=KINDS):
    cfg = draw(_cfg_strategy(kinds))
    kw = cfg["kwargs"]
    feats = draw(_features(kw["dimension"]))
    lo = gen.min_ind_for(cfg)
    joint = cfg["kind"] == "joint"
    # joint: the initial Weibull fit pairs `dataset.event_time` (dataset order) with first visits grouped by sorted ID; keep both
    # orders equal (ids s0..s7 / increasing digit strings, rows not shuffled) so that the fit starts at all
    cohort = draw(gen.cohort(kind=gen.data_kind_for(cfg), n_ind=(lo, max(lo, 8)), n_visits=(1, 6), features=feats, event=joint,
                             id_kinds=("s", "digits") if joint else ("s", "digits", "unicode", "words"), shuffle=not joint))
    n_iter = draw(st.integers(8, 30))
    return dict(cfg=cfg, name=draw(_name(cfg["kind"])), cohort=cohort, n_iter=n_iter, seed=draw(st.integers(0, 50)),
                algo=draw(_algo_config(n_iter, cfg["kind"])),
                with_mixing_matrix=draw(st.sampled_from([True, True, False])),
                individuals=draw(_individuals(kw["source_dimension"], cfg["kind"] == "shared_speed_logistic")))


# ------------------------------------------------------------------------------------------------
# float64 references
# ------------------------------------------------------------------------------------------------
def _np(x):
    import numpy as np

    return np.asarray(x, dtype=np.float64)


def _sigmoid(x):
    import numpy as np

    out = np.empty_like(x)
    pos = x >= 0
    out[pos] = 1.0 / (1.0 + np.exp(-x[pos]))
    e = np.exp(x[~pos])
    out[~pos] = e / (1.0 + e)
    return out


def ref_geometry(kind, P):
    """float64 population geometry from the saved parameters: dict(g, v0, metric, ortho_to, ...)."""
    import numpy as np

    if kind in LOGISTIC_LIKE:
        lg = _np(P["log_g_mean"])
        g, v0 = np.exp(lg), np.exp(_np(P["log_v0_mean"]))
        metric = (g + 1) ** 2 / g
        return dict(g=g, v0=v0, log_g=lg, metric=metric, ortho_to=metric ** 2 * v0)
    if kind == "linear":
        g, v0 = _np(P["g_mean"]), np.exp(_np(P["log_v0_mean"]))
        return dict(g=g, v0=v0, metric=np.ones_like(g), ortho_to=v0)
    lg = float(_np(P["log_g_mean"]).reshape(-1)[0])
    dp = np.concatenate([[0.0], _np(P["deltas_mean"]).reshape(-1)])
    gd = math.exp(lg) * np.exp(-dp)
    metric = (gd + 1) ** 2 / gd
    gamma = 1.0 / (1.0 + gd)
    collin = np.exp(-dp) / (1 + gd) ** 2
    g_metric = 1.0 / (gamma * (1 - gamma)) ** 2
    return dict(g=_np([math.exp(lg)]), log_g=lg, deltas_padded=dp, metric=metric, ortho_to=g_metric * collin)


def ref_trajectory(kind, P, mixing, ind, d):
    """(values, tolerance), both (n_ages, d) float64."""
    import numpy as np

    geo = ref_geometry(kind, P)
    t = _np(ind["ages"])
    rt = math.exp(ind["xi"]) * (t - ind["tau"])  # (T,)
    w = _np(ind["sources"]) @ _np(mixing) if mixing is not None else np.zeros(d)
    rel = 2e-5
    if kind in LOGISTIC_LIKE:
        a = geo["v0"][None, :] * rt[:, None]
        logit = geo["metric"][None, :] * (a + w[None, :]) - geo["log_g"][None, :]
        mag = geo["metric"][None, :] * (np.abs(a) + np.abs(w)[None, :]) + np.abs(geo["log_g"])[None, :]
    elif kind == "linear":
        a = geo["v0"][None, :] * rt[:, None]
        val = geo["g"][None, :] + a + w[None, :]
        mag = np.abs(geo["g"])[None, :] + np.abs(a) + np.abs(w)[None, :]
        return val, 2e-6 + rel * mag
    else:
        logit = geo["metric"][None, :] * w[None, :] + rt[:, None] + geo["deltas_padded"][None, :] - geo["log_g"]
        mag = geo["metric"][None, :] * np.abs(w)[None, :] + np.abs(rt)[:, None] + np.abs(geo["deltas_padded"])[None, :] + abs(geo["log_g"])
    val = _sigmoid(logit)
    dl = rel * mag
    tol = 2e-6 + np.maximum(_sigmoid(logit + dl) - val, val - _sigmoid(logit - dl))
    return val, tol


# ------------------------------------------------------------------------------------------------
# helpers
# ------------------------------------------------------------------------------------------------
def _f32_list(x):
    """nested list of float32-rounded python floats"""
    import numpy as np

    return np.asarray(x, dtype=np.float64).astype(np.float32).astype(np.float64).tolist()


def _strip_version_pairs(pairs):
    return [(k, v) for k, v in pairs if k != "leaspy_version"]


def _load_ordered(text):
    return json.loads(text, object_pairs_hook=lambda pairs: ("__obj__", list(pairs)))


def _top_without_version(ordered):
    assert ordered[0] == "__obj__"
    return ("__obj__", _strip_version_pairs(ordered[1]))


def _same_json(a, b):
    """Equality of parsed JSON values where NaN equals NaN (fit metrics of a degenerate fit are written as NaN)."""
    if isinstance(a, float) and isinstance(b, float):
        return a == b or (a != a and b != b)
    if isinstance(a, (list, tuple)) and isinstance(b, (list, tuple)):
        return type(a) is type(b) and len(a) == len(b) and all(_same_json(x, y) for x, y in zip(a, b))
    if isinstance(a, dict) and isinstance(b, dict):
        return list(a) == list(b) and all(_same_json(a[k], b[k]) for k in a)
    return type(a) is type(b) and a == b


_VERSION_LINE = re.compile(r'^\s*"leaspy_version":[^\n]*\n', re.M)


def _bytes_without_version(text):
    return _VERSION_LINE.sub("", text, count=1)


def _ip_object(individuals):
    from leaspy.io.outputs import IndividualParameters

    ip = IndividualParameters()
    for ind in individuals:
        d = dict(xi=ind["xi"], tau=ind["tau"])
        if "sources" in ind:
            d["sources"] = list(ind["sources"])
        ip.add_individual_parameters(ind["id"], d)
    return ip


def _estimate(model, individuals):
    ip = _ip_object(individuals)
    return model.estimate({ind["id"]: list(ind["ages"]) for ind in individuals}, ip)


def _kind_kwargs(case):
    return case["cfg"]["kind"], case["cfg"]["kwargs"]


def _expected_name(case):
    return case["name"] or case["cfg"]["kind"]


def _flags(case):
    return (case.get("neutralise_f7", NEUTRALISE_F7), case.get("exclude_f19", EXCLUDE_F19), case.get("exclude_f64", EXCLUDE_F64_FIT))


def build_handwritten(case):
    from leaspy.models.factory import model_factory

    kind, kw = _kind_kwargs(case)
    hp = {k: v for k, v in kw.items() if k != "dimension"}
    if case.get("features_via_setter"):
        hp["dimension"] = kw["dimension"]
        m = model_factory(kind, instance_name=case["name"], **hp)
        m.features = list(case["features"])
    else:
        hp["features"] = list(case["features"])
        if case.get("give_dimension"):
            hp["dimension"] = kw["dimension"]
        m = model_factory(kind, instance_name=case["name"], **hp)
    if case.get("parameters_first") is not None:
        m.load_parameters({k: v for k, v in case["parameters_first"].items()})
    m.load_parameters({k: v for k, v in case["parameters"].items()})
    m._is_initialized = True
    return m


# ------------------------------------------------------------------------------------------------
# oracles
# ------------------------------------------------------------------------------------------------
def check_derived(col, sub, inp, case, model, P):
    """v0 / g / mixing matrix held by the model vs float64 values recomputed from the saved parameters `P`."""
    import numpy as np

    kind, kw = _kind_kwargs(case)
    sd = kw["source_dimension"]
    st_ = model.state
    geo = ref_geometry(kind, P)
    ok = True

    def close(name, got, ref):
        nonlocal ok
        got = np.asarray(got.detach().double().numpy()).reshape(-1)
        ref = np.asarray(ref, dtype=np.float64).reshape(-1)
        if got.shape != ref.shape or not np.all(np.abs(got - ref) <= 2e-6 + 2e-5 * np.abs(ref)):
            col.fail(sub, f"derived-value-disagrees-with-saved-parameters:{name}", inp, observed=f"{name}={got.tolist()}",
                     expected=f"{ref.tolist()} (from the saved parameters)")
            ok = False

    if kind != "shared_speed_logistic":
        close("v0", st_["v0"], geo["v0"])
    close("g", st_["g"], geo["g"])
    if kind == "shared_speed_logistic":
        close("metric", st_["metric"], geo["metric"])
    if sd >= 1:
        M = np.asarray(st_["mixing_matrix"].detach().double().numpy())
        B = _np(P["betas_mean"])
        d = kw["dimension"]
        if M.shape != (sd, d):
            col.fail(sub, "mixing-matrix-shape", inp, observed=str(M.shape), expected=str((sd, d)))
            return False
        u = geo["ortho_to"]
        worst = 0.0
        for j in range(sd):
            nr = max(np.linalg.norm(M[j]), np.linalg.norm(B[:, j]))
            if nr > 1e-30:  # rows made of subnormal float32 numbers have no direction left to judge
                worst = max(worst, abs(float(M[j] @ u)) / (nr * np.linalg.norm(u)))
        col.extra["max_mixing_orthogonality_defect_x1e9"] = max(col.extra.get("max_mixing_orthogonality_defect_x1e9", 0), int(worst * 1e9))
        if worst > 1e-4:
            col.fail(sub, "mixing-matrix-not-orthogonal-to-velocity", inp, observed=f"normalised |row.G v0| = {worst:.3g}", expected="<= 1e-4")
            ok = False
        gram, want = M @ M.T, B.T @ B
        scale = max(1.0, float(np.abs(want).max()))
        if np.abs(gram - want).max() > 5e-5 * scale:
            col.fail(sub, "mixing-matrix-gram-differs-from-betas", inp, observed=gram.tolist(), expected=want.tolist())
            ok = False
    return ok


def check_trajectories(col, sub, inp, case, model, P, mixing, label):
    import numpy as np

    kind, kw = _kind_kwargs(case)
    d = kw["dimension"]
    try:
        est = _estimate(model, case["individuals"])
    except Exception as e:
        col.fail(sub, f"estimate-raises({label}):" + exc_bucket(e), inp, observed=repr(e), expected="trajectories")
        return None
    for ind in case["individuals"]:
        got = np.asarray(est[ind["id"]], dtype=np.float64)
        ref, tol = ref_trajectory(kind, P, mixing, ind, d)
        ncol = d + (kw.get("nb_events", 1) if kind == "joint" else 0)
        if got.shape != (len(ind["ages"]), ncol):
            col.fail(sub, f"estimate-shape({label})", inp, observed=str(got.shape), expected=str((len(ind["ages"]), ncol)))
            return est
        bad = np.abs(got[:, :d] - ref) > tol
        if bad.any() or not np.isfinite(got[:, :d]).all():
            i, j = (np.argwhere(bad)[0] if bad.any() else (0, 0))
            col.fail(sub, f"trajectory-disagrees-with-saved-parameters({label})", inp,
                     observed=f"id={ind['id']} age={ind['ages'][int(i)]} feature {int(j)}: {got[int(i), int(j)]!r}",
                     expected=f"{ref[int(i), int(j)]!r} +- {tol[int(i), int(j)]:.3g} (closed form on the saved parameters)")
            return est
    return est


def check_fitted(col, sub, inp, case, model, P):
    """After a fit: population latent variables == saved <name>_mean (mode of the normal prior), exactly."""
    import torch

    ok = True
    for pv in model.population_variables_names:
        key = pv + "_mean"
        if key not in P:
            col.fail(sub, "population-variable-without-saved-mean:" + pv, inp, observed=sorted(P), expected=key)
            ok = False
            continue
        val = model.state[pv]
        want = torch.tensor(P[key], dtype=torch.float64)  # the file holds the exact decimal expansion of the stored numbers
        if tuple(want.shape) != tuple(val.shape) or not torch.equal(val.double(), want):
            col.fail(sub, "population-variable-not-at-prior-mode", inp, observed=f"{pv}={val.tolist()}", expected=f"{key}={P[key]}")
            ok = False
    return ok


def roundtrip(col, sub, inp, case, model, *, from_fit):
    """save -> (neutralise F7) -> load -> compare -> save -> compare files. Returns dict of facts for classification."""
    import numpy as np
    import torch

    from leaspy.models import BaseModel

    neutralise_f7, exclude_f19, exclude_f64 = _flags(case)
    kind, kw = _kind_kwargs(case)
    d, sd = kw["dimension"], kw["source_dimension"]
    name = _expected_name(case)
    facts = dict(f7=False, f19=False, f64=False, completed=False)
    pa, pb = os.path.abspath("c12_a.json"), os.path.abspath("c12_b.json")
    save_kw = {} if case.get("with_mixing_matrix", True) else dict(with_mixing_matrix=False)
    try:
        model.save(pa, **save_kw)
        text_a = open(pa).read()
        A = json.loads(text_a)
    except Exception as e:
        col.fail(sub, "save-raises:" + exc_bucket(e), inp, observed=repr(e), expected="a JSON file")
        return facts

    # ---- the file describes the model -------------------------------------------------------
    feats = list(case["features"]) if "features" in case else list(case["cohort"]["features"])
    want_top = dict(name=name, features=feats, dimension=d, source_dimension=sd)
    if kind == "joint":
        want_top["nb_events"] = kw.get("nb_events", 1)
    if kind == "mixture_logistic":
        want_top["n_clusters"] = kw["n_clusters"]
    for k, v in want_top.items():
        if k not in A or A[k] != v or type(A[k]) is not type(v):
            col.fail(sub, "file-entry-differs-from-model:" + k, inp, observed=f"{k}={A.get(k, '<missing>')!r}", expected=repr(v))
            return facts
    if not isinstance(A.get("obs_models"), dict) or A["obs_models"].get("y") != _noise_of(case["cfg"]):
        col.fail(sub, "file-entry-differs-from-model:obs_models", inp, observed=repr(A.get("obs_models")), expected="y: " + _noise_of(case["cfg"]))
        return facts
    P = A.get("parameters")
    if not isinstance(P, dict) or "leaspy_version" not in A:
        col.fail(sub, "file-without-parameters-or-version", inp, observed=sorted(A), expected="parameters, leaspy_version")
        return facts
    params = model.parameters
    has_mm = "mixing_matrix" in P
    if has_mm != (sd >= 1 and case.get("with_mixing_matrix", True)):
        col.fail(sub, "file-mixing-matrix-presence", inp, observed=f"present={has_mm}", expected=f"present={not has_mm}")
        return facts
    if set(P) - {"mixing_matrix"} != set(params):
        col.fail(sub, "file-parameter-names-differ", inp, observed=sorted(P), expected=sorted(params))
        return facts
    for k, v in params.items():
        spec_shape = model.dag[k].shape
        spec_shape = (spec_shape,) if isinstance(spec_shape, int) else tuple(spec_shape)  # mixture `probs` declares an int
        if tuple(v.shape) != spec_shape:
            if from_fit and k == "noise_std" and v.ndim == 0 and spec_shape == (1,):
                facts["f19"] = True
                continue
            col.fail(sub, "parameter-shape-differs-from-spec:" + k, inp, observed=str(tuple(v.shape)), expected=str(spec_shape))
            return facts
        if v.dtype != torch.float32:
            if from_fit and v.dtype == torch.float64:
                facts["f64"] = True
            else:
                col.fail(sub, "parameter-dtype:" + k, inp, observed=str(v.dtype), expected="float32")
                return facts
    if facts["f19"]:
        if exclude_f19:
            col.exclude("F19:scalar-noise-fit-leaves-0d-noise_std(compared modulo that shape)")
        else:
            col.fail(sub, BUCKET_F19, inp, observed=f"noise_std after fit: shape (), saved as {P['noise_std']!r}",
                     expected="shape (1,) as declared by the variable's spec, saved as a list")
    if facts["f64"]:
        if exclude_f64:
            col.exclude("F64:fit-leaves-float64-parameters(files compared at float32)")
        else:
            col.fail(sub, BUCKET_F64, inp, observed={k: str(v.dtype) for k, v in params.items() if v.dtype != torch.float32},
                     expected="float32 parameters (what a reloaded model holds)")
    for k, v in params.items():
        want = v.detach().tolist()
        if P[k] != want:
            col.fail(sub, "file-parameter-differs-from-model:" + k, inp, observed=P[k], expected=want)
            return facts
        if case.get("parameters") is not None and _f32_list(case["parameters"][k]) != _f32_list(want):
            col.fail(sub, "model-parameter-differs-from-loaded-dict:" + k, inp, observed=want, expected=case["parameters"][k])
            return facts
    if has_mm and P["mixing_matrix"] != model.state["mixing_matrix"].tolist():
        col.fail(sub, "file-mixing-matrix-differs-from-model", inp, observed=P["mixing_matrix"], expected=model.state["mixing_matrix"].tolist())
        return facts
    Pn = {k: ([v] if (k == "noise_std" and facts["f19"]) else v) for k, v in P.items() if k != "mixing_matrix"}
    mixing = (P["mixing_matrix"] if has_mm else model.state["mixing_matrix"].tolist()) if sd >= 1 else None

    # ---- the saved numbers describe the object (derived quantities, trajectories) ------------
    # after a fit and after any (first or repeated) load_parameters: population variables sit at the mode of their prior
    check_fitted(col, sub, inp, case, model, Pn)
    check_derived(col, sub, inp, case, model, Pn)
    est1 = check_trajectories(col, sub, inp, case, model, Pn, mixing, "saved-object")

    # ---- F7 ----------------------------------------------------------------------------------
    path_for_load, text_ref = pa, text_a
    if name != kind:
        facts["f7"] = True
        if neutralise_f7:
            col.exclude("F7:instance-name-differs-from-kind(saved name rewritten to the kind before load)")
        else:
            try:
                raw = BaseModel.load(pa)
                if raw.name != name or type(raw) is not type(model):
                    col.fail(sub, BUCKET_F7, inp, observed=f"reloaded as {type(raw).__name__} named {raw.name!r}",
                             expected=f"{type(model).__name__} named {name!r}")
            except Exception as e:
                col.fail(sub, BUCKET_F7, inp, observed=repr(e)[:300], expected=f"{type(model).__name__} named {name!r}")
        A2 = json.loads(text_a, object_pairs_hook=dict)
        A2["name"] = kind
        with open(pa, "w") as fp:
            json.dump(A2, fp, indent=2)
        text_ref = open(pa).read()
        name = kind

    # ---- load --------------------------------------------------------------------------------
    try:
        m2 = BaseModel.load(path_for_load)
    except Exception as e:
        col.fail(sub, "load-raises:" + exc_bucket(e), inp, observed=repr(e)[:400], expected="the saved model")
        return facts
    if type(m2) is not type(model):
        col.fail(sub, "reloaded-class-differs", inp, observed=type(m2).__name__, expected=type(model).__name__)
        return facts
    attrs = dict(name=name, features=feats, dimension=d, source_dimension=sd, observation_model_names=list(model.observation_model_names),
                 is_initialized=True)
    if kind == "joint":
        attrs["nb_events"] = model.nb_events
    if kind == "mixture_logistic":
        attrs["n_clusters"] = model.n_clusters
    for k, v in attrs.items():
        got = getattr(m2, k, "<missing>")
        if got != v:
            col.fail(sub, "reloaded-attribute-differs:" + k, inp, observed=repr(got), expected=repr(v))
            return facts
    if not _same_json(m2.fit_metrics, model.fit_metrics):
        col.fail(sub, "reloaded-attribute-differs:fit_metrics", inp, observed=repr(m2.fit_metrics), expected=repr(model.fit_metrics))
    for what, a, b in (("parameter", model.parameters, m2.parameters), ("hyperparameter", model.hyperparameters, m2.hyperparameters)):
        if set(a) != set(b):
            col.fail(sub, f"reloaded-{what}-names-differ", inp, observed=sorted(b), expected=sorted(a))
            return facts
        for k in a:
            va, vb = a[k], b[k]
            if what == "parameter" and k == "noise_std" and facts["f19"]:
                va = va.reshape(1)
            if vb.dtype != (torch.float32 if va.is_floating_point() else va.dtype):
                col.fail(sub, f"reloaded-{what}-dtype:" + k, inp, observed=str(vb.dtype), expected="float32")
                return facts
            if tuple(va.shape) != tuple(vb.shape) or not torch.equal(va.to(vb.dtype), vb):
                col.fail(sub, f"reloaded-{what}-differs:" + k, inp, observed=vb.tolist(), expected=va.tolist())
                return facts
    # ---- trajectories of the reloaded model ----------------------------------------------------
    est2 = check_trajectories(col, sub, inp, case, m2, Pn, mixing, "reloaded")
    if est1 is not None and est2 is not None:
        for ind in case["individuals"]:
            a, b = np.asarray(est1[ind["id"]], dtype=np.float64), np.asarray(est2[ind["id"]], dtype=np.float64)
            same_nan = a.shape == b.shape and np.array_equal(np.isnan(a), np.isnan(b))
            fin = ~np.isnan(a)  # joint event columns may be NaN (judged by C09, here only: unchanged by the round trip)
            if not same_nan or not np.all(np.abs(a[fin] - b[fin]) <= 1e-6 * np.maximum(1.0, np.abs(a[fin]))):
                col.fail(sub, "estimate-changes-across-save-load", inp, observed=b.tolist(), expected=a.tolist())
                break
    # ---- save again --------------------------------------------------------------------------
    try:
        m2.save(pb, **save_kw)
        text_b = open(pb).read()
    except Exception as e:
        col.fail(sub, "save-of-reloaded-raises:" + exc_bucket(e), inp, observed=repr(e), expected="a JSON file")
        return facts
    oa, ob = _top_without_version(_load_ordered(text_ref)), _top_without_version(_load_ordered(text_b))
    if facts["f19"] or facts["f64"]:
        def norm(o):
            pairs = []
            for k, v in o[1]:
                if k == "parameters":
                    pp = []
                    for pk, pv in v[1]:
                        if pk == "noise_std" and facts["f19"] and not isinstance(pv, list):
                            pv = [pv]
                        if facts["f64"]:
                            pv = _f32_list(pv)
                        pp.append((pk, pv))
                    v = ("__obj__", pp)
                pairs.append((k, v))
            return ("__obj__", pairs)

        oa, ob = norm(oa), norm(ob)
    if not _same_json(oa, ob):
        da = dict(oa[1])
        db = dict(ob[1])
        keys = [k for k in da if not _same_json(da.get(k), db.get(k))] + [k for k in db if k not in da]
        sub_keys = []
        if "parameters" in keys and "parameters" in db:
            pa_, pb_ = dict(da["parameters"][1]), dict(db["parameters"][1])
            sub_keys = [k for k in set(pa_) | set(pb_) if not _same_json(pa_.get(k), pb_.get(k))]
        col.fail(sub, "resave-differs:" + ",".join(sorted(keys)) + ("/" + ",".join(sorted(sub_keys)) if sub_keys else "")
                 if keys else "resave-differs:key-order", inp,
                 observed={k: db.get(k) for k in keys} if not sub_keys else {k: pb_.get(k) for k in sub_keys},
                 expected={k: da.get(k) for k in keys} if not sub_keys else {k: pa_.get(k) for k in sub_keys})
        return facts
    if not (facts["f19"] or facts["f64"]) and _bytes_without_version(text_ref) != _bytes_without_version(text_b):
        col.fail(sub, "resave-differs:bytes", inp, observed=text_b[:600], expected=text_ref[:600])
        return facts
    facts["completed"] = True
    return facts


# ------------------------------------------------------------------------------------------------
# bodies
# ------------------------------------------------------------------------------------------------
def _classes(case, facts):
    kind, kw = _kind_kwargs(case)
    name = _expected_name(case)
    cl = [f"kind:{kind}", f"noise:{_noise_of(case['cfg'])}", f"dimension:{kw['dimension']}"]
    if kw["source_dimension"] >= 1:
        cl.append("sources>=1")
    if name != kind:
        cl.append("name!=kind")
        if name in KINDS:
            cl.append("name:other-kind")
        elif name.lower() == kind:
            cl.append("name:kind-in-other-case")
        if any(ord(c) > 127 for c in name):
            cl.append("name:unicode")
    if not case.get("with_mixing_matrix", True):
        cl.append("with_mixing_matrix=False")
    feats = case.get("features") or case["cohort"]["features"]
    if any(ord(c) > 127 or c == " " for f in feats for c in f):
        cl.append("features:unicode-or-space")
    if any(f != f.strip() for f in feats):
        cl.append("features:outer-blank")
    if any("\t" in f for f in feats):
        cl.append("features:tab")
    for k in ("f7", "f19", "f64"):
        if facts.get(k):
            cl.append(k + "-affected")
    if facts.get("completed"):
        cl.append("roundtrip-completed")
    nt = kw["source_dimension"] >= 1 and kw["dimension"] >= 2 and name != kind
    if nt:
        cl.append("nontrivial")
    return cl, nt


def _roundtrip_step(col: Collector, inp, case, extra_classes=()):
    """One hand-written model through the whole oracle; `inp` is what a replay needs (the whole generated case)."""
    try:
        model = build_handwritten(case)
    except Exception as e:
        col.fail("roundtrip", "construction-raises:" + exc_bucket(e), inp, observed=repr(e)[:400], expected="a model holding the parameters")
        return
    facts = roundtrip(col, "roundtrip", inp, case, model, from_fit=False)
    cl, nt = _classes(case, facts)
    updated = case.get("parameters_first") is not None
    col.case(classes=["roundtrip"] + cl + list(extra_classes) + (["give-dimension"] if case.get("give_dimension") else [])
             + (["roundtrip:updated-in-place"] if updated else []) + (["features:via-setter"] if case.get("features_via_setter") else []),
             nontrivial=jhash([case, list(extra_classes)]) if nt else None,
             sample=dict(sub_check="roundtrip", cfg=case["cfg"], name=case["name"], features=case["features"],
                         with_mixing_matrix=case["with_mixing_matrix"], parameters=case["parameters"], updated_in_place=updated,
                         same_path_steps=1 + len(inp.get("then_same_path") or [])))


def body_roundtrip(col: Collector, case):
    chain = case.get("then_same_path") or []
    _roundtrip_step(col, case, case, ["roundtrip:same-path-overwritten"] if chain else [])
    for nxt in chain:  # the same two file paths are written again by a different model
        _roundtrip_step(col, case, nxt, ["roundtrip:same-path-later-step"])


def fit_model(col: Collector, case):
    """Returns the fitted model or None (excluded / failure recorded)."""
    import contextlib
    import io

    from leaspy.exceptions import LeaspyConvergenceError

    df, data, ds = gen.dataset_from_case(case["cohort"])
    model = gen.build_model(case["cfg"], name=case["name"])
    try:
        with contextlib.redirect_stdout(io.StringIO()):
            model.fit(data, "mcmc_saem", n_iter=case["n_iter"], seed=case["seed"], progress_bar=False, **dict(case.get("algo") or {}))
    except LeaspyConvergenceError:
        col.exclude("fit-stopped:LeaspyConvergenceError(collapsed variance)")
        return None
    except Exception as e:
        if exc_bucket(e).endswith("@joint.py:_estimate_initial_event_parameters"):
            # the initial Weibull fit (lifelines) of the joint model refuses the cohort: no fit took place
            col.exclude("fit-not-started:joint-initial-weibull-fit-refused:" + type(e).__name__)
            return None
        if exc_bucket(e).endswith("@gibbs.py:validate_scale"):
            # an initial population value that is exactly 0 gives a zero proposal scale: refused before the first iteration
            col.exclude("fit-not-started:sampler-scale-refused:" + type(e).__name__)
            return None
        col.fail("fit", "fit-raises:" + exc_bucket(e), case, observed=repr(e)[:400], expected="fit completes")
        return None
    return model


def body_fit(col: Collector, case):
    import torch

    snap = {}
    model = None
    # record the population latent variables the sampler left behind (to know that the reset had something to do)
    from leaspy.algo.fit.mcmc_saem import TensorMcmcSaemAlgorithm as A

    orig = A._run

    def wrapped(self, model_, dataset, **kw):
        state = orig(self, model_, dataset, **kw)
        for pv in model_.population_variables_names:
            snap[pv] = state[pv].detach().clone()
        return state

    A._run = wrapped
    try:
        model = fit_model(col, case)
    finally:
        A._run = orig
    if model is None:
        return
    if not all(bool(torch.isfinite(v).all()) for v in model.parameters.values()):
        col.exclude("fit-produced-non-finite-parameters")
        return
    moved = any(not torch.equal(v, model.state[k]) for k, v in snap.items())
    facts = roundtrip(col, "fit", case, case, model, from_fit=True)
    cl, nt = _classes(case, facts)
    kind = case["cfg"]["kind"]
    extra = ["fit", "fit:kind:" + kind]
    if _noise_of(case["cfg"]) == "gaussian-scalar":
        extra.append("fit:scalar-noise")
    if case["cfg"]["kwargs"]["source_dimension"] >= 1:
        extra.append("fit:sources>=1")
    if moved:
        extra.append("fit:pop-variables-moved")
    if "features:outer-blank" in cl:
        extra.append("fit:features:outer-blank")
    algo = case.get("algo") or {}
    if "n_burn_in_iter" in algo:
        extra.append("fit:explicit-burn-in-count")
        if "n_burn_in_iter_frac" in algo:
            extra.append("fit:explicit-burn-in-count:fraction-none")
            if algo["n_burn_in_iter"] <= case["n_iter"] - 2:
                extra.append("fit:explicit-burn-in-count:fraction-none:>=2-iterations-with-memory")
        else:
            extra.append("fit:explicit-burn-in-count:fraction-default")
    elif "n_burn_in_iter_frac" in algo:
        extra.append("fit:burn-in-fraction")
        if algo["n_burn_in_iter_frac"] in (0.0, 1.0):
            extra.append("fit:burn-in-fraction-0-or-1")
    else:
        extra.append("fit:burn-in-default")
    if "annealing" in algo:
        extra.append("fit:annealing")
    extra.append("fit:sampler-pop:" + algo.get("sampler_pop", "Gibbs"))
    col.case(classes=extra + cl, nontrivial=jhash(case) if nt else None,
             sample=dict(sub_check="fit", cfg=case["cfg"], name=case["name"], n_iter=case["n_iter"], seed=case["seed"], algo=algo,
                         n_rows=len(case["cohort"]["rows"]), parameters={k: v.tolist() for k, v in model.parameters.items()}))


# ------------------------------------------------------------------------------------------------
# shards
# ------------------------------------------------------------------------------------------------
def _preload():
    """Import every leaspy module a fit / estimate imports lazily *before* generation starts: Hypothesis >= 6.13x mixes constants
    found in the local (non site-packages) modules present in sys.modules into its draws, so the generated cases of a shard would
    otherwise depend on whether its worker process had already run a fit shard (process reuse in the pool)."""
    env.import_leaspy()
    import leaspy.algo.fit.mcmc_saem  # noqa: F401
    import leaspy.io.data  # noqa: F401
    import leaspy.io.outputs  # noqa: F401
    import leaspy.samplers.gibbs  # noqa: F401


def shard_fit(seed: int, n_examples: int, kinds=KINDS, shard: int = 0):
    _preload()
    col = Collector(PROP, f"fit-{shard}")
    drive(col, fit_case(tuple(kinds)), body_fit, n_examples=n_examples, seed=shard_seed(seed, shard, 1), sub_check="fit",
          known_buckets=(BUCKET_F7, BUCKET_F19, BUCKET_F64))
    return col


def shard_roundtrip(seed: int, n_examples: int, kinds=KINDS, shard: int = 0):
    _preload()
    col = Collector(PROP, f"roundtrip-{shard}")
    drive(col, roundtrip_case(tuple(kinds)), body_roundtrip, n_examples=n_examples, seed=shard_seed(seed, shard, 2), sub_check="roundtrip",
          known_buckets=(BUCKET_F7, BUCKET_F19, BUCKET_F64))
    return col


FIT_KIND_SETS = [KINDS, ("logistic", "linear"), ("shared_speed_logistic", "joint"), ("logistic", "joint", "mixture_logistic"),
                 ("linear", "shared_speed_logistic", "mixture_logistic")]
RT_KIND_SETS = [KINDS, ("joint", "mixture_logistic"), ("logistic", "linear", "shared_speed_logistic")]


def shards(tier: str, seed: int):
    specs = []
    n_fit_shards, n_fit = (10, 45) if tier == "quick" else (12, 1000)
    n_rt_shards, n_rt = (6, 450) if tier == "quick" else (4, 12000)
    for s in range(n_fit_shards):
        specs.append((MOD, "shard_fit", dict(seed=seed, n_examples=n_fit, kinds=list(FIT_KIND_SETS[s % len(FIT_KIND_SETS)]), shard=s)))
    for s in range(n_rt_shards):
        specs.append((MOD, "shard_roundtrip", dict(seed=seed, n_examples=n_rt, kinds=list(RT_KIND_SETS[s % len(RT_KIND_SETS)]), shard=s)))
    return specs


def replay(sub_check: str, inp):
    env.import_leaspy()
    col = Collector(PROP, "replay")
    if sub_check == "fit":
        body_fit(col, inp)
    else:
        body_roundtrip(col, inp)
    return col.failures


# ------------------------------------------------------------------------------------------------
# reproducers of the recorded findings (plain JSON; each runs with its neutralisation switched off)
# ------------------------------------------------------------------------------------------------
_ROWS = [["s0", 60.0, 0.3343], ["s0", 62.0, 0.4502], ["s0", 64.0, 0.5698], ["s1", 64.0, 0.31], ["s1", 66.0, 0.4213], ["s1", 68.0, 0.48],
         ["s2", 70.0, 0.71], ["s2", 72.0, 0.7485], ["s2", 74.0, 0.832], ["s3", 58.0, 0.0632], ["s3", 60.0, 0.1192], ["s3", 62.0, 0.188]]
_EVENTS = {"0": [68.0, 1], "1": [71.0, 0], "2": [77.5, 1], "3": [66.0, 1]}
_IND = [{"id": "s0", "xi": 0.0, "tau": 66.0, "ages": [65.0, 75.0]}]
REPRODUCERS = {
    "F7": dict(sub_check="roundtrip", bucket=BUCKET_F7, input={
        "cfg": {"kind": "logistic", "kwargs": {"dimension": 1, "source_dimension": 0, "obs_models": "gaussian-scalar"}},
        "name": "test-model-logistic", "features": ["f0"], "give_dimension": False, "with_mixing_matrix": True,
        "parameters": {"tau_mean": [70.0], "tau_std": [5.0], "xi_std": [0.5], "noise_std": [0.1], "log_g_mean": [0.5], "log_v0_mean": [-4.0]},
        "individuals": [{"id": "s0", "xi": 0.0, "tau": 70.0, "ages": [65.0, 75.0]}], "neutralise_f7": False}),
    "F19": dict(sub_check="fit", bucket=BUCKET_F19, input={
        "cfg": {"kind": "logistic", "kwargs": {"dimension": 1, "source_dimension": 0, "obs_models": "gaussian-scalar"}}, "name": None,
        "cohort": {"kind": "logistic", "features": ["f0"], "id_kind": "s", "miss_mode": "complete", "rows": _ROWS},
        "n_iter": 8, "seed": 0, "with_mixing_matrix": True, "individuals": _IND, "exclude_f19": False}),
    "F64": dict(sub_check="fit", bucket=BUCKET_F64, input={
        "cfg": {"kind": "joint", "kwargs": {"dimension": 1, "source_dimension": 0, "nb_events": 1}}, "name": None,
        "cohort": {"kind": "logistic", "features": ["f0"], "id_kind": "s", "miss_mode": "complete",
                   "rows": [r + _EVENTS[r[0][1:]] for r in _ROWS], "events": _EVENTS},
        "n_iter": 8, "seed": 0, "with_mixing_matrix": True, "individuals": _IND, "exclude_f64": False}),
}


def reproduce(finding: str):
    """Failures of the reproducer of a recorded finding (empty list = no longer reproduces)."""
    r = REPRODUCERS[finding]
    return [f for f in replay(r["sub_check"], r["input"]) if f["bucket"] == r["bucket"]]
