"""C13 - estimate, personalize and simulate leave the model and caller inputs untouched; results are history independent.

Engine A: every call history of bounded length over the alphabet {fit, personalize x3 algorithms, estimate, simulate, save+load}
          on fixed small cohorts, per model kind.
Engine B: Hypothesis op lists (model-based generation) with generated cohorts, ages, seeds, settings re-use.
Oracles around every non-fit call: (1) snapshot: parameters, hyperparameters and population variables bit-identical; data and
individual latent variables either unset or exactly what they were before the call; (2) caller inputs (table, settings object,
visit parameters, individual parameters) equal to their deep copies; (3) twin: the result equals, bit for bit, the result of the same
call with the same seed on a twin model obtained by save -> load (which carries the parameters only); (4) a repeated call gives
the same answer.
"""
from __future__ import annotations

import copy
import itertools
import os
import tempfile

from hypothesis import strategies as st

from vf.checks.c01 import fast_copy, same
from vf.checks.c05 import fixed_cohort
from vf.core import env, gen
from vf.core.harness import Collector, drive, exc_bucket, jhash, shard_seed

PROP = "C13"
MOD = "vf.checks.c13"
RULE = (
    "Engine A: every history of length <= 2 plus every history of length 3 that starts with a fit, over the 7-call alphabet {fit(A), "
    "personalize(B) with scipy_minimize / mean_posterior / mode_posterior, estimate, simulate, save+load} on fixed cohorts A (6 individuals) and B "
    "(4 individuals, other ids and sizes), per model kind (logistic with sources, univariate logistic with scalar noise, linear, joint). Engine B: "
    "Hypothesis op lists of up to 6 calls with generated cohorts, ages, seeds and re-used settings objects. Every non-fit call is one evaluation. "
    "Non-trivial = a history with a fit followed by a personalisation on a different cohort and >= 2 calls after the fit; distinct by (kind, history)."
)
ASSUMPTIONS = [
    "The twin is the model reloaded from its saved file (parameters and hyperparameters only); calls on the twin use the same inputs and the same seed.",
    "simulate is only issued on logistic kinds (documented requirement); estimate uses individual parameters returned by an earlier personalisation of the same history or generated ones.",
    "Bit-exact comparisons (NaN-aware).",
]
REQUIRED_CLASSES = {"input:dataset-object": 30, "settings:nested-annealing": 20, "call:personalize": 150, "call:estimate": 60, "call:simulate": 40, "after-fit": 150, "call:saveload": 40, "nontrivial": 60}

ALGOS = ("scipy_minimize", "mean_posterior", "mode_posterior")
NEUTRALISE_F64 = True  # see known_findings.json (F64)
KINDS = {
    "logistic": dict(kind="logistic", kwargs=dict(dimension=2, source_dimension=1, obs_models="gaussian-diagonal")),
    "logistic1": dict(kind="logistic", kwargs=dict(dimension=1, source_dimension=0, obs_models="gaussian-scalar")),
    "logistic2s": dict(kind="logistic", kwargs=dict(dimension=2, source_dimension=1, obs_models="gaussian-scalar")),
    "linear": dict(kind="linear", kwargs=dict(dimension=2, source_dimension=1, obs_models="gaussian-scalar")),
    "joint": dict(kind="joint", kwargs=dict(dimension=2, source_dimension=1, nb_events=1)),
}
VISITS = dict(patient_number=3, visit_type="random", first_visit_mean=0.0, first_visit_std=0.4, time_follow_up_mean=3, time_follow_up_std=0.5,
              distance_visit_mean=0.5, distance_visit_std=0.1)


class Fail(Exception):
    def __init__(self, bucket, observed="", expected=""):
        self.bucket, self.observed, self.expected = bucket, observed, expected


def cohort_b(kind, nf, event):
    c = fixed_cohort(kind, nf, event=event)
    keep = {"s1": "b-one", "s3": "b-two", "s4": "b-three", "s5": "b-four"}
    rows = [[keep[r[0]]] + [r[1] + 1.25] + r[2:] for r in c["rows"] if r[0] in keep]
    if event:
        rows = [r[:-2] + [round(r[-2] + 1.25, 4), r[-1]] for r in rows]
    out = dict(c)
    out["rows"] = rows
    return out


def snapshot(model):
    if model._state is None:
        return None
    snap = {k: fast_copy(v) for k, v in model.state._values.items()}
    fork = model.state._last_fork
    snap["__fork__"] = None if fork is None else {k: fast_copy(v) for k, v in fork.items()}
    return snap


def classify_vars(model):
    from leaspy.variables.specs import DataVariable, IndividualLatentVariable

    dag = model.dag
    transient = set(dag.sorted_variables_by_type.get(DataVariable, {})) | set(dag.sorted_variables_by_type.get(IndividualLatentVariable, {}))
    from leaspy.variables.specs import LinkedVariable

    indep = {k for k in dag.sorted_variables_names if not isinstance(dag[k], LinkedVariable)}
    return transient, indep - transient


def check_snapshot(model, before, what):
    after = snapshot(model)
    if before is None:
        return
    transient, stable = classify_vars(model)
    for k in stable:
        if not same(before[k], after[k]):
            raise Fail(f"{what}:model-value-changed", f"{k}", "bit-identical parameters / hyperparameters / population variables")
    for k in transient:
        if after[k] is not None and not same(before[k], after[k]):
            raise Fail(f"{what}:data-or-latent-values-left-in-model", f"{k} holds values of this call", "unset, or exactly what it held before the call")
    # ... nor in the pending fork of the model state (a `revert()` would bring them back)
    fork_a, fork_b = after.get("__fork__"), before.get("__fork__") or {}
    for k, v in (fork_a or {}).items():
        if v is not None and not same(fork_b.get(k), v):
            raise Fail(f"{what}:values-of-this-call-left-in-the-pending-fork-of-the-model-state", f"{k} in model.state._last_fork", "no value of this call kept anywhere in the model")


def twin_of(model):
    from leaspy.models import BaseModel

    d = tempfile.mkdtemp(dir=os.getcwd())
    p = os.path.join(d, "m.json")
    model.save(p)
    return BaseModel.load(p)


def ip_to_dict(ip):
    import torch

    return {str(i): {k: torch.as_tensor(v).clone() for k, v in d.items()} for i, d in ip.items()}


def same_result(a, b):
    import numpy as np
    import pandas as pd
    import torch

    if isinstance(a, dict):
        return isinstance(b, dict) and list(a) == list(b) and all(same_result(a[k], b[k]) for k in a)
    if isinstance(a, pd.DataFrame):
        return isinstance(b, pd.DataFrame) and a.shape == b.shape and list(a.columns) == list(b.columns) and a.index.equals(b.index) and \
            all((a[c].values == b[c].values).all() or np.array_equal(a[c].values, b[c].values, equal_nan=True) if a[c].dtype.kind == "f" else (a[c].values == b[c].values).all() for c in a.columns)
    if isinstance(a, torch.Tensor):
        return same(a, b)
    if isinstance(a, np.ndarray):
        return np.array_equal(a, b, equal_nan=True)
    return a == b


def do_call(model, op, ctx):
    """Issue one public call; returns a comparable result. ctx: cohorts dict, last_ip."""
    import pandas as pd

    from leaspy.algo import AlgorithmSettings
    from leaspy.io.outputs import IndividualParameters

    name = op[0]
    if name == "personalize":
        _, algo, ckey, seed, reuse = op[:5]
        form = op[5] if len(op) > 5 else "df"
        df = gen.cohort_df(ctx["cohorts"][ckey])
        from leaspy.io.data import Data, Dataset

        joint = "events" in ctx["cohorts"][ckey]
        if joint or form in ("data", "dataset"):
            data_in = Data.from_dataframe(df, "joint") if joint else Data.from_dataframe(df)
            if form == "dataset":
                data_in = Dataset(data_in)
        else:
            data_in = df
        df_copy = df.copy(deep=True)
        tensors_before = None
        if isinstance(data_in, Dataset):
            tensors_before = {a: fast_copy(getattr(data_in, a)) for a in ("values", "mask", "timepoints", "event_time", "event_bool")
                              if getattr(data_in, a, None) is not None}
        kw = dict(seed=seed, progress_bar=False)
        anneal = len(op) > 6 and bool(op[6])
        if algo == "scipy_minimize":
            kw["use_jacobian"] = False
        else:
            kw["n_iter"] = 12
            if anneal:  # nested settings (the algorithm derives annealing.n_iter from the fraction)
                kw["annealing"] = dict(do_annealing=True, initial_temperature=5.0, n_plateau=2)
        key = (algo, seed, anneal)
        settings = ctx["settings"].get(key) if reuse else None
        if settings is None:
            settings = AlgorithmSettings(algo, **kw)
            ctx["settings"][key] = settings
        params_copy = copy.deepcopy(settings.parameters)
        ip = model.personalize(data_in, algorithm_settings=settings)
        if not df.equals(df_copy) or list(df.columns) != list(df_copy.columns) or not df.dtypes.equals(df_copy.dtypes):
            raise Fail("personalize:input-table-modified", "table differs from its deep copy", "unchanged")
        if settings.parameters != params_copy:
            raise Fail("personalize:settings-object-modified", str(settings.parameters)[:200], str(params_copy)[:200])
        if tensors_before is not None:
            for a, v in tensors_before.items():
                if not same(getattr(data_in, a), v):
                    raise Fail("personalize:dataset-tensors-modified", f"Dataset.{a} changed during the call", "unchanged (NaN-aware, bit-exact)")
        return ip_to_dict(ip), ip
    if name == "estimate":
        _, ages, _ = op
        ipd = ctx["last_ip"]
        ip = IndividualParameters()
        for i, d in ipd.items():
            ip.add_individual_parameters(i, {k: v.tolist() for k, v in d.items()})
        tps = {i: [a + 0.5 * j for a in ages] for j, i in enumerate(ipd)}
        tps_copy = copy.deepcopy(tps)
        ipd_copy = {i: {k: v.clone() for k, v in d.items()} for i, d in ipd.items()}
        est = model.estimate(tps, ip)
        if tps != tps_copy:
            raise Fail("estimate:timepoints-modified", str(tps)[:200], str(tps_copy)[:200])
        if not same_result(ip_to_dict(ip), ipd_copy):
            raise Fail("estimate:individual-parameters-modified", "", "")
        return {i: est[i].copy() if hasattr(est[i], "copy") else est[i] for i in est}, None
    if name == "simulate":
        seed = op[1]
        feats = list(model.features)
        if len(op) > 2 and op[2] == "table":
            tab = pd.DataFrame({"ID": [12, 12, 3, 3, 3, 7], "TIME": [70.5, 72.0, 66.25, 67.0, 69.5, 81.0]})
            tab_copy = tab.copy(deep=True)
            vp = dict(visit_type="dataframe", df_visits=tab)
            res = model.simulate(algorithm="simulate", features=feats, visit_parameters=vp, seed=seed)
            if not tab.equals(tab_copy) or not tab.dtypes.equals(tab_copy.dtypes) or list(tab.columns) != list(tab_copy.columns):
                raise Fail("simulate:visit-table-modified", str(tab.dtypes.to_dict()), str(tab_copy.dtypes.to_dict()))
            if set(vp) != {"visit_type", "df_visits"}:
                raise Fail("simulate:visit-parameters-modified", str(sorted(vp)), "['df_visits', 'visit_type']")
            return res.data.to_dataframe().reset_index(drop=True), None
        vp = copy.deepcopy(VISITS)
        vp_copy = copy.deepcopy(vp)
        res = model.simulate(algorithm="simulate", features=feats, visit_parameters=vp, seed=seed)
        if vp != vp_copy:
            raise Fail("simulate:visit-parameters-modified", str(vp), str(vp_copy))
        return res.data.to_dataframe().reset_index(drop=True), None
    raise ValueError(op)


def run_history(col: Collector, kind_key, cohorts, ops, inp, engine):
    """Executes a history on one model object; every non-fit call is judged. Returns (n_calls_judged, info)."""
    from leaspy.exceptions import LeaspyConvergenceError

    cfg = KINDS[kind_key] if isinstance(kind_key, str) else kind_key
    model = gen.build_model(cfg)
    ctx = dict(cohorts=cohorts, settings={}, last_ip=None)
    fitted = False
    calls_after_fit = 0
    perso_other_cohort_after_fit = False
    judged = 0
    for idx, op in enumerate(ops):
        name = op[0]
        classes = [f"call:{name}", "kind:" + cfg["kind"], "engine:" + engine]
        if fitted:
            classes.append("after-fit")
        try:
            if name == "fit":
                _, ckey, n_iter, seed = op
                df = gen.cohort_df(cohorts[ckey])
                if "events" in cohorts[ckey]:
                    from leaspy.io.data import Data

                    model.fit(Data.from_dataframe(df, "joint"), "mcmc_saem", n_iter=n_iter, seed=seed, progress_bar=False)
                else:
                    model.fit(df, "mcmc_saem", n_iter=n_iter, seed=seed, progress_bar=False)
                fitted = True
                calls_after_fit = 0
                ctx["fit_cohort"] = ckey
                if NEUTRALISE_F64 and not inp.get("no_neutralise") and any(v.dtype != __import__("torch").float32 for v in model.parameters.values()):
                    # known finding F64: joint (and mixture) fits leave float64 parameters, so the fitted object and its
                    # reloaded twin differ in the last digits. Continue on the reloaded model so that the rest of the
                    # history is still judged; the finding itself is re-run from known_findings.json
                    model = twin_of(model)
                    col.exclude("F64-neutralised(fit left float64 parameters: continuing on the reloaded model)")
                continue
            if not fitted:
                continue  # nothing to call on a model without parameters
            if name == "saveload":
                before = snapshot(model)
                tw = twin_of(model)
                check_snapshot(model, before, "save")
                # continue on the loaded twin (the original is dropped)
                for p, v in model.parameters.items():
                    if not same(v.float().reshape(-1), tw.parameters[p].float().reshape(-1)):  # scalar == length-1 (shape drift is C12's F19)
                        raise Fail("saveload:parameters-differ-after-reload", p, "equal to single precision")
                model = tw
                calls_after_fit += 1
                col.case(classes=classes)
                judged += 1
                continue
            if name == "estimate" and ctx["last_ip"] is None:
                continue
            if name == "simulate" and cfg["kind"] != "logistic":
                continue
            before = snapshot(model)
            twin = twin_of(model)
            check_snapshot(model, before, "save")
            res, ip = do_call(model, op, ctx)
            if name == "personalize" and len(op) > 5 and op[5] == "dataset":
                classes.append("input:dataset-object")
            if name == "personalize" and len(op) > 6 and op[6] and op[1] != "scipy_minimize":
                classes.append("settings:nested-annealing")
            check_snapshot(model, before, name)
            ctx_t = dict(ctx, settings={})
            res_t, _ = do_call(twin, op, ctx_t)
            if not same_result(res, res_t):
                raise Fail(f"{name}:result-depends-on-earlier-calls", _brief(res), _brief(res_t) + " (same call, same seed, on a model reloaded from the saved parameters)")
            res_r, _ = do_call(model, op, ctx)
            if not same_result(res, res_r):
                raise Fail(f"{name}:repeated-call-gives-another-answer", _brief(res_r), _brief(res))
            if name == "personalize":
                ctx["last_ip"] = res
                if op[2] != ctx.get("fit_cohort"):
                    perso_other_cohort_after_fit = True
            calls_after_fit += 1
            judged += 1
            col.case(classes=classes)
        except Fail as f:
            col.fail("history", f.bucket + (":after-fit" if fitted and "depends" in f.bucket else ""), dict(inp, failed_at=idx), observed=f.observed, expected=f.expected)
            col.case(classes=classes)
            return judged, None
        except LeaspyConvergenceError:
            col.exclude("fit-collapsed-variance(LeaspyConvergenceError)")
            return judged, None
        except Exception as e:
            if type(e).__name__ == "ConvergenceError":
                col.exclude("joint-init-weibull-fit-not-converged")
                return judged, None
            if gen.is_zero_scale_refusal(e):
                col.exclude("sampler-refused:zero-initial-scale")
                return judged, None
            col.fail("history", f"unexpected-exception:{name}:" + exc_bucket(e), dict(inp, failed_at=idx), observed=repr(e)[:400], expected="call succeeds")
            col.case(classes=classes)
            return judged, None
    return judged, dict(nontrivial=perso_other_cohort_after_fit and calls_after_fit >= 2)


def _brief(res):
    s = str(res)
    return s[:300]


# ------------------------------------------------------------------------------------------------
# engine A
# ------------------------------------------------------------------------------------------------
ALPHABET = [["fit", "A", 8, 0], ["personalize", "scipy_minimize", "B", 1, False], ["personalize", "mean_posterior", "B", 1, False],
            ["personalize", "mode_posterior", "B", 1, False], ["estimate", [60.0, 70.5, 66.0], 0], ["simulate", 3], ["saveload"],
            ["personalize", "scipy_minimize", "B", 1, False, "dataset"], ["personalize", "mean_posterior", "A", 1, False, "dataset"],
            ["personalize", "mode_posterior", "B", 1, True, "df", True], ["simulate", 5, "table"]]


def histories(max_len_all=2):
    out = []
    for L in range(1, max_len_all + 1):
        for h in itertools.product(range(7), repeat=L):
            if h[0] == 0:  # a history that does not start with a fit has nothing to call
                out.append(list(h))
    for h in itertools.product(range(7), repeat=3):
        if h[0] == 0:
            out.append(list(h))
    # Dataset objects handed over by the caller (tensors must come back untouched)
    for a in (7, 8, 9, 10):
        out.append([0, a])
        out.append([0, a, a])
    # a personalisation in between so that estimate has parameters, and fit -> perso on the SAME cohort
    for a in (1, 2, 3):
        for b in range(1, 7):
            out.append([0, a, 4, b])
    return out


def shard_enum(kind_key: str, part: int, n_parts: int):
    env.import_leaspy()
    col = Collector(PROP, f"A-{kind_key}-{part}/{n_parts}")
    cfg = KINDS[kind_key]
    nf = cfg["kwargs"]["dimension"]
    dk = "linear" if cfg["kind"] == "linear" else "logistic"
    cohorts = dict(A=fixed_cohort(dk, nf, event=cfg["kind"] == "joint"), B=cohort_b(dk, nf, event=cfg["kind"] == "joint"))
    hs = histories()
    for i, h in enumerate(hs):
        if i % n_parts != part:
            continue
        ops = [ALPHABET[j] for j in h]
        inp = dict(engine="A", kind=kind_key, history=h)
        judged, info = run_history(col, kind_key, cohorts, ops, inp, "A")
        if info and info["nontrivial"]:
            col.cls("nontrivial")
            col.nontrivial_bulk += 1
            if len(col.samples) < 2:
                col.samples.append(dict(engine="A", kind=kind_key, history=[ALPHABET[j][:2] for j in h]))
    col.extra["enumerated_histories"] = sum(1 for i in range(len(hs)) if i % n_parts == part)
    return col


# ------------------------------------------------------------------------------------------------
# engine B
# ------------------------------------------------------------------------------------------------
@st.composite
def gen_history(draw, kind_keys):
    kind_key = draw(st.sampled_from(list(kind_keys)))
    cfg = KINDS[kind_key]
    feats = [f"f{j}" for j in range(cfg["kwargs"]["dimension"])]
    cohorts = {}
    for ck, ids in (("A", ("s",)), ("B", ("words", "unicode", "digits"))):
        cohorts[ck] = draw(gen.cohort(kind=gen.data_kind_for(cfg), n_ind=(4, 7) if ck == "A" else (1, 5), n_visits=(2, 5) if ck == "A" else (1, 4),
                                      features=feats, event=cfg["kind"] == "joint", id_kinds=ids, shuffle=False, fit_ready=(ck == "A")))
    call = st.one_of(
        st.tuples(st.just("personalize"), st.sampled_from(ALGOS), st.sampled_from(["A", "B", "B"]), st.integers(0, 99), st.booleans(),
                  st.sampled_from(["df", "data", "dataset", "dataset"]), st.booleans()).map(list),
        st.tuples(st.just("estimate"), st.lists(gen.f32(40, 95), min_size=1, max_size=4), st.just(0)).map(list),
        st.tuples(st.just("simulate"), st.integers(0, 99), st.sampled_from(["random", "table"])).map(list),
        st.just(["saveload"]),
        st.tuples(st.just("fit"), st.just("A"), st.integers(5, 12), st.integers(0, 99)).map(list),
    )
    ops = [["fit", "A", draw(st.integers(5, 14)), draw(st.integers(0, 99))]] + draw(st.lists(call, min_size=1, max_size=5))
    return dict(engine="B", kind=kind_key, cohorts=cohorts, ops=ops)


def body_gen(col: Collector, case):
    judged, info = run_history(col, case["kind"], case["cohorts"], case["ops"], case, "B")
    if info and info["nontrivial"]:
        col.case(classes=["nontrivial"], nontrivial=jhash(case), sample=dict(engine="B", kind=case["kind"], ops=case["ops"]), n=0)


def shard_gen(kind_keys, seed: int, n_examples: int, shard: int = 0):
    env.import_leaspy()
    col = Collector(PROP, f"B-{'+'.join(kind_keys)}-{shard}")
    drive(col, gen_history(tuple(kind_keys)), body_gen, n_examples=n_examples, seed=shard_seed(seed, shard, 13))
    return col


def shards(tier: str, seed: int):
    specs = []
    parts = 2 if tier == "quick" else 4
    for kk in KINDS:
        for p in range(parts):
            specs.append((MOD, "shard_enum", dict(kind_key=kk, part=p, n_parts=parts)))
    n = 14 if tier == "quick" else 150
    ksets = [("logistic", "logistic1"), ("joint",), ("linear", "logistic2s"), ("logistic", "joint"), ("logistic2s",), ("joint", "linear")]
    for s in range(6 if tier == "quick" else 16):
        specs.append((MOD, "shard_gen", dict(kind_keys=ksets[s % len(ksets)], seed=seed, n_examples=n, shard=s)))
    return specs


def replay(sub_check: str, inp):
    env.import_leaspy()
    col = Collector(PROP, "replay")
    if inp.get("engine") == "A":
        cfg = KINDS[inp["kind"]]
        nf = cfg["kwargs"]["dimension"]
        dk = "linear" if cfg["kind"] == "linear" else "logistic"
        cohorts = dict(A=fixed_cohort(dk, nf, event=cfg["kind"] == "joint"), B=cohort_b(dk, nf, event=cfg["kind"] == "joint"))
        run_history(col, inp["kind"], cohorts, [ALPHABET[j] for j in inp["history"]], {k: v for k, v in inp.items() if k != "failed_at"}, "A")
    else:
        run_history(col, inp["kind"], inp["cohorts"], inp["ops"], {k: v for k, v in inp.items() if k != "failed_at"}, "B")
    return col.failures
