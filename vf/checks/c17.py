"""C17 - personalization returns one aligned, finite, non-worsening estimate per subject.

Code under test: `model.personalize(data, algorithm, **settings)` for `scipy_minimize`, `mean_posterior` and
`mode_posterior` (src/leaspy/algo/personalize/{scipy_minimize,mcmc,mean_posterior,mode_posterior}.py, models/base.py).

A case is a plain-JSON dict `{model, cohort, form, algo, settings, pre_seed, excluded}`:
* model  - kind / dimension / sources / noise + hand-written parameters (`load_parameters`, "loaded-style") or a really
           fitted model (short seeded `mcmc_saem` on a generated training cohort; the training latents stay in its state);
* cohort - `vf.core.gen.cohort` table (1-10 individuals, single-visit individuals, missing cells, several id alphabets,
           shuffled rows, events for the joint kind); `form` = how it is handed over (DataFrame / Data / Dataset);
* algo + settings - seed, and for scipy: use_jacobian, n_jobs, custom minimiser; for the samplers: n_iter 2-40, burn-in
           given as count / fraction / both / default, annealing on/off, adaptive-proposal parameters.

Oracles (DESIGN.md section 5 / C17):
* all algorithms: one entry per input individual, keyed by str(id), in input order (first appearance in the table /
  order of the Data or Dataset given); keys and shapes xi:(1,), tau:(1,), sources:(source_dimension,); all finite.
* scipy_minimize: the starting point of each subject is *recorded* (pass-through wrappers around the module's `minimize`
  - x0 / res.x - and around `model.put_individual_parameters` - the latent values placed in the subject's state, which is
  the only observation available when joblib workers do the minimisation); the objective nll_attach + nll_regul_ind_sum is
  evaluated by the harness on a fresh state holding a single-individual dataset built from the generated rows (not from the
  algorithm's own `Dataset.to_pandas` round trip) at the start and at the *returned* parameters:
  obj(returned) <= obj(start) + 1e-4 (1 + |obj(start)|); returned parameters = prior_mean + prior_std * res.x (float32 slack).
* samplers: a pass-through wrapper around `_update_temperature` (runs once per iteration, after the draw was possibly kept)
  records the individual latent values and nll_attach_ind + nll_regul_ind_sum_ind of the *same seeded chain*; kept draws are
  the iterations k > n_burn_in (n_burn_in worked out by the harness from the settings as documented);
  mean_posterior = float32 `stack(kept).mean(0)` bit for bit (and the float64 mean within 1e-5 (1 + max|draw|));
  mode_posterior = kept draw with the smallest recorded loss per individual (first one on ties; any kept draw with the same
  recorded loss and the same values is accepted), and - evaluated afresh on a harness-built state - no kept draw has a lower
  loss than the returned one (1e-4 (1 + |loss|)).

Variant `reused-algorithm-object` (a third of the sampling cases, a quarter of the scipy cases): the algorithm object is built once, the way model.personalize builds it
(`BaseModel._get_algorithm`), and run twice through `algorithm.run(model, BaseModel._get_dataset(data))` - on the cohort, then on the same
cohort again or on another generated cohort with the same number of individuals. Each run is judged by the oracles above against what
was recorded during that run (failure buckets end in `@reused-algorithm-run<k>`); for scipy_minimize the second run must
return exactly what a fresh object returns for the same input and seeds.

Input classes with a genuine defect on the current tree are not judged by the main search (each is counted with col.exclude, has a
plain-JSON reproducer in `reproducers()` that the `findings` shard re-runs on every run -> class `finding-reproduced:<name>` or a
note that it is gone, and can be put back with VF_C17_INCLUDE=<name>|all): integer identifiers (`int-ids`), joint + scipy_minimize
returning NaN parameters (`joint-scipy-nan-result`, recognised on the observation), degenerate fitted joint models (`fit-degenerate:*`);
`no-kept-draw` (burn-in >= n_iter) has no defined answer; the mixture_logistic kind is out of scope (reproducer kept).
"""
from __future__ import annotations

import contextlib
import copy
import io
import math
import os
import random
import warnings

from hypothesis import strategies as st

from vf.core import env, gen, observe
from vf.core.harness import Collector, drive, exc_bucket, jhash, shard_seed

PROP = "C17"
MOD = "vf.checks.c17"

# ------------------------------------------------------------------------------------------------
# input classes removed from the search by construction because the current tree has a genuine defect there
# (see reproducers() and the report). VF_C17_INCLUDE="int-ids" (or "all") puts the class back into the search.
# ------------------------------------------------------------------------------------------------
_LIFT = {x.strip() for x in os.environ.get("VF_C17_INCLUDE", "").split(",") if x.strip()}
EXCL_INT_IDS = "int-ids"  # integer identifiers (accepted by the data reader) -> AssertionError / LeaspyIndividualParamsInputError
EXCL_NO_DRAW = "no-kept-draw"  # burn-in >= n_iter: no defined answer under the statement (torch.stack on an empty list)
EXCLUDE_INT_IDS = False  # repaired in /repo (fix: personalization accepts cohorts whose identifiers are integers)
# joint kind + scipy_minimize: the line search can step to where the hazard term is NaN (e.g. sources = 62); scipy then stops with
# "NaN result encountered" and leaspy returns res.x = NaN although the start had a finite objective. Not predictable from the input,
# so the class is neutralised on the observation: a joint/scipy case in which a subject comes back all-NaN is counted as excluded and
# not judged (every other kind, and partially-NaN or infinite results, are judged as usual).
EXCL_JOINT_NAN = "joint-scipy-nan-result"
EXCLUDE_JOINT_NAN = False  # repaired in /repo (fix: scipy_minimize does not return NaN estimates ...)

RULE = (
    "cases = Hypothesis draws of (model kind logistic / linear / shared_speed_logistic / joint, dimension 1-4, 0..dim-1 sources, "
    "scalar / diagonal Gaussian or Bernoulli noise, hand-written parameters through load_parameters, or really fitted with 8-20 "
    "mcmc_saem iterations on a generated training cohort and used with the training latents still in its state) x cohort "
    "(gen.cohort: 1-10 individuals, 1-6 visits incl. all-single-visit cohorts, complete / sparse / feature-missing, id alphabets "
    "s / digits / zeros / unicode / words, shuffled rows, events for joint; handed over as DataFrame, Data or Dataset) x algorithm "
    "x settings (scipy_minimize: seed int or None, use_jacobian, n_jobs 1-2, default / Powell / Nelder-Mead custom minimiser; "
    "mean_posterior and mode_posterior: n_iter 2-40, burn-in as count / fraction / both / default leaving 1, 2, mid or all draws, "
    "annealing off or on with valid plateaus, adaptive-proposal parameters, seed int or None). "
    "A third of the sampling cases and a quarter of the scipy cases build ONE algorithm object (the way model.personalize does) and run it twice - same cohort again, or another "
    "generated cohort with the same number of individuals - each run judged against its own recorded chain / start. "
    "Non-trivial = >= 3 individuals and (samplers) >= 2 kept draws among which some individual's value changed (an accepted move) "
    "/ (scipy) the objective of at least one subject strictly improved; distinct by the hash of the whole case."
)
ASSUMPTIONS = [
    "Input order = order of first appearance of the identifiers in the table (what Data.from_dataframe yields, established by C14) "
    "for a DataFrame, and the order of the Data / Dataset object for those forms; output keys are str(id).",
    "Objective and per-individual loss are evaluated through the model's own variable graph on a *fresh* state holding a dataset the "
    "harness built itself from the generated rows (single individual for scipy_minimize); the closed forms behind that graph are C08/C09's business.",
    "n_burn_in = n_burn_in_iter when given, else int(n_burn_in_iter_frac * n_iter) as documented; generated fractions are (k + 0.5) / n_iter so "
    "the truncation is unambiguous. A draw is kept iff its iteration k (1-based) > n_burn_in; the chain has exactly n_iter iterations.",
    "Non-worsening tolerance 1e-4 (1 + |obj(start)|); a start whose objective is not finite puts no constraint (counted).",
    "Prior location / scale used for the unscaling oracle are read from model.parameters / hyperparameters "
    "(<name>_mean default 0, <name>_std default 1), not from the algorithm's scaling object.",
    "Configurations that keep no draw (burn-in >= n_iter) have no defined answer and are remapped to 'one kept draw' by the generator (counted as excluded).",
    "Integer identifiers are remapped to their string form by the generator (counted as excluded): on the current tree every personalization "
    "algorithm refuses them although the data reader documents them as valid - reported as a finding, reproducer kept.",
    "Really fitted models whose parameters left any sensible domain (non-finite, or joint Weibull shape |log_rho_mean| > 3, e.g. after a short fit "
    "on a cohort with a single observed event) are not used (counted as excluded 'fit-degenerate:*'): next to the start the hazard overflows to NaN and "
    "scipy_minimize then hands back NaN parameters - reported as a finding, reproducer kept. Fits that raise are counted as 'fit-failed:*'.",
    "Joint kind + scipy_minimize: a case in which a subject comes back with all parameters NaN (scipy 'NaN result encountered' after the line "
    "search stepped to where the hazard term is NaN) is counted as excluded 'joint-scipy-nan-result' and not judged - a genuine defect of the current "
    "tree that cannot be predicted from the input, reported as a finding with its reproducer; VF_C17_INCLUDE=joint-scipy-nan-result judges it.",
    "Reused algorithm object: the runs use algorithm.run(model, BaseModel._get_dataset(data)), the two steps model.personalize performs; every run "
    "must satisfy the statement on its own (samples kept after burn-in = those of that run); for scipy_minimize the second run of the reused object must "
    "return exactly what a fresh object returns for the same input and seeds (same process, same arithmetic).",
    "Scope: the mixture_logistic kind is not generated (its prior mode is per cluster; sampler-based personalization crashes on any cohort - reproducer kept); "
    "device is always cpu; n_jobs in {1, 2}.",
]
REQUIRED_CLASSES = {
    "algo:scipy_minimize": 0.1, "algo:mean_posterior": 0.15, "algo:mode_posterior": 0.15,
    "kind:logistic": 0.1, "kind:linear": 0.08, "kind:shared_speed_logistic": 0.08, "kind:joint": 0.05,
    "noise:bernoulli": 0.02, "sources": 0.3, "no-sources": 0.1,
    "src:loaded": 0.4, "src:fitted": 0.05,
    "n_ind:1": 0.03, "n_ind>=3": 0.3, "single-visit-individual": 0.2, "all-single-visit": 0.03, "missing-cells": 0.15,
    "rows-shuffled": 0.2, "ids-not-sorted": 0.1,
    "form:dataframe": 0.1, "form:data": 0.1, "form:dataset": 0.1,
    "kept:1": 0.03, "kept:2": 0.03, "burn-in:0": 0.03, "burn-spec:frac": 0.05, "burn-spec:count": 0.05, "burn-spec:both": 0.03,
    "burn-spec:default": 0.03, "annealing:on": 0.08, "accepted-move-among-kept": 0.2, "mode-not-last-draw": 0.03,
    "scipy:improved": 0.05, "scipy:n_jobs=2": 1, "scipy:custom-minimiser": 0.02, "seed:none": 0.03,
    "reused-algorithm-object": 0.1, "reused:same-cohort": 0.03, "reused:other-cohort": 0.05,
    "nontrivial": 0.15,
}

KINDS = ("logistic", "linear", "shared_speed_logistic", "joint")
SAMPLING_ALGOS = ("mean_posterior", "mode_posterior")
TOL_OBJ = 1e-4


class PersonalizeRaised(Exception):
    """model.personalize itself raised (the property says the call succeeds): carries the original exception."""

    def __init__(self, exc):
        super().__init__(repr(exc))
        self.exc = exc


class SkipCase(Exception):
    """The case belongs to a class that is excluded (recognised on the observation): counted, not judged."""


class FitFailed(Exception):
    """Fitting the training cohort failed: not this property's business (counted as excluded)."""


@contextlib.contextmanager
def quiet():
    with contextlib.redirect_stdout(io.StringIO()), warnings.catch_warnings():
        warnings.simplefilter("ignore")
        yield


@contextlib.contextmanager
def silence_fd1(active=True):
    """joblib workers inherit the OS-level stdout (leaspy prints convergence reports there): point fd 1 at /dev/null while
    they are started / used. Python-level sys.stdout of this process is untouched."""
    if not active:
        yield
        return
    import sys

    try:
        sys.__stdout__.flush()
    except Exception:
        pass
    saved = os.dup(1)
    null = os.open(os.devnull, os.O_WRONLY)
    os.dup2(null, 1)
    os.close(null)
    try:
        yield
    finally:
        os.dup2(saved, 1)
        os.close(saved)


# ------------------------------------------------------------------------------------------------
# generation
# ------------------------------------------------------------------------------------------------
def _params(draw, kind, dim, sd, noise):
    f = gen.f32
    p = dict(tau_mean=[draw(f(55, 85))], tau_std=[draw(f(1, 15))], xi_std=[draw(f(0.05, 1.5))])
    if noise != "bernoulli":
        n_noise = dim if (noise == "gaussian-diagonal" and dim > 1) else 1
        p["noise_std"] = [draw(f(0.01, 0.5)) for _ in range(n_noise)]
    if kind in ("logistic", "joint"):
        p["log_g_mean"] = [draw(f(-3, 3)) for _ in range(dim)]
        p["log_v0_mean"] = [draw(f(-6, -1)) for _ in range(dim)]
    elif kind == "linear":
        p["g_mean"] = [draw(f(-3, 3)) for _ in range(dim)]
        p["log_v0_mean"] = [draw(f(-6, -1)) for _ in range(dim)]
    else:
        p["log_g_mean"] = [draw(f(-3, 3))]
        p["xi_mean"] = [draw(f(-6, -1))]
        p["deltas_mean"] = [draw(f(-3, 3)) for _ in range(dim - 1)]
    if sd > 0:
        p["betas_mean"] = [[draw(f(-1, 1)) for _ in range(sd)] for _ in range(dim - 1)]
    if kind == "joint":
        p["n_log_nu_mean"] = [draw(f(-3.9, 0))]
        p["log_rho_mean"] = [draw(f(-0.69, 1.6))]
        if sd > 0:
            p["zeta_mean"] = [[draw(f(-1, 1))] for _ in range(sd)]
    return p


FEATURE_NAMES = {
    "plain": lambda j: f"f{j}",
    "odd": lambda j: ["ft 0é", "B-score", "x_1", "Z"][j],
}


@st.composite
def model_spec(draw, fitted_share=4):
    kind = draw(st.sampled_from(list(KINDS)))
    dim = draw(st.sampled_from([2, 2, 3, 4] if kind == "shared_speed_logistic" else [1, 2, 2, 3, 3, 4]))
    sd = 0 if dim == 1 else draw(st.sampled_from([0] + list(range(1, dim)) * 2))
    if kind == "joint":
        if dim >= 2 and sd == 0:
            sd = 1  # joint with dimension >= 2 and no sources is not constructible (DESIGN C12)
        noise = "gaussian-scalar" if dim == 1 else "gaussian-diagonal"  # what JointModel builds itself
    else:
        noise = draw(st.sampled_from(["gaussian-scalar", "gaussian-diagonal"] * 3 + (["bernoulli", "bernoulli"] if kind == "logistic" else [])))
    names = FEATURE_NAMES[draw(st.sampled_from(["plain", "plain", "odd"]))]
    feats = [names(j) for j in range(dim)]
    src = draw(st.sampled_from(["loaded"] * fitted_share + ["fitted"]))
    spec = dict(kind=kind, dim=dim, sd=sd, noise=noise, features=feats, src=src)
    data_kind = "bernoulli" if noise == "bernoulli" else ("linear" if kind == "linear" else "logistic")
    spec["data_kind"] = data_kind
    if src == "loaded":
        spec["params"] = _params(draw, kind, dim, sd, noise)
    else:
        spec["train"] = draw(gen.cohort(kind=data_kind, n_ind=(5, 8), n_visits=(3, 5), features=feats, event=(kind == "joint"),
                                        id_kinds=("s",), missing=False, shuffle=False, fit_ready=True))
        spec["fit_n_iter"] = draw(st.integers(8, 20))
        spec["fit_seed"] = draw(st.integers(0, 5))
    return spec


def _seed(draw):
    return draw(st.sampled_from([None, 0, 1, 2, 7, 12345] + [draw(st.integers(0, 10**6))] * 3))


@st.composite
def scipy_settings(draw, allow_njobs2=False):
    s = dict(seed=_seed(draw))
    uj = draw(st.sampled_from(["default", True, False]))
    if uj != "default":
        s["use_jacobian"] = uj
    if allow_njobs2 and draw(st.sampled_from([False, False, True])):
        s["n_jobs"] = 2
    elif draw(st.booleans()):
        s["n_jobs"] = 1
    cm = draw(st.sampled_from(["default"] * 5 + ["powell-short", "powell-loose", "nelder-mead"]))
    if cm == "powell-short":
        s["custom_scipy_minimize_params"] = dict(method="Powell", options=dict(maxiter=draw(st.integers(1, 3)), xtol=1e-3, ftol=1e-3))
    elif cm == "powell-loose":
        s["custom_scipy_minimize_params"] = dict(method="Powell", options=dict(maxiter=50, xtol=1e-2, ftol=1e-2))
    elif cm == "nelder-mead":
        s["custom_scipy_minimize_params"] = dict(method="Nelder-Mead", options=dict(maxiter=draw(st.sampled_from([5, 40, 120]))))
    return s


@st.composite
def sampling_settings(draw):
    """Settings + the kept-draw class wished for; configurations keeping no draw are remapped (returned in `excluded`)."""
    excluded = []
    n_iter = draw(st.sampled_from([2, 2, 3, 4, 5, 6, 8, 10, 13, 16, 20, 25, 32, 40]))
    wish = draw(st.sampled_from(["one", "two", "all", "mid", "mid", "mid", "none"]))
    if wish == "none":
        excluded.append(EXCL_NO_DRAW)
        wish = "one"
    n_burn = {"one": n_iter - 1, "two": max(0, n_iter - 2), "all": 0}.get(wish)
    if n_burn is None:
        n_burn = draw(st.integers(0, n_iter - 1))
    spec = draw(st.sampled_from(["count", "frac", "frac", "both", "default"]))
    s = dict(n_iter=n_iter, seed=_seed(draw))
    if spec == "default":
        pass  # documented default fraction 0.5
    elif spec == "count":
        s["n_burn_in_iter"] = n_burn
        s["n_burn_in_iter_frac"] = None
    elif spec == "frac":
        s["n_burn_in_iter_frac"] = (n_burn + 0.5) / n_iter
    else:  # both: the count has priority (documented, with a FutureWarning)
        s["n_burn_in_iter"] = n_burn
        s["n_burn_in_iter_frac"] = draw(st.sampled_from([0.0, 0.25, 0.9]))
    ann = draw(st.sampled_from(["absent", "absent", "off", "on", "on"]))
    if ann == "on":
        n_plateau = draw(st.integers(2, min(6, n_iter + 1)))
        ann_iter = draw(st.integers(n_plateau - 1, n_iter))  # >= n_plateau - 1, else refused (F16 repair)
        a = dict(do_annealing=True, initial_temperature=draw(st.sampled_from([2.0, 5.0, 10, 30.0])), n_plateau=n_plateau)
        if draw(st.booleans()) and ann_iter < n_iter:
            a["n_iter_frac"] = (ann_iter + 0.5) / n_iter
        else:
            a["n_iter"] = ann_iter
            a["n_iter_frac"] = None
        s["annealing"] = a
    elif ann == "off":
        s["annealing"] = dict(do_annealing=False)
    if draw(st.sampled_from([False, False, True])):
        lo = draw(st.sampled_from([0.1, 0.2, 0.3]))
        s["sampler_ind_params"] = dict(acceptation_history_length=draw(st.sampled_from([1, 2, 5, 25])),
                                       mean_acceptation_rate_target_bounds=[lo, lo + draw(st.sampled_from([0.1, 0.2, 0.5]))],
                                       adaptive_std_factor=draw(st.sampled_from([0.05, 0.1, 0.5])))
    return s, excluded, spec


@st.composite
def case_strategy(draw, algos=("scipy_minimize",) + SAMPLING_ALGOS, n_ind_max=10, allow_njobs2=False, fitted_share=4):
    model = draw(model_spec(fitted_share=fitted_share))
    algo = draw(st.sampled_from(list(algos)))
    excluded = []
    id_kinds = ("s", "digits", "zeros", "unicode", "words")
    if draw(st.sampled_from([False] * 7 + [True])):  # the wish for integer identifiers
        if EXCLUDE_INT_IDS:
            excluded.append(EXCL_INT_IDS)
            id_kinds = ("digits",)
        else:
            id_kinds = ("int",)
    visits = draw(st.sampled_from([(1, 1), (1, 2), (1, 4), (1, 6), (1, 6), (2, 6)]))
    hi = draw(st.sampled_from([1, 2, 3, 4, 5, 6, 8, 10]))
    hi = min(hi, n_ind_max)
    lo = draw(st.sampled_from([1, 1, min(3, hi), hi]))
    cohort = draw(gen.cohort(kind=model["data_kind"], n_ind=(lo, hi), n_visits=visits, features=model["features"],
                             event=(model["kind"] == "joint"), id_kinds=id_kinds, fit_ready=False))
    form = draw(st.sampled_from(["data", "dataset"] if model["kind"] == "joint" else ["dataframe", "dataframe", "data", "dataset"]))
    case = dict(model=model, cohort=cohort, form=form, algo=algo, pre_seed=draw(st.integers(0, 10**6)))
    # variant: ONE algorithm object (built the way model.personalize builds it) run twice - on this cohort, then on the same
    # cohort again or on another cohort with the same number of individuals; each run is judged against its own chain / start
    reuse = draw(st.sampled_from(["no"] * (6 if algo == "scipy_minimize" else 3) + ["same", "other", "other"]))
    if reuse == "same":
        case["reuse"] = dict(cohort2=None)
    elif reuse == "other":
        n1 = len(expected_ids(cohort))
        case["reuse"] = dict(cohort2=draw(gen.cohort(kind=model["data_kind"], n_ind=(n1, n1), n_visits=visits, features=model["features"],
                                                     event=(model["kind"] == "joint"), id_kinds=id_kinds, fit_ready=False)))
    if algo == "scipy_minimize":
        case["settings"] = draw(scipy_settings(allow_njobs2=allow_njobs2))
    else:
        case["settings"], ex2, case["burn_spec"] = draw(sampling_settings())
        excluded += ex2
    case["excluded"] = excluded
    return case


# ------------------------------------------------------------------------------------------------
# building the objects under test
# ------------------------------------------------------------------------------------------------
def build_model(spec):
    from leaspy.models.factory import model_factory

    kw = dict(features=list(spec["features"]), source_dimension=spec["sd"])
    if spec["kind"] == "joint":
        kw["nb_events"] = 1
    elif spec["kind"] == "mixture_logistic":
        kw.update(n_clusters=spec.get("n_clusters", 2), obs_models=spec["noise"])
    else:
        kw["obs_models"] = spec["noise"]
    m = model_factory(spec["kind"], **kw)
    if spec["src"] == "loaded":
        m.load_parameters(copy.deepcopy(spec["params"]))
        m._is_initialized = True  # exactly what BaseModel.load does after load_parameters
    else:
        _, data, _ = make_data(spec["train"])
        try:
            with quiet():
                m.fit(data, "mcmc_saem", n_iter=spec["fit_n_iter"], seed=spec["fit_seed"], progress_bar=False)
        except Exception as e:  # fitting is not this property's business
            raise FitFailed("fit-failed:" + type(e).__name__) from e
        why = degenerate_fit(m)
        if why:
            raise FitFailed("fit-degenerate:" + why)
    return m


MAX_ABS_LOG_RHO = 3.0


def degenerate_fit(model):
    """A short fit can end far outside any sensible parameter domain (e.g. Weibull shape rho = exp(40) when the training
    cohort has a single observed event): the hazard then overflows to NaN next to the starting point. Such models are
    outside the generated domain (hand-written ones keep log_rho in [-0.69, 1.6]); see reproducers() for what happens there."""
    import torch

    for k, v in (model.parameters or {}).items():
        if not bool(torch.isfinite(torch.as_tensor(v)).all()):
            return f"non-finite-{k}"
    if "log_rho_mean" in (model.parameters or {}):
        if float(torch.as_tensor(model.parameters["log_rho_mean"]).abs().max()) > MAX_ABS_LOG_RHO:
            return "joint-weibull-shape"
    return None


def make_data(cohort, ids_as_str=False):
    """(DataFrame, Data, Dataset) from the generated rows; the joint reader is told the number of events so that a
    cohort (or a single individual) without any observed event is still a valid table."""
    from leaspy.io.data import Data, Dataset

    if ids_as_str:
        cohort = dict(cohort, rows=[[str(r[0])] + list(r[1:]) for r in cohort["rows"]])
    df = gen.cohort_df(cohort)
    if "events" in cohort:
        data = Data.from_dataframe(df, "joint", factory_kws={"nb_events": 1})
    else:
        data = Data.from_dataframe(df)
    return df, data, Dataset(data)


def expected_ids(cohort):
    out = []
    for r in cohort["rows"]:
        s = str(r[0])
        if s not in out:
            out.append(s)
    return out


def single_dataset(cohort, id_str):
    """Dataset of one individual built from the generated rows (ids as strings)."""
    sub = dict(cohort, rows=[r for r in cohort["rows"] if str(r[0]) == id_str])
    return make_data(sub, ids_as_str=True)[2]


def ind_var_shapes(spec):
    d = {"xi": 1, "tau": 1}
    if spec["sd"] > 0:
        d["sources"] = spec["sd"]
    return d


def fresh_state(model, dataset):
    """Clone of the model state with the harness-built dataset and no individual latent value."""
    s = model.state.clone(disable_auto_fork=True)
    s.put_individual_latent_variables(None)
    model.put_data_variables(s, dataset)
    return s


def objective(model, dataset, values):
    """nll_attach + nll_regul_ind_sum of ONE individual at `values` {name: tensor (1, d)} on a fresh state."""
    s = fresh_state(model, dataset)
    for n, v in values.items():
        s[n] = v
    return float((s["nll_attach"] + s["nll_regul_ind_sum"]).item())


def losses_per_individual(state, values):
    for n, v in values.items():
        state[n] = v
    return (state.get_tensor_value("nll_attach_ind") + state.get_tensor_value("nll_regul_ind_sum_ind")).detach().clone()


def prior_loc_scale(model, name, d):
    import numpy as np
    import torch

    both = dict(model.hyperparameters or {})
    both.update(model.parameters or {})

    def get(key, default):
        v = both.get(key)
        if v is None:
            return np.full(d, default, dtype=np.float64)
        v = torch.as_tensor(v).detach().double().reshape(-1).numpy()
        return np.full(d, v[0]) if v.size == 1 else v

    return get(f"{name}_mean", 0.0), get(f"{name}_std", 1.0)


def seed_everything(k):
    import numpy as np
    import torch

    random.seed(k)
    np.random.seed(k)
    torch.manual_seed(k)


def expected_burn_in(settings):
    if "n_iter" not in settings:
        return 0
    if settings.get("n_burn_in_iter") is not None:
        return int(settings["n_burn_in_iter"])
    frac = settings.get("n_burn_in_iter_frac", 0.5)
    return int(frac * settings["n_iter"])


# ------------------------------------------------------------------------------------------------
# the oracle
# ------------------------------------------------------------------------------------------------
_LAST_RESULT = [None]  # what the latest call_personalize returned (read by run_reused)


def make_algorithm(case):
    """The algorithm object exactly as model.personalize builds it (BaseModel._get_algorithm -> algorithm_factory(AlgorithmSettings))."""
    from leaspy.models.base import BaseModel

    with quiet():
        return BaseModel._get_algorithm(case["algo"], None, None, progress_bar=False, **copy.deepcopy(case["settings"]))


def call_personalize(model, case, df, data, ds, algo_obj=None):
    """model.personalize(...), or - with a pre-built algorithm object - the two steps model.personalize performs itself:
    dataset = BaseModel._get_dataset(data); return algorithm.run(model, dataset)."""
    arg = {"dataframe": df, "data": data, "dataset": ds}[case["form"]]
    seed_everything(case["pre_seed"])  # seed=None runs read the global generators: keep them a function of the case
    try:
        with quiet(), silence_fd1(case["settings"].get("n_jobs", 1) != 1):
            if algo_obj is None:
                out = model.personalize(arg, case["algo"], progress_bar=False, **copy.deepcopy(case["settings"]))
            else:
                from leaspy.models.base import BaseModel

                out = algo_obj.run(model, BaseModel._get_dataset(arg))
            _LAST_RESULT[0] = out
            return out
    except Exception as e:
        raise PersonalizeRaised(e) from e


class _TaggedCol:
    """Collector proxy for the runs of a reused algorithm object: failures carry the run in their bucket and the WHOLE case as input."""

    def __init__(self, col, tag, full_case):
        self._col, self._tag, self._case = col, tag, full_case
        self.notes = col.notes

    def fail(self, sub, bucket, inp, observed="", expected=""):
        self._col.fail(sub, bucket + self._tag, self._case, observed=observed, expected=expected)


def check_common(col, case, ip, ids, sub):
    """ids, order, keys, shapes, finiteness. Returns {id: {name: float64 array}} or None if the container is unusable."""
    import numpy as np

    from leaspy.io.outputs import IndividualParameters

    spec = case["model"]
    if not isinstance(ip, IndividualParameters):
        col.fail(sub, "not-individual-parameters", case, observed=type(ip).__name__, expected="IndividualParameters")
        return None
    got = list(ip._indices)
    if got != ids:
        what = "ids-wrong-order" if sorted(got) == sorted(ids) else "ids-wrong-set"
        col.fail(sub, what, case, observed=got, expected=ids)
        return None
    shapes = ind_var_shapes(spec)
    out = {}
    for id_ in ids:
        rec = ip[id_]
        if set(rec) != set(shapes):
            col.fail(sub, "wrong-parameter-names", case, observed={id_: sorted(rec)}, expected=sorted(shapes))
            return None
        out[id_] = {}
        for n, d in shapes.items():
            a = np.asarray(rec[n], dtype=np.float64)
            if a.shape != (d,):
                col.fail(sub, "wrong-parameter-shape", case, observed={id_: {n: list(a.shape)}}, expected={n: [d]})
                return None
            if not np.all(np.isfinite(a)):
                col.fail(sub, "non-finite-estimate", case, observed={id_: {n: a.tolist()}}, expected="finite values")
                return None
            out[id_][n] = a
    decl = {k: tuple(v) for k, v in dict(ip._parameters_shape or {}).items()}
    if decl != {n: (d,) for n, d in shapes.items()}:
        col.fail(sub, "wrong-declared-shapes", case, observed=decl, expected={n: (d,) for n, d in shapes.items()})
    return out


def _has_all_nan_subject(ip):
    import numpy as np

    try:
        for id_ in ip._indices:
            flat = np.concatenate([np.asarray(v, dtype=np.float64).reshape(-1) for v in ip[id_].values()])
            if flat.size and np.all(np.isnan(flat)):
                return True
    except Exception:
        return False
    return False


def as_tensors(vals, shapes):
    import torch

    return {n: torch.tensor(vals[n], dtype=torch.float32).reshape(1, shapes[n]) for n in shapes}


def run_scipy(col, case, model, df, data, ds, ids, classes, algo_obj=None):
    import numpy as np
    import torch

    import leaspy.algo.personalize.scipy_minimize as SM

    sub = "scipy"
    spec = case["model"]
    shapes = ind_var_shapes(spec)
    calls, starts = [], []
    orig = SM.minimize

    def minimize_recorded(fun, *a, **k):
        res = orig(fun, *a, **k)
        scal = k["args"][1]
        calls.append(dict(x0=np.array(k["x0"], dtype=np.float64).copy(), x=np.array(res.x, dtype=np.float64).copy(),
                          slices={n: (sl.start, sl.stop) for n, sl in scal.slices.items()}))
        return res

    def after_put(out, state, dataset):
        starts.append((str(dataset.indices[0]) if dataset.n_individuals == 1 else None,
                       {n: state[n].detach().clone() for n in shapes}))

    SM.minimize = minimize_recorded
    try:
        with observe.wrap_method(model, "put_individual_parameters", after=after_put):
            ip = call_personalize(model, case, df, data, ds, algo_obj)
    finally:
        SM.minimize = orig
    if EXCLUDE_JOINT_NAN and spec["kind"] == "joint" and _has_all_nan_subject(ip):
        raise SkipCase(EXCL_JOINT_NAN)
    vals = check_common(col, case, ip, ids, sub)
    if vals is None:
        return None
    n_jobs = case["settings"].get("n_jobs", 1)
    in_process = n_jobs == 1
    if [s[0] for s in starts] != ids:
        col.notes.append(f"scipy: put_individual_parameters calls {[s[0] for s in starts]} do not match individuals {ids}")
        raise RuntimeError("harness: could not observe the starting points through put_individual_parameters")
    if in_process and len(calls) != len(ids):
        col.fail(sub, "minimize-not-called-once-per-subject", case, observed=len(calls), expected=len(ids))
        return None
    improved = 0
    for i, id_ in enumerate(ids):
        sds = single_dataset(case["cohort"], id_)
        # the algorithm starts from row 0 of whatever the subject's state holds (`state.get_tensor_value(n)[0]`)
        start = {n: starts[i][1][n].float()[0:1].reshape(1, shapes[n]) for n in shapes}
        if in_process:
            c = calls[i]
            if set(c["slices"]) != set(shapes) or any(b - a != shapes[n] for n, (a, b) in c["slices"].items()):
                col.fail(sub, "coordinates-do-not-match-variables", case, observed=c["slices"], expected=shapes)
                return None
            ref_x0, ref_x = {}, {}
            for n, (a, b) in c["slices"].items():
                loc, scale = prior_loc_scale(model, n, shapes[n])
                ref_x0[n] = loc + scale * c["x0"][a:b]
                ref_x[n] = loc + scale * c["x"][a:b]
                tol = 1e-5 * (np.abs(loc) + np.abs(scale * c["x"][a:b])) + 1e-6
                if not np.all(np.abs(vals[id_][n] - ref_x[n]) <= tol):
                    col.fail(sub, "returned-not-unscaling-of-res.x", case,
                             observed={id_: {n: vals[id_][n].tolist()}}, expected={n: ref_x[n].tolist(), "res.x": c["x"].tolist()})
                    return None
            # the point the minimiser really started from is x0; it normally is the scaled initial state value
            x0_matches = all(np.allclose(ref_x0[n], start[n].double().numpy().reshape(-1), rtol=1e-5, atol=1e-5) for n in shapes)
            classes.add("scipy:x0-is-initial-state" if x0_matches else "scipy:x0-differs-from-initial-state")
            start = as_tensors(ref_x0, shapes)
        f0 = objective(model, sds, start)
        f1 = objective(model, sds, as_tensors(vals[id_], shapes))
        if not math.isfinite(f0):
            classes.add("scipy:start-objective-not-finite")
            continue
        if not (f1 <= f0 + TOL_OBJ * (1 + abs(f0))):
            col.fail(sub, "objective-worse-than-start", case,
                     observed={id_: dict(obj_returned=f1, returned={n: v.tolist() for n, v in vals[id_].items()})},
                     expected=dict(obj_start=f0, start={n: v.reshape(-1).tolist() for n, v in start.items()}, tol=TOL_OBJ * (1 + abs(f0))))
            return None
        if f1 < f0 - TOL_OBJ * (1 + abs(f0)):
            improved += 1
    if improved:
        classes.add("scipy:improved")
    classes.add(f"scipy:n_jobs={n_jobs}")
    if "custom_scipy_minimize_params" in case["settings"]:
        classes.add("scipy:custom-minimiser")
    return len(ids) >= 3 and improved >= 1


def run_sampling(col, case, model, df, data, ds, ids, classes, algo_obj=None):
    import numpy as np
    import torch

    from leaspy.algo.personalize.mcmc import McmcPersonalizeAlgorithm

    sub = case["algo"]
    spec = case["model"]
    shapes = ind_var_shapes(spec)
    s = case["settings"]
    n_iter = s["n_iter"]
    n_burn = expected_burn_in(s)
    if n_burn >= n_iter:
        raise RuntimeError("harness: generated a configuration keeping no draw")
    cap, hist = {}, []

    def after_init(out, self, model_, dataset):
        cap["state"] = out
        cap["indices"] = [str(i) for i in dataset.indices]

    def before_temperature(self):
        stt = cap["state"]
        hist.append((int(self.current_iteration), {n: stt[n].detach().clone() for n in shapes},
                     (stt.get_tensor_value("nll_attach_ind") + stt.get_tensor_value("nll_regul_ind_sum_ind")).detach().clone()))

    with observe.wrap_method(McmcPersonalizeAlgorithm, "_initialize_algo", after=after_init), \
            observe.wrap_method(McmcPersonalizeAlgorithm, "_update_temperature", before=before_temperature):
        ip = call_personalize(model, case, df, data, ds, algo_obj)
    vals = check_common(col, case, ip, ids, sub)
    if vals is None:
        return None
    iters = [h[0] for h in hist]
    if iters != list(range(1, n_iter + 1)):
        col.fail(sub, "chain-does-not-have-n_iter-iterations", case, observed=iters, expected=f"1..{n_iter}")
        return None
    if cap["indices"] != ids:
        col.fail(sub, "ids-wrong-order", case, observed=cap["indices"], expected=ids)
        return None
    kept = [h for h in hist if h[0] > n_burn]
    n_kept = len(kept)
    n = len(ids)
    stacked = {k: torch.stack([h[1][k] for h in kept]) for k in shapes}  # (kept, n, d)
    moved = any(bool((stacked[k] != stacked[k][0:1]).any()) for k in shapes) if n_kept >= 2 else False
    if moved:
        classes.add("accepted-move-among-kept")
    classes.add("kept:%s" % (n_kept if n_kept <= 2 else ">=3"))
    if n_burn == 0:
        classes.add("burn-in:0")
    if case["algo"] == "mean_posterior":
        for k, d in shapes.items():
            exp32 = stacked[k].mean(dim=0).reshape(n, d)
            exp64 = stacked[k].double().numpy().mean(axis=0).reshape(n, d)
            scale = 1.0 + float(stacked[k].abs().max())
            for i, id_ in enumerate(ids):
                got = vals[id_][k]
                if not np.array_equal(got, exp32[i].double().numpy()):
                    col.fail(sub, "mean-not-mean-of-kept-draws", case, observed={id_: {k: got.tolist()}},
                             expected=dict(float32_mean=exp32[i].tolist(), kept=n_kept, n_burn_in=n_burn))
                    return None
                if not np.all(np.abs(got - exp64[i]) <= 1e-5 * scale):
                    col.fail(sub, "mean-far-from-float64-mean", case, observed={id_: {k: got.tolist()}}, expected=exp64[i].tolist())
                    return None
    else:
        loss = torch.stack([h[2] for h in kept]).double().numpy()  # (kept, n)
        if loss.shape != (n_kept, n):
            raise RuntimeError(f"harness: recorded loss of shape {loss.shape}")
        fresh = None
        not_last = False
        for i, id_ in enumerate(ids):
            col_l = loss[:, i]
            if not np.all(np.isfinite(col_l)):
                classes.add("mode:non-finite-recorded-loss")
                continue
            best = 0
            for j in range(1, n_kept):
                if col_l[j] < col_l[best]:
                    best = j
            if best != n_kept - 1:
                not_last = True
            ok = False
            for j in [best] + [j for j in range(n_kept) if j != best and col_l[j] == col_l[best]]:
                if all(np.array_equal(vals[id_][k], stacked[k][j, i].double().numpy().reshape(-1)) for k in shapes):
                    ok = True
                    break
            if not ok:
                col.fail(sub, "mode-not-lowest-loss-kept-draw", case, observed={id_: {k: v.tolist() for k, v in vals[id_].items()}},
                         expected=dict(draw={k: stacked[k][best, i].tolist() for k in shapes}, kept_index=best, kept=n_kept, n_burn_in=n_burn,
                                       losses=col_l.tolist()))
                return None
        if not_last:
            classes.add("mode-not-last-draw")
        # independent evaluation: no kept draw has a lower loss than the returned one
        _, _, my_ds = make_data(case["cohort"], ids_as_str=True)
        if [str(i) for i in my_ds.indices] == ids:
            stt = fresh_state(model, my_ds)
            ret = {k: torch.tensor(np.stack([vals[id_][k] for id_ in ids]), dtype=torch.float32).reshape(n, shapes[k]) for k in shapes}
            l_ret = losses_per_individual(stt, ret).double().numpy()
            l_min = None
            for j in range(n_kept):
                lj = losses_per_individual(stt, {k: stacked[k][j].reshape(n, shapes[k]) for k in shapes}).double().numpy()
                l_min = lj if l_min is None else np.fmin(l_min, lj)
            for i, id_ in enumerate(ids):
                if math.isfinite(l_min[i]) and not (l_ret[i] <= l_min[i] + TOL_OBJ * (1 + abs(l_min[i]))):
                    col.fail(sub, "mode-not-lowest-loss-evaluated-afresh", case, observed={id_: float(l_ret[i])},
                             expected=dict(lowest_kept=float(l_min[i])))
                    return None
    return n >= 3 and n_kept >= 2 and moved


def run_reused(col, case, model, runner, classes):
    """One algorithm object, two runs; every run is judged by the ordinary oracle against what was recorded during THAT run.
    scipy_minimize additionally: the second run returns what a fresh algorithm object returns for the same input and seeds."""
    import numpy as np

    classes.add("reused-algorithm-object")
    cohort2 = case["reuse"].get("cohort2")
    classes.add("reused:same-cohort" if cohort2 is None else "reused:other-cohort")
    try:
        algo_obj = make_algorithm(case)
    except Exception as e:
        raise PersonalizeRaised(e) from e
    nts = []
    for k, cohort in ((1, case["cohort"]), (2, cohort2 if cohort2 is not None else case["cohort"])):
        # the second run reads other global-generator values than the first when seed=None (the chain must differ to tell a mix-up)
        sub_case = dict(case, cohort=cohort, pre_seed=case["pre_seed"] + (k - 1))
        df, data, ds = make_data(cohort)
        ids = expected_ids(cohort)
        tagged = _TaggedCol(col, f"@reused-algorithm-run{k}", case)
        before = col.n_failures()
        nts.append(runner(tagged, sub_case, model, df, data, ds, ids, set() if k == 2 else classes, algo_obj=algo_obj))
        if col.n_failures() > before:
            return None
    if case["algo"] == "scipy_minimize":
        cohort = cohort2 if cohort2 is not None else case["cohort"]
        sub_case = dict(case, cohort=cohort, pre_seed=case["pre_seed"] + 1)
        reused = _LAST_RESULT[0]  # what the second run of the reused object returned
        fresh = call_personalize(model, sub_case, *make_data(cohort))
        a = {i: {n: np.asarray(v, dtype=np.float64).tolist() for n, v in reused[i].items()} for i in reused._indices}
        b = {i: {n: np.asarray(v, dtype=np.float64).tolist() for n, v in fresh[i].items()} for i in fresh._indices}
        if a != b:
            col.fail("scipy", "reused-algorithm-differs-from-fresh-algorithm", case, observed=a, expected=b)
            return None
    return any(bool(x) for x in nts)


def body(col: Collector, case):
    import numpy as np

    spec = case["model"]
    for e in case.get("excluded", []):
        col.exclude(e)
    try:
        model = build_model(spec)
    except FitFailed as e:
        col.exclude(str(e))
        return
    df, data, ds = make_data(case["cohort"])
    ids = expected_ids(case["cohort"])
    stats = gen.cohort_stats(case["cohort"])
    classes = {f"algo:{case['algo']}", f"kind:{spec['kind']}", f"noise:{spec['noise'].replace('gaussian-', '')}",
               "sources" if spec["sd"] else "no-sources", f"src:{spec['src']}", f"form:{case['form']}",
               f"ids:{case['cohort']['id_kind']}", f"miss:{case['cohort']['miss_mode']}",
               "seed:none" if case["settings"].get("seed") is None else "seed:int"}
    n = len(ids)
    classes.add("n_ind:1" if n == 1 else ("n_ind:2" if n == 2 else "n_ind>=3"))
    if stats["single_visit_inds"]:
        classes.add("single-visit-individual")
    if stats["single_visit_inds"] == n:
        classes.add("all-single-visit")
    if any(v is None for r in case["cohort"]["rows"] for v in r[2:2 + len(spec["features"])]):
        classes.add("missing-cells")
    if case["cohort"].get("shuffled"):
        classes.add("rows-shuffled")
    if ids != sorted(ids):
        classes.add("ids-not-sorted")
    if case["algo"] != "scipy_minimize":
        classes.add(f"burn-spec:{case.get('burn_spec', '?')}")
        if case["settings"].get("annealing", {}).get("do_annealing"):
            classes.add("annealing:on")
    sub = "scipy" if case["algo"] == "scipy_minimize" else case["algo"]
    runner = run_scipy if case["algo"] == "scipy_minimize" else run_sampling
    try:
        if not case.get("reuse"):
            nt = runner(col, case, model, df, data, ds, ids, classes)
        else:
            nt = run_reused(col, case, model, runner, classes)
    except SkipCase as sk:
        col.exclude(str(sk))
        return
    except PersonalizeRaised as pr:
        e = pr.exc
        col.fail(sub, "unexpected-exception:" + exc_bucket(e), case, observed=repr(e)[:500], expected="personalization succeeds")
        nt = None
    if nt:
        classes.add("nontrivial")
    col.case(classes=sorted(classes), nontrivial=jhash(case) if nt else None,
             sample=dict(algo=case["algo"], settings=case["settings"], model={k: v for k, v in spec.items() if k != "train"},
                         ids=ids, form=case["form"], n_rows=len(case["cohort"]["rows"])))


# ------------------------------------------------------------------------------------------------
# reproducers of the defects / undefined configurations whose input class is excluded by construction
# ------------------------------------------------------------------------------------------------
def _base_case(algo, id_kind="s"):
    mk = gen.ID_ALPHABETS[id_kind]
    rows = [[mk(1), 70.0, 0.5, 0.4], [mk(0), 71.0, 0.5, 0.6], [mk(1), 69.0, 0.3, 0.2], [mk(2), 60.0, 0.1, None]]
    model = dict(kind="logistic", dim=2, sd=1, noise="gaussian-diagonal", features=["f0", "f1"], src="loaded", data_kind="logistic",
                 params=dict(tau_mean=[70.0], tau_std=[5.0], xi_std=[0.5], noise_std=[0.1, 0.1], log_g_mean=[0.0, 0.5],
                             log_v0_mean=[-4.0, -4.0], betas_mean=[[0.1]]))
    settings = dict(seed=0) if algo == "scipy_minimize" else dict(seed=0, n_iter=6)
    return dict(model=model, cohort=dict(kind="logistic", features=["f0", "f1"], id_kind=id_kind, miss_mode="sparse", rows=rows),
                form="dataframe", algo=algo, settings=settings, pre_seed=0, excluded=[], burn_spec="default")


# found by the search (VERIF_SEED=3, shrunk): hand-written joint model inside the generated parameter ranges, default Powell settings;
# subject '100' starts at obj = 747 (tau start = first visit, 10 prior std-devs below tau_mean) and comes back as NaN.
JOINT_NAN_CASE = dict(
    model=dict(kind="joint", dim=3, sd=1, noise="gaussian-diagonal", features=["ft 0\u00e9", "B-score", "x_1"], src="loaded", data_kind="logistic",
               params=dict(tau_mean=[74.05656433105469], tau_std=[2.0000100135803223], xi_std=[1.4010790586471558],
                           noise_std=[0.2840692698955536, 0.02863249182701111, 0.3465099334716797],
                           log_g_mean=[1.6626027822494507, 1.1595548391342163, 2.9675726890563965],
                           log_v0_mean=[-2.5710678100585938, -2.365720272064209, -3.8649144172668457],
                           betas_mean=[[0.1016746237874031], [0.8545153141021729]], n_log_nu_mean=[-1.5108225345611572],
                           log_rho_mean=[-0.6509868502616882], zeta_mean=[[-0.9416074752807617]])),
    cohort=dict(kind="logistic", features=["ft 0\u00e9", "B-score", "x_1"], id_kind="digits", miss_mode="feature-missing",
                events={"0": [67.8324, 1], "1": [73.0042, 0], "2": [76.5282, 1], "3": [89.5444, 1], "4": [58.9722, 1]},
                rows=[["100", 52.757, None, 0.01, None, 67.8324, 1], ["100", 55.757, None, None, 0.05987, 67.8324, 1],
                      ["100", 59.7169, None, 0.05064, None, 67.8324, 1], ["100", 61.936, None, 0.12352, 0.10589, 67.8324, 1],
                      ["100", 62.8949, None, 0.19134, 0.20436, 67.8324, 1], ["107", 70.7, 0.97786, 0.96367, 0.93925, 73.0042, 0],
                      ["114", 67.6226, 0.7104, 0.62424, None, 76.5282, 1], ["114", 69.4607, 0.84617, 0.85431, 0.89057, 76.5282, 1],
                      ["114", 70.5768, 0.8708, 0.854, None, 76.5282, 1], ["121", 84.0, 0.94878, 0.95963, 0.99, 89.5444, 1],
                      ["128", 47.9664, 0.01, 0.01, 0.01, 58.9722, 1], ["128", 51.3319, None, 0.01, 0.01, 58.9722, 1],
                      ["128", 53.2319, 0.01, 0.03276, None, 58.9722, 1]]),
    form="data", algo="scipy_minimize", pre_seed=139401, settings=dict(seed=91732, use_jacobian=True), excluded=[])


def reproducers():
    out = []
    for algo in ("scipy_minimize", "mean_posterior", "mode_posterior"):
        out.append((f"{EXCL_INT_IDS}:{algo}", _base_case(algo, "int")))
    c = _base_case("mean_posterior")
    c["settings"].update(n_burn_in_iter=6, n_burn_in_iter_frac=None)
    out.append((EXCL_NO_DRAW, c))
    mix = _base_case("mean_posterior")
    mix["cohort"]["rows"] = [[f"s{i}", 60.0 + 2 * k + i, 0.3 + 0.05 * k, 0.4 + 0.05 * k] for i in range(3) for k in range(2 + i)]
    mix["model"] = dict(kind="mixture_logistic", dim=2, sd=1, noise="gaussian-diagonal", features=["f0", "f1"], src="loaded", data_kind="logistic",
                        n_clusters=2,
                        params=dict(tau_mean=[68.0, 72.0], tau_std=[5.0, 4.0], xi_mean=[-0.2, 0.1], xi_std=[0.5, 0.4], noise_std=[0.1, 0.1],
                                    log_g_mean=[0.0, 0.5], log_v0_mean=[-4.0, -4.0], betas_mean=[[0.1]], sources_mean=[[-0.3, 0.2]],
                                    probs=[0.4, 0.6]))
    out.append(("mixture-sampler-personalization", mix))
    # scipy_minimize hands back NaN parameters (scipy: "NaN result encountered") although the start has a finite objective
    out.append((EXCL_JOINT_NAN, copy.deepcopy(JOINT_NAN_CASE)))
    deg = _base_case("scipy_minimize")
    deg["form"] = "data"
    deg["settings"] = dict(seed=7)
    deg["model"] = dict(kind="joint", dim=2, sd=1, noise="gaussian-diagonal", features=["f0", "f1"], src="loaded", data_kind="logistic",
                        params=dict(betas_mean=[[-0.001]], log_g_mean=[-1.4, -0.9], log_rho_mean=[10.0], log_v0_mean=[-4.6, -3.4],
                                    n_log_nu_mean=[-2.6], noise_std=[0.29, 0.19], tau_mean=[70.7], tau_std=[9.3], xi_std=[0.13],
                                    zeta_mean=[[0.0004]]))
    deg["cohort"] = dict(kind="logistic", features=["f0", "f1"], id_kind="s", miss_mode="feature-missing", events={"0": [54.257, 1]},
                         rows=[["s0", 52.757, 0.05957, None, 54.257, 1]])
    out.append(("scipy-nan-result-degenerate-joint", deg))
    return out


def run_reproducer(case):
    """Judges the reproducer with the ordinary oracle; returns the first failure bucket + observation, or None."""
    if expected_burn_in(case["settings"]) >= case["settings"].get("n_iter", 1) and case["algo"] != "scipy_minimize":
        # no kept draw: nothing to judge, only report what the bare call does
        model = build_model(case["model"])
        try:
            call_personalize(model, case, *make_data(case["cohort"]))
        except PersonalizeRaised as e:
            return f"{exc_bucket(e.exc)}: {str(e.exc)[:160]}"
        return None
    global EXCLUDE_JOINT_NAN
    tmp = Collector(PROP, "reproducer")
    saved, EXCLUDE_JOINT_NAN = EXCLUDE_JOINT_NAN, False
    try:
        body(tmp, case)
    finally:
        EXCLUDE_JOINT_NAN = saved
    if tmp.failures:
        f = tmp.failures[0]
        return f"{f['bucket']}: {f['observed'][:160]}"
    return None


def shard_findings(shard: str = "findings"):
    env.import_leaspy()
    col = Collector(PROP, "findings")
    for name, case in reproducers():
        try:
            e = run_reproducer(case)
        except Exception as ex:  # the reproducer itself must stay runnable
            col.notes.append(f"reproducer {name} not runnable: {ex!r}")
            continue
        if e is None:
            col.notes.append(f"reproducer {name} no longer fails: lift its exclusion (VF_C17_INCLUDE) and judge the class")
            col.cls(f"finding-gone:{name}")
        else:
            col.cls(f"finding-reproduced:{name}")
            col.notes.append(f"reproducer {name}: {e}")
    return col


# ------------------------------------------------------------------------------------------------
# shards
# ------------------------------------------------------------------------------------------------
def _shutdown_workers():
    try:
        from joblib.externals.loky import get_reusable_executor

        get_reusable_executor().shutdown(wait=True, kill_workers=True)
    except Exception:
        pass


def shard_scipy(seed: int, n_examples: int, shard: int = 0, n_ind_max: int = 10, njobs2: bool = False):
    env.import_leaspy()
    col = Collector(PROP, f"scipy-{shard}")
    try:
        drive(col, case_strategy(algos=("scipy_minimize",), n_ind_max=n_ind_max, allow_njobs2=njobs2, fitted_share=3), body,
              n_examples=n_examples, seed=shard_seed(seed, shard, salt=1), sub_check="scipy")
    finally:
        if njobs2:
            _shutdown_workers()
    return col


def shard_sampling(seed: int, n_examples: int, shard: int = 0):
    env.import_leaspy()
    col = Collector(PROP, f"sampling-{shard}")
    drive(col, case_strategy(algos=SAMPLING_ALGOS), body, n_examples=n_examples, seed=shard_seed(seed, shard, salt=2), sub_check="sampling")
    return col


def shards(tier: str, seed: int):
    specs = []
    if tier == "quick":
        n_scipy, ex_scipy, n_samp, ex_samp, nmax = 10, 12, 6, 70, 6
    else:
        n_scipy, ex_scipy, n_samp, ex_samp, nmax = 10, 300, 6, 2500, 10
    for s in range(n_scipy):
        specs.append((MOD, "shard_scipy", dict(seed=seed, n_examples=ex_scipy, shard=s, n_ind_max=nmax if s % 3 else 10, njobs2=(s < 2))))
    for s in range(n_samp):
        specs.append((MOD, "shard_sampling", dict(seed=seed, n_examples=ex_samp, shard=100 + s)))
    specs.append((MOD, "shard_findings", dict(shard="findings")))
    return specs


def replay(sub_check: str, inp):
    env.import_leaspy()
    col = Collector(PROP, "replay")
    try:
        body(col, inp)
    finally:
        if inp.get("settings", {}).get("n_jobs", 1) != 1:
            _shutdown_workers()
    return col.failures
