"""C09 - individual trajectories follow the documented closed form.

Models are built with hand-generated parameters (`load_parameters`, no fit). Every case asks `model.estimate`
(dict of lists/tuples/ndarrays/scalars or `pd.MultiIndex`; to_dataframe None/True/False; unsorted / repeated / single /
far ages; several individuals in arbitrary order, more individuals known than requested) and
`model.compute_individual_trajectory` for the same individuals, and compares with a float64 closed form written from
docs/models.md (logistic), the linear / shared-speed docstrings and the property statement.

Engines: (G) a deterministic grid over kinds x container shapes x output layouts on fixed small inputs;
(H) Hypothesis cases over parameters, individual parameters, ages and containers.
"""
from __future__ import annotations

import itertools
import math
import os

import numpy as np
from hypothesis import strategies as st

from vf.core import env, gen
from vf.core.harness import Collector, drive, exc_bucket, jhash, shard_seed

PROP = "C09"
MOD = "vf.checks.c09"
RULE = (
    "Engine G: every combination of {logistic, linear, shared_speed_logistic, joint} x 3 (dimension, sources) settings x "
    "{dict of list/tuple/float64-array/float32-array/int-array/int-list/scalar/int-scalar/numpy-scalar, MultiIndex built from "
    "tuples/arrays/frame or sliced (mask / positions / table filter) out of the index of a larger cohort, so that it carries unused levels, with "
    "IndividualParameters holding the requested individuals only or the whole cohort; levels ordered (ID,TIME), (TIME,ID) or any order of "
    "(ID,TIME,SPLIT)} x to_dataframe {None, True, False} on a fixed 3-individual request (unsorted ages with a repeat, "
    "single age, age = tau). Engine H: Hypothesis cases = model kind x dimension 1-4 x source dimension x admissible parameters "
    "(log_g in [-3,3], log_v0 in [-6,-1], g (linear) in [-3,3], deltas in [-3,3], betas in [-1,1], tau_mean in [40,90]) x 1-5 requested "
    "individuals (+0-2 known but not requested) with xi within +-2 (extreme +-5) of the prior mean, tau within 3 std, sources "
    "in [-3,3] x 1-8 ages each (near tau, far up to +-1e4, exactly tau, zero, negative, integer-valued; sorted/reversed/shuffled; repeats; tau_mean in [-30,5] for 1 case in 6) x "
    "age container x request form x to_dataframe. All numbers are float32-representable. Non-trivial = >=2 requested individuals, "
    "some individual with unsorted ages containing a repeat, sources present; distinct by case hash. "
    "Parameter updates (both engines): ONE model object receives 1-3 further parameter sets of the same kind/dimension/sources, each "
    "applied either by load_parameters on the same object or by assigning a drawn non-empty subset of {log_g_mean, log_v0_mean, g_mean, "
    "deltas_mean, betas_mean} through model.state with auto-fork off followed by put_population_latent_variables(PRIOR_MODE); the same "
    "dict request and the same MultiIndex request are judged against the closed form of the CURRENT parameters before the first and "
    "after every update (non-trivial there = the rule above and a trajectory parameter actually changed)."
)
ASSUMPTIONS = [
    "Reference = float64 evaluation of the documented formulas: rt = exp(xi)(t - tau); logistic/joint longitudinal part "
    "1/(1+g exp(-(1+g)^2/g (v0 rt + w))); linear g + v0 rt + w; shared-speed 1/(1+g_k exp(-(rt + (1+g_k)^2/g_k w))) with "
    "g_k = g exp(-delta_k), delta_1 = 0; w = sources @ A with A the model's own `mixing_matrix` variable read once after "
    "load_parameters (docs: any orthonormal basis orthogonal to v0 is admissible, so the basis itself is not re-derived; "
    "its orthogonality belongs to C10).",
    "Tolerance: |est - ref| <= 2e-6 + 2e-5 |ref| + d * s, where d = 16 eps32 * (sum of the absolute values of the terms of "
    "the linear predictor) bounds the float32 rounding of the predictor and s is the largest slope of the link on "
    "[predictor - d, predictor + d] (1 for linear). The last term is ~1e-6 for ordinary inputs and vanishes where the "
    "curve is saturated; it is what makes far extrapolation comparable without a vacuous bound.",
    "Monotonicity is non-strict with a slack of 1e-6 (float32 sigmoid); range is the closed interval [0, 1].",
    "Layout: dict output -> exactly the requested ids (key order not judged), each value an ndarray of shape "
    "(n_ages, n_features) whose row j matches the reference at requested age j (scalar age = 1 row); dict request with "
    "to_dataframe=True -> rows in dict order then age order, index names (ID, TIME), columns = features; MultiIndex request "
    "-> DataFrame whose index equals the input index (same order, repeated pairs kept), dict when to_dataframe=False with "
    "each individual's rows in order of appearance.",
    "Joint model: only the first `dimension` columns (longitudinal part) are judged, and only in dict layout.",
    "Excluded by construction and counted: the joint model with DataFrame output (ValueError: dimension+nb_events columns "
    "vs features, see repro_joint_dataframe; the joint kind is not in the property's statement). A scalar age with "
    "to_dataframe=True (TypeError from pandas.Index before the repair, see repro_scalar_age_dataframe) is searched since "
    "the repair; EXCLUDE_SCALAR_AGE_DF=True would remove it again.",
    "In-place parameter updates use the two paths leaspy uses itself: StatefulModel.load_parameters ('Instantiate or update') and "
    "assignment of ModelParameter nodes on model.state under auto_fork(None) + put_population_latent_variables(PRIOR_MODE) "
    "(StatefulModel.initialize / load_parameters body; the MCMC-SAEM maximisation step also assigns parameters on model.state in place).",
    "Ages are arbitrary finite reals (zero, negative, far backward extrapolation; reference times <= 0 as when time is counted from "
    "onset or baseline); identifiers are strings (IndividualParameters refuses anything else).",
    "A MultiIndex request may have its levels in any order and carry one extra level (SPLIT): all 8 layouts (ID,TIME), (TIME,ID) and "
    "the 6 orders of (ID, TIME, SPLIT) are answered correctly by the tree at the time of writing (estimate selects ID and TIME by name and "
    "joins on the names; the source comment says 'join so to handle multi-levels cases'), so all are in the domain; the output index must "
    "equal the input index (names, order, rows) and row k must hold the closed form at the k-th (ID, TIME) read by level name.",
    "A MultiIndex request may carry unused levels (index sliced out of a larger cohort by mask, position or table filter): only the "
    "individuals present in the index are requested, whether or not the IndividualParameters know the others.",
]
REQUIRED_CLASSES = {
    "nontrivial": 0.03,
    "kind:logistic": 0.1, "kind:linear": 0.1, "kind:shared_speed_logistic": 0.1, "kind:joint": 0.03,
    "request:dict": 0.2, "request:multiindex": 0.2,
    "to_dataframe:None": 0.15, "to_dataframe:True": 0.1, "to_dataframe:False": 0.15,
    "container:scalar": 0.005, "container:tuple": 0.02, "container:ndarray64": 0.02, "container:list": 0.05,
    "ages:unsorted": 0.2, "ages:repeat": 0.1, "ages:single": 0.05, "ages:far": 0.05,
    "mi:repeated-pair": 0.02, "sources": 0.3, "no-sources": 0.1, "ip:extra-individuals": 0.1,
    "unshifted-at-tau": 0.5, "unshifted-at-tau:non-positive": 0.02,
    "ages:non-positive": 0.15, "ages:zero": 0.05, "tau:non-positive": 0.03,
    "ages:non-positive:scalar": 30, "ages:non-positive:index": 0.05, "ages:non-positive:list": 0.02, "ages:non-positive:tuple": 50, "ages:non-positive:ndarray64": 50,
    "multiindex:sliced-unused-levels": 0.05, "multiindex:sliced:ip-requested-only": 0.02, "multiindex:sliced:ip-whole-cohort": 0.02,
    "multiindex:time-before-id": 0.05, "multiindex:extra-level": 0.05,
    "mi:slice-mask": 0.01, "mi:slice-positional": 0.01, "mi:slice-frame": 0.01,
    "updates:load": 0.03, "updates:state": 0.03, "updates:trajectory-parameters-changed": 0.05, "updates:nontrivial": 0.01,
}

EPS32 = float(np.finfo(np.float32).eps)
RTOL, ATOL, KROUND, MONO_SLACK = 2e-5, 2e-6, 16.0, 1e-6
LOGISTIC_KINDS = ("logistic", "shared_speed_logistic", "joint")
CONTAINERS = ("list", "tuple", "ndarray64", "ndarray32", "ndarray_int", "list_int", "scalar", "scalar_int", "scalar_np")
SCALAR_CONTAINERS = ("scalar", "scalar_int", "scalar_np")
INT_CONTAINERS = ("ndarray_int", "list_int", "scalar_int")
EXCL_SCALAR_DF = "scalar-age+to_dataframe=True"
EXCL_JOINT_DF = "joint+dataframe-output"
# True = the class "scalar age in a dict request with to_dataframe=True" is removed from the search by construction
# (it raised TypeError before the repair of BaseModel.estimate, notes/fixes/C09-scalar-age.patch). The class is part of
# the search now that the repair is in /repo; env VF_C09_INCLUDE=all forces it into the search whatever the default.
EXCLUDE_SCALAR_AGE_DF = False
if os.environ.get("VF_C09_INCLUDE", "") == "all":
    EXCLUDE_SCALAR_AGE_DF = False


def r32(x) -> float:
    """nearest float32-representable python float"""
    return float(np.float32(x))


# ------------------------------------------------------------------------------------------------
# reference (float64, numpy only)
# ------------------------------------------------------------------------------------------------
def _arr(x):
    return np.asarray(x, dtype=np.float64)


def ref_trajectory(kind, params, A, xi, tau, sources, t):
    """Closed form and its tolerance. Returns (ref, tol) of shape (n_ages, dim).

    A: mixing matrix (n_sources, dim) or None; sources: list (possibly empty)."""
    t = _arr(t).reshape(-1)
    rt = math.exp(xi) * (t - tau)  # reparametrized age
    rt = rt[:, None]
    if kind == "shared_speed_logistic":
        dim = len(params["deltas_mean"]) + 1
    else:
        dim = len(params["log_v0_mean"])
    if A is not None and len(sources):
        s = _arr(sources)
        w = s @ A
        wc = np.abs(s) @ np.abs(A)
    else:
        w = np.zeros(dim)
        wc = np.zeros(dim)
    with np.errstate(over="ignore", under="ignore"):
        if kind in ("logistic", "joint"):
            log_g = _arr(params["log_g_mean"])
            g = np.exp(log_g)
            v0 = np.exp(_arr(params["log_v0_mean"]))
            metric = (1 + g) ** 2 / g
            z = metric * (v0 * rt + w)
            ref = 1.0 / (1.0 + g * np.exp(-z))
            pred = z - log_g
            cond = metric * (np.abs(v0 * rt) + wc) + np.abs(log_g) + 1.0
        elif kind == "shared_speed_logistic":
            log_g = float(params["log_g_mean"][0])
            delta = np.concatenate([[0.0], _arr(params["deltas_mean"])])
            gk = math.exp(log_g) * np.exp(-delta)
            metric = (1 + gk) ** 2 / gk
            z = rt + metric * w
            ref = 1.0 / (1.0 + gk * np.exp(-z))
            pred = z - np.log(gk)
            cond = np.abs(rt) + metric * wc + np.abs(delta) + abs(log_g) + 1.0
        elif kind == "linear":
            g = _arr(params["g_mean"])
            v0 = np.exp(_arr(params["log_v0_mean"]))
            ref = g + v0 * rt + w
            pred = ref
            cond = np.abs(g) + np.abs(v0 * rt) + wc + 0.0 * rt
        else:  # pragma: no cover
            raise ValueError(kind)
        d = KROUND * EPS32 * cond
        if kind == "linear":
            slope = 1.0
        else:
            x = np.maximum(0.0, np.abs(pred) - d)  # point of [pred-d, pred+d] nearest to 0: largest slope of the sigmoid
            e = np.exp(-x)
            slope = e / (1.0 + e) ** 2
        tol = ATOL + RTOL * np.abs(ref) + d * slope
    ref = np.broadcast_to(ref, (len(t), dim)).copy()
    tol = np.broadcast_to(tol, (len(t), dim)).copy()
    return ref, tol


def ref_value_at_reference_time(kind, params):
    """Documented value of an unshifted individual at t = tau: 1/(1+g) per feature (shared-speed: g_k = g exp(-delta_k))."""
    if kind in ("logistic", "joint"):
        return 1.0 / (1.0 + np.exp(_arr(params["log_g_mean"])))
    if kind == "shared_speed_logistic":
        delta = np.concatenate([[0.0], _arr(params["deltas_mean"])])
        return 1.0 / (1.0 + math.exp(float(params["log_g_mean"][0])) * np.exp(-delta))
    return None


# ------------------------------------------------------------------------------------------------
# building the objects under test from a plain-JSON case
# ------------------------------------------------------------------------------------------------
def build_model(case):
    from leaspy.models.factory import model_factory

    kw = dict(features=list(case["features"]), source_dimension=case["sd"])
    if case["kind"] == "joint":
        kw["nb_events"] = 1
    else:
        kw["obs_models"] = case["noise"]
    m = model_factory(case["kind"], **kw)
    m.load_parameters({k: v for k, v in case["params"].items()})
    return m


def ip_dict(ind, form, sd):
    d = {"xi": ind["xi"], "tau": ind["tau"]} if form == "scalar" else {"xi": [ind["xi"]], "tau": [ind["tau"]]}
    if sd > 0:
        d["sources"] = list(ind["sources"])
    return d


def build_ip(case):
    from leaspy.io.outputs import IndividualParameters

    people = {p["id"]: p for p in case["inds"] + case.get("extra_inds", [])}
    ip = IndividualParameters()
    for id_ in case["ip_order"]:
        ip.add_individual_parameters(id_, ip_dict(people[id_], case["ip_form"], case["sd"]))
    return ip


def make_container(ages, container):
    if container == "list":
        return [float(a) for a in ages]
    if container == "tuple":
        return tuple(float(a) for a in ages)
    if container == "ndarray64":
        return np.array(ages, dtype=np.float64)
    if container == "ndarray32":
        return np.array(ages, dtype=np.float32)
    if container == "ndarray_int":
        return np.array([int(a) for a in ages], dtype=np.int64)
    if container == "list_int":
        return [int(a) for a in ages]
    if container == "scalar":
        return float(ages[0])
    if container == "scalar_int":
        return int(ages[0])
    if container == "scalar_np":
        return np.float64(ages[0])
    raise ValueError(container)


def mi_pairs(case):
    """(individual position, age position) pairs of a MultiIndex request, in request order."""
    flat = [(i, j) for i, p in enumerate(case["inds"]) for j in range(len(p["ages"]))]
    order = case.get("mi_order") or list(range(len(flat)))
    return [flat[k] for k in order]


def make_multiindex(case):
    """MultiIndex request; `mi_levels` (default [ID, TIME]) gives the order of the levels and may contain an extra level SPLIT
    (estimate selects the ID and TIME levels by name)."""
    import pandas as pd

    ix, pairs = _make_multiindex_id_time(case)
    levels = case.get("mi_levels") or ["ID", "TIME"]
    if levels == ["ID", "TIME"]:
        return ix, pairs
    if levels == ["TIME", "ID"] and case.get("mi_build") != "frame":
        return ix.swaplevel(), pairs  # df.swaplevel().index: keeps unused levels of a sliced index
    table = ix.to_frame(index=False)
    if "SPLIT" in levels:
        table["SPLIT"] = list(case["mi_split"])
    return table.set_index(list(levels)).index, pairs  # df.set_index([...]).index


def _make_multiindex_id_time(case):
    import pandas as pd

    pairs = mi_pairs(case)
    as_int = bool(case.get("mi_int_time"))
    ids = [case["inds"][i]["id"] for i, _ in pairs]
    times = [case["inds"][i]["ages"][j] for i, j in pairs]
    times = [int(a) for a in times] if as_int else [float(a) for a in times]
    how = case.get("mi_build", "tuples")
    if how == "sliced":
        # index of a larger cohort, then sliced down to the request: pandas keeps the other individuals (and ages) as unused levels
        ins = {}
        for pos, id_, age in case["mi_insert"]:
            ins.setdefault(int(pos), []).append((id_, int(age) if as_int else float(age)))
        big_ids, big_times, keep = [], [], []
        for k in range(len(pairs) + 1):
            for id_, age in ins.get(k, []):
                big_ids.append(id_), big_times.append(age), keep.append(False)
            if k < len(pairs):
                big_ids.append(ids[k]), big_times.append(times[k]), keep.append(True)
        keep = np.array(keep, dtype=bool)
        sl = case.get("mi_slice", "mask")
        if sl == "frame":  # table[table.SPLIT == 'test'].index
            table = pd.DataFrame({"ID": big_ids, "TIME": big_times, "SPLIT": np.where(keep, "test", "train")}).set_index(["ID", "TIME"])
            return table[table.SPLIT == "test"].index, pairs
        big = pd.MultiIndex.from_arrays([big_ids, big_times], names=["ID", "TIME"])
        if sl == "positional":
            return big[[int(k) for k in np.flatnonzero(keep)]], pairs
        return big[keep], pairs
    if how == "arrays":
        return pd.MultiIndex.from_arrays([ids, times], names=["ID", "TIME"]), pairs
    if how == "frame":
        return pd.DataFrame({"ID": ids, "TIME": times, "x": 0.0}).set_index(["ID", "TIME"]).index, pairs
    return pd.MultiIndex.from_tuples(list(zip(ids, times)), names=["ID", "TIME"]), pairs


# ------------------------------------------------------------------------------------------------
# oracle
# ------------------------------------------------------------------------------------------------
def _cmp(est, ref, tol):
    """None if est matches ref within tol (NaN never matches), else a short description of the worst entry."""
    est = np.asarray(est, dtype=np.float64)
    if est.shape != ref.shape:
        return f"shape {est.shape} != {ref.shape}"
    bad = ~(np.abs(est - ref) <= tol)
    if bad.any():
        excess = np.where(bad, np.abs(est - ref) / tol, 0.0)
        excess = np.where(np.isnan(excess), np.inf, excess)
        k = np.unravel_index(int(np.argmax(excess)), est.shape)
        return f"row {k[0]} feature {k[1]}: estimated {est[k]!r}, reference {ref[k]!r}, tolerance {tol[k]:.3g}"
    return None


def judge(col: Collector, case, *, allow_excluded=False, sub="estimate", model_cache=None, model=None, fail_input=None):
    """Run every predicate of the property on one case; failures are recorded on `col`. Returns class labels."""
    import pandas as pd
    import torch

    kind, dim, sd = case["kind"], case["dim"], case["sd"]
    rec = case if fail_input is None else fail_input  # what a failure records (replayable input)
    tsub, rsub = ("trajectory", "reference-time") if sub in ("estimate", "grid", "known") else (sub + ":trajectory", sub + ":reference-time")
    feats = list(case["features"])
    inds = case["inds"]
    tdf = case["to_dataframe"]
    request = case["request"]
    classes = [f"kind:{kind}", f"dim:{dim}", "sources" if sd else "no-sources", f"request:{request}",
               f"to_dataframe:{tdf}", f"ip-form:{case['ip_form']}", f"n-requested:{min(len(inds), 3)}{'+' if len(inds) > 3 else ''}"]
    requested_ids = {p["id"] for p in inds}
    if any(i not in requested_ids for i in case["ip_order"]):
        classes.append("ip:extra-individuals")
    has_scalar = request == "dict" and any(p["container"] in SCALAR_CONTAINERS for p in inds)
    if not allow_excluded:
        if has_scalar and tdf is True and EXCLUDE_SCALAR_AGE_DF:
            raise AssertionError("generator produced an excluded class: " + EXCL_SCALAR_DF)
        if kind == "joint" and (tdf is True or (request == "multiindex" and tdf is None)):
            raise AssertionError("generator produced an excluded class: " + EXCL_JOINT_DF)

    # ---- objects under test
    try:
        mkey = jhash([kind, feats, sd, case["noise"], case["params"]])
        if model is None and model_cache is not None:
            model = model_cache.get(mkey)
        if model is None:
            model = build_model(case)
            if model_cache is not None:
                model_cache[mkey] = model  # trajectories are computed on a clone of the state: the model is reusable
        ip = build_ip(case)
        A = None
        if sd > 0:
            A = model.state["mixing_matrix"].detach().to(torch.float64).numpy().copy()
            if A.shape != (sd, dim):
                col.fail(sub, "mixing-matrix-shape", rec, observed=A.shape, expected=(sd, dim))
                return classes
    except Exception as e:
        col.fail(sub, "unexpected-exception:build:" + exc_bucket(e), rec, observed=repr(e), expected="model with hand-made parameters is usable")
        return classes

    # ---- reference
    refs, tols = [], []
    for p in inds:
        r, t = ref_trajectory(kind, case["params"], A, p["xi"], p["tau"], p["sources"] if sd else [], p["ages"])
        refs.append(r)
        tols.append(t)
    n_cols = dim + (1 if kind == "joint" else 0)

    # ---- (1) estimate: layout + values
    if request == "dict":
        req = {p["id"]: make_container(p["ages"], p["container"]) for p in inds}
        for p in inds:
            classes.append("container:" + ("scalar" if p["container"] in SCALAR_CONTAINERS else p["container"]))
        pairs = [(i, j) for i, p in enumerate(inds) for j in range(len(p["ages"]))]
        ix = None
    else:
        ix, pairs = make_multiindex(case)
        req = ix
        classes.append("mi:build-" + case.get("mi_build", "tuples"))
        if case.get("mi_build") == "sliced":
            classes.append("mi:slice-" + case.get("mi_slice", "mask"))
            if len(ix.levels[list(ix.names).index("ID")]) > len(set(ix.get_level_values("ID"))):
                classes.append("multiindex:sliced-unused-levels")
                classes.append("multiindex:sliced:ip-" + ("whole-cohort" if any(i not in requested_ids for i in case["ip_order"]) else "requested-only"))
        if case.get("mi_int_time"):
            classes.append("mi:int-time")
        names_ = list(ix.names)
        classes.append("mi:levels-" + "-".join(names_))
        if names_.index("TIME") < names_.index("ID"):
            classes.append("multiindex:time-before-id")
        if len(names_) > 2:
            classes.append("multiindex:extra-level")
        keys = [(case["inds"][i]["id"], case["inds"][i]["ages"][j]) for i, j in pairs]
        if len(set(keys)) < len(keys):
            classes.append("mi:repeated-pair")
        if [i for i, _ in pairs] != sorted(i for i, _ in pairs):
            classes.append("mi:interleaved")
    expect_df = (tdf is True) or (tdf is None and request == "multiindex")
    try:
        out = model.estimate(req, ip, to_dataframe=tdf)
    except Exception as e:
        col.fail(sub, "unexpected-exception:estimate:" + exc_bucket(e), rec, observed=repr(e), expected="estimates for the requested ages")
        out = None
    if out is not None:
        _judge_layout(col, case, rec, sub, out, expect_df, ix, pairs, refs, tols, feats, n_cols, dim)

    # ---- (2) compute_individual_trajectory per individual (+ range, monotonicity)
    for i, p in enumerate(inds):
        cont = p["container"] if request == "dict" else "list"
        try:
            tr = model.compute_individual_trajectory(make_container(p["ages"], cont), ip_dict(p, case["ip_form"], sd))
        except Exception as e:
            col.fail(tsub, "unexpected-exception:trajectory:" + exc_bucket(e), rec, observed=repr(e), expected="a trajectory")
            continue
        n = len(p["ages"])
        if not isinstance(tr, torch.Tensor) or tuple(tr.shape) != (1, n, n_cols):
            col.fail(tsub, "trajectory-shape", rec, observed=getattr(tr, "shape", type(tr)), expected=(1, n, n_cols))
            continue
        est = tr[0, :, :dim].detach().to(torch.float64).numpy()
        msg = _cmp(est, refs[i], tols[i])
        if msg:
            col.fail(tsub, f"closed-form:{kind}", rec, observed=f"individual {p['id']!r}: {msg}", expected="documented closed form")
        if kind in LOGISTIC_KINDS:
            if not ((est >= 0.0) & (est <= 1.0)).all():
                col.fail(tsub, f"range:{kind}", rec, observed=f"min {est.min()!r} max {est.max()!r}", expected="values in [0, 1]")
            order = np.argsort(np.asarray(p["ages"], dtype=np.float64), kind="stable")
            srt = est[order]
            if n > 1 and not (np.diff(srt, axis=0) >= -MONO_SLACK).all():
                col.fail(tsub, f"monotone:{kind}", rec, observed=f"ages {sorted(p['ages'])}: {srt.tolist()}", expected="non-decreasing in age")

    # ---- (3) unshifted individual at its reference time
    want = ref_value_at_reference_time(kind, case["params"])
    if want is not None:
        p = inds[0]
        d0 = ip_dict(dict(p, sources=[0.0] * sd), case["ip_form"], sd)
        try:
            tr = model.compute_individual_trajectory([p["tau"]], d0)
            got = tr[0, 0, :dim].detach().to(torch.float64).numpy()
            if not (np.abs(got - want) <= ATOL + RTOL * np.abs(want)).all():
                col.fail(rsub, f"value-at-tau:{kind}", rec, observed=got.tolist(), expected=want.tolist())
        except Exception as e:
            col.fail(rsub, "unexpected-exception:trajectory:" + exc_bucket(e), rec, observed=repr(e), expected="1/(1+g)")
        classes.append("unshifted-at-tau")
        if p["tau"] <= 0:
            classes.append("unshifted-at-tau:non-positive")

    # ---- classes on ages
    for p in inds:
        a = p["ages"]
        if len(a) == 1:
            classes.append("ages:single")
        if list(a) != sorted(a):
            classes.append("ages:unsorted")
        if len(set(a)) < len(a):
            classes.append("ages:repeat")
        if any(abs(x - p["tau"]) > 200 for x in a):
            classes.append("ages:far")
        if any(x == p["tau"] for x in a):
            classes.append("ages:at-tau")
        if any(x <= 0 for x in a):
            classes.append("ages:non-positive")
            classes.append("ages:non-positive:" + ("index" if request == "multiindex" else ("scalar" if p["container"] in SCALAR_CONTAINERS else p["container"])))
        if any(x == 0 for x in a):
            classes.append("ages:zero")
        if p["tau"] <= 0:
            classes.append("tau:non-positive")
        if abs(p["xi"] - (case["params"].get("xi_mean", [0.0])[0])) > 2:
            classes.append("xi:extreme")
    classes = sorted(set(classes))
    return classes


def _judge_layout(col, case, rec, sub, out, expect_df, ix, pairs, refs, tols, feats, n_cols, dim):
    import pandas as pd

    inds = case["inds"]
    kind = case["kind"]
    if expect_df:
        if not isinstance(out, pd.DataFrame):
            col.fail(sub, "layout:not-a-dataframe", rec, observed=type(out).__name__, expected="DataFrame")
            return
        exp_keys = [(inds[i]["id"], inds[i]["ages"][j]) for i, j in pairs]
        if len(out) != len(exp_keys):
            col.fail(sub, "layout:row-count", rec, observed=f"{len(out)} rows: {list(out.index)[:12]}", expected=f"{len(exp_keys)} rows: {exp_keys[:12]}")
            return
        want_names = list(ix.names) if ix is not None else ["ID", "TIME"]
        if list(out.index.names) != want_names:
            col.fail(sub, "layout:index-names", rec, observed=list(out.index.names), expected=want_names)
            return
        got_keys = list(zip(out.index.get_level_values("ID"), out.index.get_level_values("TIME")))
        if any(k[0] != e[0] or not (k[1] == e[1]) for k, e in zip(got_keys, exp_keys)):
            col.fail(sub, "layout:index-order", rec, observed=got_keys[:12], expected=exp_keys[:12])
            return
        if ix is not None and not out.index.equals(ix):
            col.fail(sub, "layout:index-differs-from-input", rec, observed=list(out.index)[:12], expected=list(ix)[:12])
            return
        if list(out.columns) != feats:
            col.fail(sub, "layout:columns", rec, observed=list(out.columns), expected=feats)
            return
        vals = out.to_numpy(dtype=np.float64)
        ref = np.stack([refs[i][j] for i, j in pairs])
        tol = np.stack([tols[i][j] for i, j in pairs])
        msg = _cmp(vals, ref, tol)
        if msg:
            i, j = pairs[int(msg.split()[1])] if msg.startswith("row") else (0, 0)
            col.fail(sub, f"closed-form:{kind}", rec, observed=f"(ID, TIME) = ({inds[i]['id']!r}, {inds[i]['ages'][j]}): {msg}",
                     expected="row k holds the documented closed form at the k-th requested (ID, TIME)")
        return
    # dict layout
    if not isinstance(out, dict):
        col.fail(sub, "layout:not-a-dict", rec, observed=type(out).__name__, expected="dict")
        return
    want_ids = [p["id"] for p in inds]
    if sorted(out.keys()) != sorted(want_ids) or len(out) != len(want_ids):
        col.fail(sub, "layout:ids", rec, observed=list(out.keys()), expected=want_ids)
        return
    for i, p in enumerate(inds):
        arr = out[p["id"]]
        if ix is None:
            js = list(range(len(p["ages"])))
        else:  # rows of this individual in order of appearance in the index
            js = [j for ii, j in pairs if ii == i]
        if not isinstance(arr, np.ndarray) or arr.shape != (len(js), n_cols):
            col.fail(sub, "layout:array-shape", rec, observed=getattr(arr, "shape", type(arr).__name__), expected=(len(js), n_cols))
            return
        msg = _cmp(arr[:, :dim], refs[i][js], tols[i][js])
        if msg:
            col.fail(sub, f"closed-form:{kind}", rec, observed=f"individual {p['id']!r} ages {[p['ages'][j] for j in js]}: {msg}",
                     expected="row j holds the documented closed form at the j-th requested age")
            return


def is_nontrivial(case):
    if len(case["inds"]) < 2 or case["sd"] == 0:
        return False
    return any(list(p["ages"]) != sorted(p["ages"]) and len(set(p["ages"])) < len(p["ages"]) for p in case["inds"])


def body(col: Collector, case):
    for name in case.get("excluded", []):
        col.exclude(name)
    classes = judge(col, case)
    nt = is_nontrivial(case)
    if nt:
        classes.append("nontrivial")
    col.case(classes=classes, nontrivial=jhash(case) if nt else None,
             sample=dict(kind=case["kind"], dim=case["dim"], sd=case["sd"], request=case["request"], to_dataframe=case["to_dataframe"],
                         inds=[dict(id=p["id"], xi=p["xi"], tau=p["tau"], ages=p["ages"], container=p["container"]) for p in case["inds"]]))


# ------------------------------------------------------------------------------------------------
# engine H: Hypothesis cases
# ------------------------------------------------------------------------------------------------
FEATURE_NAMES = {
    "f": lambda j: f"f{j}",
    "words": lambda j: ["memory", "Putamen vol.", "score_3", "ünï côde"][j],
    "rev": lambda j: ["z", "y", "b", "a"][j],
}


def _params(draw, kind, dim, sd, noise):
    f = gen.f32
    # reference times are mostly ages (40-90) and sometimes counted from onset / baseline (around or below 0)
    tau_mean = draw(f(-30, 5)) if draw(st.integers(0, 5)) == 0 else draw(f(40, 90))
    p = dict(tau_mean=[tau_mean], tau_std=[draw(f(1, 15))], xi_std=[draw(f(0.05, 1.5))])
    n_noise = 1 if ((noise == "gaussian-scalar" and kind != "joint") or (kind == "joint" and (dim == 1 or sd == 0))) else dim
    p["noise_std"] = [draw(f(0.01, 0.5)) for _ in range(n_noise)]
    if kind in ("logistic", "joint"):
        p["log_g_mean"] = [draw(f(-3, 3)) for _ in range(dim)]
        p["log_v0_mean"] = [draw(f(-6, -1)) for _ in range(dim)]
    elif kind == "linear":
        p["g_mean"] = [draw(f(-3, 3)) for _ in range(dim)]
        p["log_v0_mean"] = [draw(f(-6, -1)) for _ in range(dim)]
    else:
        p["log_g_mean"] = [draw(f(-3, 3))]
        p["xi_mean"] = [draw(f(-6, -1))]
        p["deltas_mean"] = [draw(f(-3, 3)) for _ in range(dim - 1)]
    if sd > 0:
        p["betas_mean"] = [[draw(f(-1, 1)) for _ in range(sd)] for _ in range(dim - 1)]
    if kind == "joint":
        p["n_log_nu_mean"] = [draw(f(-3.9, 0))]
        p["log_rho_mean"] = [draw(f(-0.69, 1.6))]
        if sd > 0:
            p["zeta_mean"] = [[draw(f(-1, 1))] for _ in range(sd)]
    return p


def _ages(draw, tau):
    f = gen.f32
    mode = draw(st.sampled_from(["single", "few", "few", "many", "far"]))
    n = 1 if mode == "single" else draw(st.integers(2, 4 if mode == "few" else 8))
    ages = []
    for _ in range(n):
        c = draw(st.sampled_from(["near", "near", "near", "int", "tau", "far", "zero", "neg"] if mode != "far" else ["far", "far", "neg", "near"]))
        if c == "near":
            a = tau + draw(f(-40, 40))
        elif c == "int":
            a = float(round(tau + draw(f(-30, 30))))
        elif c == "tau":
            a = tau
        elif c == "zero":
            a = 0.0
        elif c == "neg":
            a = -draw(f(0, 10000))
        else:
            a = draw(f(0, 10000))
        ages.append(r32(a) + 0.0)  # + 0.0: no negative zero
    if n >= 2 and draw(st.integers(0, 2)) == 0:  # a repeated age
        k = draw(st.integers(0, n - 1))
        ages.insert(draw(st.integers(0, n)), ages[k])
    arrangement = draw(st.sampled_from(["sorted", "reversed", "shuffled", "shuffled", "as-drawn"]))
    if arrangement == "sorted":
        ages = sorted(ages)
    elif arrangement == "reversed":
        ages = sorted(ages, reverse=True)
    elif arrangement == "shuffled":
        ages = list(draw(st.permutations(ages)))
    return ages


def _person(draw, id_, params, sd):
    f = gen.f32
    xi0 = params.get("xi_mean", [0.0])[0]
    dxi = draw(f(-5, 5)) if draw(st.integers(0, 5)) == 0 else draw(f(-2, 2))
    xi = r32(xi0 + dxi)
    tau = r32(params["tau_mean"][0] + draw(f(-3, 3)) * params["tau_std"][0])
    if sd and draw(st.integers(0, 6)) == 0:
        sources = [0.0] * sd
    else:
        sources = [draw(f(-3, 3)) for _ in range(sd)]
    return dict(id=id_, xi=xi, tau=tau, sources=sources)


@st.composite
def case_strategy(draw, kinds=("logistic", "linear", "shared_speed_logistic", "joint")):
    kind = draw(st.sampled_from(list(kinds)))
    dim = draw(st.integers(2 if kind == "shared_speed_logistic" else 1, 4))
    sd = 0 if dim == 1 else draw(st.sampled_from([0] + list(range(1, dim)) * 2))
    if kind == "joint" and dim >= 2 and sd == 0:
        sd = 1  # joint with dimension >= 2 and no sources is not constructible
    noise = draw(st.sampled_from(["gaussian-scalar", "gaussian-diagonal"]))
    names = FEATURE_NAMES[draw(st.sampled_from(sorted(FEATURE_NAMES)))]
    params = _params(draw, kind, dim, sd, noise)
    n_req = draw(st.sampled_from([1, 2, 2, 3, 3, 4, 5]))
    request = draw(st.sampled_from(["dict", "multiindex"]))
    mi_build = draw(st.sampled_from(["tuples", "arrays", "frame", "sliced", "sliced"])) if request == "multiindex" else None
    n_extra = draw(st.sampled_from([1, 2, 3])) if mi_build == "sliced" else draw(st.sampled_from([0, 0, 1, 2]))
    id_kind = draw(st.sampled_from(["s", "digits", "zeros", "unicode", "words"]))
    all_ids = [str(gen.ID_ALPHABETS[id_kind](i)) for i in range(n_req + n_extra)]
    all_ids = list(draw(st.permutations(all_ids)))
    inds = [_person(draw, id_, params, sd) for id_ in all_ids[:n_req]]
    extra = [_person(draw, id_, params, sd) for id_ in all_ids[n_req:]]
    tdf = draw(st.sampled_from([None, True, False]))
    excluded = []
    if kind == "joint" and (tdf is True or (request == "multiindex" and tdf is None)):
        excluded.append(EXCL_JOINT_DF)
        tdf = False
    for p in inds:
        p["ages"] = _ages(draw, p["tau"])
        if request == "dict":
            all_int = all(float(a).is_integer() for a in p["ages"])
            opts = ["list", "list", "tuple", "ndarray64", "ndarray32"]
            if all_int:
                opts += ["ndarray_int", "list_int"]
            if len(p["ages"]) == 1:
                opts += ["scalar", "scalar", "scalar_np"] + (["scalar_int"] if all_int else [])
            c = draw(st.sampled_from(opts))
            if c in SCALAR_CONTAINERS and tdf is True and EXCLUDE_SCALAR_AGE_DF:
                excluded.append(EXCL_SCALAR_DF)
                c = "list"
            p["container"] = c
        else:
            p["container"] = "index"
    case = dict(kind=kind, dim=dim, sd=sd, noise=noise, features=[names(j) for j in range(dim)], params=params,
                ip_form=draw(st.sampled_from(["scalar", "list"])), inds=inds, extra_inds=extra,
                ip_order=list(draw(st.permutations(all_ids))), request=request, to_dataframe=tdf, excluded=excluded)
    if request == "multiindex":
        total = sum(len(p["ages"]) for p in inds)
        how = draw(st.sampled_from(["grouped", "shuffled", "shuffled"]))
        case["mi_order"] = list(range(total)) if how == "grouped" else list(draw(st.permutations(list(range(total)))))
        case["mi_build"] = mi_build
        case["mi_int_time"] = all(float(a).is_integer() for p in inds for a in p["ages"]) and draw(st.booleans())
        lv = draw(st.sampled_from([None, None, None, ["TIME", "ID"], ["TIME", "ID"]] + [list(q) for q in itertools.permutations(["ID", "TIME", "SPLIT"])]))
        if lv is not None:
            case["mi_levels"] = lv
            if "SPLIT" in lv:
                case["mi_split"] = [draw(st.sampled_from(["train", "test"])) for _ in range(total)]
        if mi_build == "sliced":
            # rows of the not-requested individuals of the larger cohort, inserted at drawn positions of the request
            ins = []
            for q in extra:
                for _ in range(draw(st.integers(1, 3))):
                    a = float(round(q["tau"] + draw(gen.f32(-30, 30)))) if case["mi_int_time"] else r32(q["tau"] + draw(gen.f32(-30, 30)))
                    ins.append([draw(st.integers(0, total)), q["id"], a])
            case["mi_insert"] = ins
            case["mi_slice"] = draw(st.sampled_from(["mask", "positional", "frame"]))
            if draw(st.booleans()):  # the individual parameters hold only the requested individuals
                case["ip_order"] = [i for i in case["ip_order"] if i in {p["id"] for p in inds}]
    return case


def shard_sampled(seed: int, n_examples: int, kinds, shard: int = 0, n_updates: int = 0):
    env.import_leaspy()
    col = Collector(PROP, f"H-{'+'.join(k[:3] for k in kinds)}-{shard}")
    drive(col, case_strategy(tuple(kinds)), body, n_examples=n_examples, seed=shard_seed(seed, shard), sub_check="estimate")
    if n_updates:
        drive(col, update_case_strategy(tuple(kinds)), body_updates, n_examples=n_updates, seed=shard_seed(seed, shard, 1), sub_check="updates",
              known_buckets={f["bucket"] for f in col.failures})
    return col


# ------------------------------------------------------------------------------------------------
# engine G: deterministic grid over kinds x containers x layouts
# ------------------------------------------------------------------------------------------------
GRID_SETTINGS = {
    "logistic": [(1, 0), (3, 0), (3, 2)],
    "linear": [(1, 0), (2, 1), (4, 3)],
    "shared_speed_logistic": [(2, 0), (2, 1), (4, 2)],
    "joint": [(1, 0), (2, 1), (3, 2)],
}


def grid_params(kind, dim, sd, shift=0):
    v = lambda k, n, lo, hi: [r32(lo + (hi - lo) * ((7 * i + 3 * k + shift) % 11) / 10.0) for i in range(n)]
    p = dict(tau_mean=[r32(68.5)], tau_std=[r32(7.25)], xi_std=[r32(0.5)])
    p["noise_std"] = [r32(0.1)] * (1 if (kind == "joint" and (dim == 1 or sd == 0)) else dim)
    if kind in ("logistic", "joint"):
        p["log_g_mean"] = v(1, dim, -2, 2)
        p["log_v0_mean"] = v(2, dim, -5, -2)
    elif kind == "linear":
        p["g_mean"] = v(1, dim, -1, 2)
        p["log_v0_mean"] = v(2, dim, -5, -2)
    else:
        p["log_g_mean"] = [r32(0.75)]
        p["xi_mean"] = [r32(-3.25)]
        p["deltas_mean"] = v(3, dim - 1, -2, 2)
    if sd:
        p["betas_mean"] = [v(4 + r, sd, -1, 1) for r in range(dim - 1)]
    if kind == "joint":
        p["n_log_nu_mean"] = [r32(-4.0)]
        p["log_rho_mean"] = [r32(0.5)]
        if sd:
            p["zeta_mean"] = [[r32(0.25 - 0.5 * (k % 2))] for k in range(sd)]
    return p


def grid_cases(kind):
    for dim, sd in GRID_SETTINGS[kind]:
        params = grid_params(kind, dim, sd)
        xi0 = params.get("xi_mean", [0.0])[0]
        src = lambda k: [r32(((-1) ** (i + k)) * (0.5 + 0.75 * i)) for i in range(sd)]
        base = [
            dict(id="p-10", xi=r32(xi0 + 0.5), tau=r32(71.5), sources=src(0), ages=[82.0, 60.0, 75.0, 60.0]),
            dict(id="p-02", xi=r32(xi0 - 1.25), tau=r32(-4.0), sources=[0.0] * sd, ages=[-4.0]),  # time counted from onset: tau <= 0
            dict(id="a", xi=r32(xi0 + 2.0), tau=r32(80.25), sources=src(1), ages=[90.0, 3000.0, 80.25, -12.5, 0.0]),
        ]
        extra = [dict(id="b", xi=r32(xi0), tau=r32(70.0), sources=src(2))]
        feats = [f"ft {j}" for j in range(dim)][::-1]
        common = dict(kind=kind, dim=dim, sd=sd, noise="gaussian-diagonal", features=feats, params=params, extra_inds=extra,
                      ip_order=["a", "b", "p-02", "p-10"], excluded=[])
        for ip_form in ("scalar", "list"):
            for tdf in (None, True, False):
                # dict requests: one container kind for the multi-age individuals, each scalar/list form for the single-age one
                for c_multi, c_single in itertools.product(("list", "tuple", "ndarray64", "ndarray32", "ndarray_int", "list_int"),
                                                           ("list", "scalar", "scalar_int", "scalar_np")):
                    if ip_form == "list" and c_multi not in ("list", "ndarray64"):
                        continue  # the form of the individual parameters is independent of the age container: keep the grid small
                    case = dict(common, ip_form=ip_form, request="dict", to_dataframe=tdf)
                    inds = []
                    for p in base:
                        q = dict(p)
                        if c_multi in INT_CONTAINERS and p["id"] == "a":
                            q["ages"] = [90.0, 3000.0, 80.0, -12.0, 0.0]
                        q["container"] = c_single if len(p["ages"]) == 1 else c_multi
                        inds.append(q)
                    case["inds"] = inds
                    yield case
                builds = ("tuples", "arrays", "frame", "sliced:mask:cohort", "sliced:positional:requested", "sliced:frame:requested", "sliced:mask:requested")
                for build, order, int_time in itertools.product(builds, ("grouped", "interleaved"), (False, True)):
                    if ip_form == "list" and build != "tuples":
                        continue
                    case = dict(common, ip_form=ip_form, request="multiindex", to_dataframe=tdf, mi_build=build.split(":")[0], mi_int_time=int_time)
                    if build.startswith("sliced"):
                        _, case["mi_slice"], holder = build.split(":")
                        case["mi_insert"] = [[0, "b", 70.0], [3, "b", 71.0], [3, "zz", 64.0], [10, "b", -1.0]]
                        if holder == "requested":
                            case["ip_order"] = ["a", "p-02", "p-10"]
                        else:  # the individual parameters know every individual of the larger cohort
                            case["mi_insert"] = [r for r in case["mi_insert"] if r[1] == "b"]
                    inds = [dict(p, container="index") for p in base]
                    if int_time:
                        inds[2] = dict(inds[2], ages=[90.0, 3000.0, 80.0, -12.0, 0.0])
                    case["inds"] = inds
                    total = sum(len(p["ages"]) for p in inds)
                    case["mi_order"] = list(range(total)) if order == "grouped" else [(3 * k + 1) % total for k in range(total)]  # total = 10
                    yield case
                    if order == "interleaved" and not int_time and build in ("tuples", "frame", "sliced:mask:cohort", "sliced:positional:requested"):
                        for lv in [["TIME", "ID"]] + [list(q) for q in itertools.permutations(["ID", "TIME", "SPLIT"])]:
                            yield dict(case, mi_levels=lv, mi_split=[("train", "test", "test")[k % 3] for k in range(total)])


def _grid_excluded(case):
    """The two recorded defect classes are removed from the grid by construction (and counted)."""
    if case["kind"] == "joint" and (case["to_dataframe"] is True or (case["request"] == "multiindex" and case["to_dataframe"] is None)):
        return EXCL_JOINT_DF
    if EXCLUDE_SCALAR_AGE_DF and case["request"] == "dict" and case["to_dataframe"] is True and any(p["container"] in SCALAR_CONTAINERS for p in case["inds"]):
        return EXCL_SCALAR_DF
    return None


def shard_grid(kind: str, shard: int = 0):
    env.import_leaspy()
    col = Collector(PROP, f"G-{kind}")
    n = 0
    cache = {}
    for case in grid_cases(kind):
        why = _grid_excluded(case)
        if why:
            col.exclude(why)
            continue
        classes = judge(col, case, sub="grid", model_cache=cache)
        nt = is_nontrivial(case)
        col.case(classes=classes + ["engine:grid"] + (["nontrivial"] if nt else []), nontrivial=jhash(case) if nt else None, sample=None)
        n += 1
    col.extra[f"grid_cases_{kind}"] = n
    for case in grid_update_cases(kind):
        classes = judge_updates(col, case, sub="grid-updates")
        col.case(classes=classes + ["engine:grid"], nontrivial=jhash(case), sample=None)
    if kind == "logistic":
        repros = [("joint-dataframe", repro_joint_dataframe)]
        if EXCLUDE_SCALAR_AGE_DF:  # otherwise the class is part of the grid and judged there
            repros.insert(0, ("scalar-age-dataframe", repro_scalar_age_dataframe))
        for name, fn in repros:
            fails = fn()
            col.cls(f"recorded-defect:{name}:" + ("still-present" if fails else "no-longer-reproduces"))
            col.notes.append(f"reproducer {name}: " + (fails[0]["bucket"] if fails else "no longer reproduces"))
    return col



# ------------------------------------------------------------------------------------------------
# parameter updates on ONE model object: estimates must follow the CURRENT parameters
# ------------------------------------------------------------------------------------------------
TRAJECTORY_KEYS = ("log_g_mean", "log_v0_mean", "g_mean", "deltas_mean", "betas_mean")


def apply_update(model, upd):
    """Change the parameters of an already usable model in place, the two ways leaspy itself does it:
    'load'  -> model.load_parameters(full parameter set) (StatefulModel.load_parameters: "Instantiate or update");
    'state' -> assign model parameters through model.state with auto-fork off, then reset the population latent variables to
               their prior mode (what StatefulModel.initialize and load_parameters do internally)."""
    import torch

    from leaspy.variables.specs import LatentVariableInitType

    if upd["how"] == "load":
        model.load_parameters(dict(upd["params"]))
        return
    st_ = model.state
    with st_.auto_fork(None):
        for k, v in upd["params"].items():
            st_[k] = torch.tensor(v, dtype=torch.float32).view(st_.dag[k].shape)
        st_.put_population_latent_variables(LatentVariableInitType.PRIOR_MODE)


def _variants(case):
    """The two requests (dict layout, MultiIndex layout) repeated after every update."""
    d = dict(case, request="dict", to_dataframe=case["tdf_dict"], inds=[dict(p, container=p["container_dict"]) for p in case["inds"]])
    m = dict(case, request="multiindex", to_dataframe=case["tdf_mi"], inds=[dict(p, container="index") for p in case["inds"]])
    return d, m


def judge_updates(col: Collector, case, *, sub="updates", allow_excluded=False):
    """case = a single-step case + tdf_dict/tdf_mi/container_dict/mi_* fields + updates=[{how, params}, ...].
    The same two requests are judged against the closed form of the current parameters before the first and after every update."""
    classes = set()
    current = dict(case["params"])
    try:
        model = build_model(case)
    except Exception as e:
        col.fail(sub, "unexpected-exception:build:" + exc_bucket(e), case, observed=repr(e), expected="model with hand-made parameters is usable")
        return ["updates:case"]
    steps = 0
    for k in range(len(case["updates"]) + 1):
        if k > 0:
            upd = case["updates"][k - 1]
            try:
                apply_update(model, upd)
            except Exception as e:
                col.fail(sub, f"unexpected-exception:update-{upd['how']}:" + exc_bucket(e), dict(case, failed_at_step=k), observed=repr(e),
                         expected="parameters of an existing model can be updated")
                break
            current = dict(current, **upd["params"])
            classes.add("updates:" + upd["how"])
            if any(current[q] != case["params"][q] for q in TRAJECTORY_KEYS if q in current):
                classes.add("updates:trajectory-parameters-changed")
        n_before = col.n_failures()
        for v in _variants(dict(case, params=current)):
            cl = judge(col, v, sub=sub, model=model, fail_input=dict(case, failed_at_step=k), allow_excluded=allow_excluded)
            classes.update(c for c in cl if c.startswith(("kind:", "sources", "no-sources", "request:", "mi:repeated-pair")))
            steps += 1
        if col.n_failures() > n_before:
            break  # later steps would repeat the same root cause
    col.extra["update_estimates_judged"] = col.extra.get("update_estimates_judged", 0) + steps
    classes.add("updates:case")
    classes.add(f"updates:n-updates-{len(case['updates'])}")
    return sorted(classes)


def body_updates(col: Collector, case):
    for name in case.get("excluded", []):
        col.exclude(name)
    classes = judge_updates(col, case)
    nt = is_nontrivial(case) and "updates:trajectory-parameters-changed" in classes
    col.case(classes=classes + (["updates:nontrivial"] if nt else []), nontrivial=jhash(case) if nt else None,
             sample=dict(kind=case["kind"], dim=case["dim"], sd=case["sd"], updates=[dict(how=u["how"], keys=sorted(u["params"])) for u in case["updates"]],
                         n_individuals=len(case["inds"])))


@st.composite
def update_case_strategy(draw, kinds=("logistic", "linear", "shared_speed_logistic", "joint")):
    case = draw(case_strategy(kinds))
    kind, dim, sd = case["kind"], case["dim"], case["sd"]
    for p in case["inds"]:
        c = p["container"]
        if c == "index":
            c = draw(st.sampled_from(["list", "tuple", "ndarray64"]))
        p["container_dict"] = c
    has_scalar = any(p["container_dict"] in SCALAR_CONTAINERS for p in case["inds"])
    if kind == "joint":
        case["tdf_dict"], case["tdf_mi"] = draw(st.sampled_from([None, False])), False
    else:
        case["tdf_dict"] = draw(st.sampled_from([None, False] if (has_scalar and EXCLUDE_SCALAR_AGE_DF) else [None, True, False]))
        case["tdf_mi"] = draw(st.sampled_from([None, True, False]))
    if "mi_order" not in case:
        total = sum(len(p["ages"]) for p in case["inds"])
        case["mi_order"] = list(draw(st.permutations(list(range(total)))))
        case["mi_build"] = draw(st.sampled_from(["tuples", "arrays", "frame"]))
        case["mi_int_time"] = False
        lv = draw(st.sampled_from([None, None, ["TIME", "ID"]] + [list(q) for q in itertools.permutations(["ID", "TIME", "SPLIT"])]))
        if lv is not None:
            case["mi_levels"] = lv
            case["mi_split"] = [draw(st.sampled_from(["train", "test"])) for _ in range(total)]
    updates = []
    for _ in range(draw(st.integers(1, 3))):
        new = _params(draw, kind, dim, sd, case["noise"])
        how = draw(st.sampled_from(["load", "state"]))
        if how == "state":
            keys = [q for q in TRAJECTORY_KEYS if q in new]
            chosen = [q for q in keys if draw(st.booleans())] or [keys[draw(st.integers(0, len(keys) - 1))]]
            new = {q: new[q] for q in chosen}
        updates.append(dict(how=how, params=new))
    case["updates"] = updates
    return case


def grid_update_cases(kind):
    for dim, sd in GRID_SETTINGS[kind]:
        base = next(c for c in grid_cases(kind) if c["dim"] == dim and c["sd"] == sd and c["request"] == "multiindex"
                    and c["mi_order"] != sorted(c["mi_order"]) and not c["mi_int_time"])
        for hows in (("load",), ("state",), ("load", "state", "load"), ("state", "load", "state")):
            case = dict(base, tdf_dict=None, tdf_mi=False if kind == "joint" else None,
                        inds=[dict(p, container_dict="list") for p in base["inds"]])
            ups = []
            for n, how in enumerate(hows):
                new = grid_params(kind, dim, sd, shift=2 * n + 1)
                if how == "state":
                    new = {q: new[q] for q in TRAJECTORY_KEYS if q in new}
                ups.append(dict(how=how, params=new))
            case["updates"] = ups
            yield case

# ------------------------------------------------------------------------------------------------
# reproducers of the two defect classes excluded by construction (not judged in the search; usable as
# known_findings.json reproducers: sub_check "known", input = the dict below)
# ------------------------------------------------------------------------------------------------
def _repro_case(kind, dim, sd, container, tdf, request="dict"):
    case = next(iter(grid_cases(kind)))
    for c in grid_cases(kind):
        if c["dim"] == dim and c["sd"] == sd and c["request"] == request and c["to_dataframe"] is tdf and \
                (request != "dict" or (c["inds"][1]["container"] == container and c["inds"][0]["container"] == "list")):
            case = c
            break
    return case


def repro_scalar_age_dataframe():
    """estimate({'id': 64.0}, ip, to_dataframe=True) -> TypeError from pandas.Index (base.py: index=timepoints[subj_id])."""
    col = Collector(PROP, "repro")
    judge(col, _repro_case("logistic", 3, 2, "scalar", True), allow_excluded=True, sub="known")
    return col.failures


def repro_joint_dataframe():
    """joint model, DataFrame output -> ValueError: dimension + nb_events columns labelled with `features`."""
    col = Collector(PROP, "repro")
    judge(col, _repro_case("joint", 2, 1, "list", True), allow_excluded=True, sub="known")
    return col.failures


# ------------------------------------------------------------------------------------------------
def shards(tier: str, seed: int):
    kind_sets = [("logistic",), ("linear",), ("shared_speed_logistic",), ("logistic", "joint"),
                 ("linear", "shared_speed_logistic"), ("logistic", "linear", "shared_speed_logistic", "joint"),
                 ("joint", "shared_speed_logistic"), ("logistic", "linear")]
    n_ex, n_up = (360, 60) if tier == "quick" else (9000, 1500)
    specs = [(MOD, "shard_sampled", dict(seed=seed, n_examples=n_ex, kinds=kind_sets[s % len(kind_sets)], shard=s, n_updates=n_up)) for s in range(16)]
    for kind in GRID_SETTINGS:
        specs.append((MOD, "shard_grid", dict(kind=kind)))
    return specs


def replay(sub_check: str, inp):
    env.import_leaspy()
    col = Collector(PROP, "replay")
    if "updates" in inp:
        judge_updates(col, inp, sub="grid-updates" if sub_check.startswith("grid-updates") else "updates")
        return col.failures
    judge(col, inp, allow_excluded=(sub_check == "known"), sub=sub_check if sub_check in ("grid", "known") else "estimate")
    return col.failures
