"""C14 - data ingestion yields one canonical tensor form and rejects malformed input.

Engines: (A) Hypothesis tables for the four layouts (visit, joint, covariate, event) x identifier type x row permutation
x missing-data pattern x table form (ID/TIME as columns or as index), judged against an independent pure-Python
reference reader; (B) the same tables with exactly one malformation injected (Hypothesis-drawn location) plus an
exhaustive sweep kind x location on small fixed tables; (C) reproducers of the recorded defect classes (not judged).
Oracles: reference reader (first-appearance order, ages sorted, float32 cast, mask, counters, events, covariates),
metamorphic row-order independence, to_pandas round trip compared per individual keyed by id, rejection predicate
(LeaspyDataInputError and nothing else), caller frame equal to its deep copy in every case.
"""
from __future__ import annotations

import copy
import math
import os

from hypothesis import strategies as st

from vf.core import env
from vf.core.gen import ID_ALPHABETS
from vf.core.harness import Collector, drive, exc_bucket, jhash, shard_seed

PROP = "C14"
MOD = "vf.checks.c14"
RULE = (
    "Tables = Hypothesis draws for the layouts visit/joint/covariate/event: 1-8 (quick) / 1-12 (thorough) individuals, 1-6/8 visits, "
    "1-3/4 features, ages in [20,100] with <=6 decimals and >=1e-3 apart per individual (whole years incl. integer dtype, milli, micro), "
    "values on a 1e-5 grid or arbitrary doubles in [-1e6,1e6], missing-data modes complete/sparse/feature missing for one individual/"
    "all-NaN visit/individual with only all-NaN visits/empty column, identifier kinds s<i>/digits/leading zeros/unicode/integers/words/"
    "categorical (half of them declaring unused categories) assigned through a drawn permutation (first appearance != sorted order), drawn row permutation (+ a second one for the "
    "metamorphic check), ID/TIME as columns, as MultiIndex or ID as index, shuffled row labels, event/covariate columns before or after "
    "the features; joint: 1-3 competing events, event time >= last visit or censored before it; covariate: 1-2 integer covariates "
    "(int or float dtype). Malformed = one of the listed kinds injected at a drawn location into such a table, plus an exhaustive sweep "
    "kind x location on fixed 3-individual tables. Non-trivial (valid, visit-type) = >=3 individuals interleaved in the input, some "
    "individual's ages unsorted in the input and >=1 NaN cell; (event-only) >=3 individuals not in sorted-id order; (malformed) the "
    "base table has >=2 individuals and >=3 rows. Distinct by (layout, form, rows[, malformation])."
)
ASSUMPTIONS = [
    "Reference reader is pure Python on the generated rows: individuals in order of first appearance among the rows kept, visits sorted by age (rounded to 6 digits), values cast to float32, mask 1 exactly on non-NaN cells of real visits.",
    "Rows 'full of NaN (except index)' are dropped as documented for drop_full_nan=True: in the visit layout a visit whose features are all NaN disappears (and an individual with only such visits disappears); in the joint and covariate layouts the event/covariate columns are never NaN in a valid table, so every visit is kept with a zero mask.",
    "Event-only layout: the statement speaks of tables of visits; asserted are one row per individual, per-individual event content, row-order independence and the round trip, not first-appearance order.",
    "Only real (non-padded) entries of timepoints/values are compared; padded and missing entries are judged through the mask only. Ages and event times are compared within 1 float32 ulp of the 6-digit rounded input (the statement only promises single precision); values bit-exact (float32 cast) on present cells.",
    "Round trip: Dataset.to_pandas() re-ingested with the same layout, compared per individual keyed by id (to_pandas documents a sorted index); ages and event times within 4 float32 ulps, everything else exact; the order of the re-ingested individuals must be the first-appearance order of the to_pandas table.",
    "A NaN event time / event code on only some of the rows of an individual (joint layout) is a malformation (missing / inconsistent event): it must be refused, not filled from the individual's other rows; not applicable to the event-only layout (one row per individual). Malformed input must raise LeaspyDataInputError (subclass check); any other exception type or acceptance is a violation. The caller's DataFrame must `equals` its deep copy (values, dtypes, index, index names, columns) after every call, accepted or refused.",
    "Defect classes D1-D4 found by this check (see EXCLUDED_DEFECTS) are part of the search by default (their repairs are fix: commits); VF_C14_INCLUDE=none|D1,.. excludes/neutralises them again (counted with col.exclude). Their reproducers run in every tier and their outcome is reported in the evidence notes.",
]

# Defect classes found by this check on the tree before its C14 `fix:` commits (reproducers at the end of the module).
# A class listed in INCLUDED is searched like everything else (its repair is expected in the tree under test); a class not
# listed is excluded by construction / neutralised, counted with col.exclude and only re-run by its reproducer. Override for trial runs: VF_C14_INCLUDE=all | none | D1,D3 ...
DEFAULT_INCLUDED = ("D1", "D2", "D3", "D4")  # repairs: /verif/notes/fixes/C14-D1..D4.patch (fix: commits in /repo)


def _included():
    v = os.environ.get("VF_C14_INCLUDE")
    if v is None or not v.strip():
        return tuple(DEFAULT_INCLUDED)
    v = v.strip()
    if v.lower() == "all":
        return ("D1", "D2", "D3", "D4")
    if v.lower() == "none":
        return ()
    return tuple(x.strip().upper() for x in v.split(",") if x.strip())


INCLUDED = _included()
NEUTRALISE_D1 = "D1" not in INCLUDED  # flatten the 1-tuple covariate labels of to_pandas() before re-ingestion
EXCLUDE_D2 = "D2" not in INCLUDED  # do not inject the malformation kind event-code-nan
EXCLUDE_D3 = "D3" not in INCLUDED  # do not inject the malformation kind event-code-negative
EXCLUDE_D4 = "D4" not in INCLUDED  # no categorical ids with a category left without rows (dropped individual / unused category)

EXCLUDED_DEFECTS = {
    "D1": "covariate layout: Dataset.to_pandas() labels covariate columns with 1-tuples (('c1',)), re-ingestion raises KeyError; when excluded: neutralised by flattening those labels",
    "D2": "event code NaN raises pandas IntCastingNaNError instead of LeaspyDataInputError (event and joint layouts); when excluded: kind not injected",
    "D3": "negative event code raises IndexError (nb_events=1) or is silently accepted as another event (nb_events>=2); when excluded: kind not injected",
    "D4": "categorical ID column with a category left without rows (unused category, or all its visits dropped as full-NaN) yields phantom individuals without visits (visit layout) or a spurious refusal (event/joint/covariate layouts); when excluded: class not generated",
}

ID_KINDS = ("s", "digits", "zeros", "unicode", "int", "words", "categorical")
FEATURE_POOL = ["f0", "abc", "Z", "y_1"]
COV_POOL = [["c1", "c2"], ["sex", "apoe 4"]]
VISIT_LAYOUTS = ("visit", "joint", "covariate")

MAL_VISIT = ["dup-exact", "dup-rounded", "age-nan", "age-inf", "age-neginf", "age-string", "value-string", "value-inf", "value-neginf",
             "no-id-column", "no-time-column"]
# multi-cell infinities (two drawn rows): +inf and -inf in the same feature column (their sum is NaN, not inf), optionally with
# a further NaN cell in that column; controls: two infinities of the same sign in one column, both signs in different columns
MAL_MULTI_INF = ["value-inf-mixed-signs", "value-inf-several-same-sign", "value-inf-both-signs-different-columns"]
MAL_ID = ["id-nan", "id-empty", "id-negative", "id-float", "id-mixed"]
MAL_EVENT_COMMON = (["event-time-zero", "event-time-negative", "event-time-nan", "event-time-inf", "event-code-fraction"]
                    + ([] if EXCLUDE_D2 else ["event-code-nan"]) + ([] if EXCLUDE_D3 else ["event-code-negative"]))
# *-nan-partial: the cell is NaN on a strict, non-empty subset of the rows of an individual with >= 2 rows (must not be filled
# silently from the individual's other rows); the code variant belongs to the NaN-event-code class D2
MAL_JOINT = (["event-disagree-time", "event-disagree-code", "event-before-last-visit-observed", "event-time-nan-partial"]
             + ([] if EXCLUDE_D2 else ["event-code-nan-partial"]))
MAL_EVENT_ONLY = ["event-duplicate-id", "no-id-column"]
MAL_COV = ["cov-nan", "cov-fraction", "cov-varying", "cov-constant"]
ALL_MAL = sorted(set(MAL_VISIT + MAL_MULTI_INF + MAL_ID + MAL_EVENT_COMMON + MAL_JOINT + MAL_EVENT_ONLY + MAL_COV))

REQUIRED_CLASSES = {
    "layout:visit": 0.08, "layout:joint": 0.08, "layout:covariate": 0.08, "layout:event": 0.02,
    "valid": 0.2, "malformed": 0.15, "nontrivial": 0.1, "nontrivial-valid": 0.03,
    "interleaved": 0.05, "unsorted-ages": 0.05, "has-nan": 0.08, "all-nan-visit": 30, "feature-missing-for-individual": 30,
    "single-visit-individual": 100, "dropped-individual": 5, "roundtrip-reorders": 100, "form:index": 100, "form:id-index": 50,
    "id:int": 50, "id:categorical": 50, "id:unicode": 50, "ages:micro": 100, "ages:int-dtype": 20, "censored-before-last-visit": 10,
    "competing-events": 30,
    **{f"mal:{k}": 3 for k in ALL_MAL},
    "mal:event-time-nan-partial": 10,
    **{f"mal:{k}": 30 for k in MAL_MULTI_INF},
    **({} if EXCLUDE_D2 else {"mal:event-code-nan-partial": 10}),
    **({} if EXCLUDE_D4 else {"categorical-unused-category": 20, "categorical-dropped-individual": 3}),
}


# ------------------------------------------------------------------------------------------------
# generators (plain JSON cases)
# ------------------------------------------------------------------------------------------------
def make_id(kind, i):
    return ID_ALPHABETS["s" if kind == "categorical" else kind](i)


@st.composite
def table(draw, layout, *, max_ind=8, max_vis=6, max_feat=3, for_mal=False):
    id_kind = draw(st.sampled_from(ID_KINDS))
    n_lo = 2 if layout == "covariate" else 1
    n = draw(st.one_of(st.integers(n_lo, max_ind), st.integers(min(3, max_ind), max_ind)))
    id_perm = draw(st.permutations(list(range(n))))
    ids = [make_id(id_kind, id_perm[i]) for i in range(n)]
    case = dict(layout=layout, id_kind=id_kind, mal=None)
    if id_kind == "categorical":
        case["cat_unused"] = draw(st.booleans())  # declare categories without rows (honoured only when class D4 is searched)

    if layout == "event":
        codes = [draw(st.integers(0, 3)) for _ in range(n)]
        if max(codes) == 0:
            codes[draw(st.integers(0, n - 1))] = draw(st.integers(1, 3))
        rows = [[ids[i], draw(st.integers(1, 120_000_000)) / 1e6, codes[i]] for i in range(n)]
        case.update(features=[], cov_names=[], form=draw(st.sampled_from(["columns", "columns", "index"])))
    else:
        nf = draw(st.integers(1, max_feat))
        feats = list(draw(st.permutations(FEATURE_POOL)))[:nf]
        modes = ["complete", "sparse", "sparse", "feature-missing", "all-nan-visit", "vanish", "empty-column"]
        miss = draw(st.sampled_from(modes))
        if miss == "vanish" and n < 2:
            miss = "all-nan-visit"
        if miss == "empty-column" and nf < 2:
            miss = "sparse"
        gran = draw(st.sampled_from(["year", "milli", "micro", "micro"]))
        time_int = gran == "year" and draw(st.booleans())
        wild = draw(st.booleans()) and draw(st.booleans())
        full = (1 << nf) - 1
        special_ind = draw(st.integers(1, n - 1)) if n >= 2 else 0  # individual hit by feature-missing / vanish (never the anchor 0 when n>=2)
        special_ft = draw(st.integers(0, nf - 1))
        per_ind = []
        for i in range(n):
            k_lo = 2 if (for_mal and i == 0) else 1
            k = draw(st.integers(k_lo, max(k_lo, max_vis)))
            if gran == "year":
                micros = [a * 1_000_000 for a in draw(st.lists(st.integers(20, 100), min_size=k, max_size=k, unique=True))]
            else:
                millis = [2 * m for m in draw(st.lists(st.integers(10_000, 49_999), min_size=k, max_size=k, unique=True))]
                micros = [m * 1000 + (draw(st.integers(0, 999)) if gran == "micro" else 0) for m in millis]
            micros.sort()
            ind_rows = []
            for v, mic in enumerate(micros):
                if wild:
                    vals = [draw(st.floats(-1e6, 1e6, allow_nan=False, width=64)) for _ in range(nf)]
                    vals = [0.0 if abs(x) < 1e-30 else x for x in vals]
                else:
                    vals = [x / 1e5 for x in draw(st.lists(st.integers(0, 100_000), min_size=nf, max_size=nf))]
                m = 0
                if miss != "complete":
                    m = draw(st.integers(0, full)) & draw(st.integers(0, full))
                if miss == "feature-missing" and i == special_ind:
                    m |= 1 << special_ft
                if miss == "vanish" and i == special_ind:
                    m = full
                if miss == "empty-column":
                    m |= 1 << special_ft
                    if special_ft == 0 and i == 0 and v == 0:
                        m &= ~2  # keep the anchor row non-empty through feature 1
                if i == 0 and v == 0 and not (miss == "empty-column" and special_ft == 0):
                    m &= ~1  # anchor: first visit of individual 0 has feature 0 -> at least one row is kept in every layout
                vals = [None if (m >> j) & 1 else vals[j] for j in range(nf)]
                age = mic // 1_000_000 if time_int else mic / 1e6
                ind_rows.append([ids[i], age] + vals)
            if miss == "all-nan-visit" and i == special_ind:
                v = draw(st.integers(0, len(ind_rows) - 1))
                if not (i == 0 and v == 0):
                    ind_rows[v][2:] = [None] * nf
                elif len(ind_rows) > 1:
                    ind_rows[1][2:] = [None] * nf
            per_ind.append((micros, ind_rows))
        cov_names = []
        if layout == "joint":
            codes = [draw(st.integers(0, 3)) if draw(st.booleans()) else draw(st.integers(0, 1)) for _ in range(n)]
            if max(codes) == 0:
                codes[draw(st.integers(0, n - 1))] = 1
            for i, (micros, ind_rows) in enumerate(per_ind):
                last = micros[-1]
                if codes[i] == 0 and draw(st.booleans()) and draw(st.booleans()):
                    et = (last - draw(st.integers(10_000, 5_000_000))) / 1e6  # censored before the last visit: documented prediction set-up
                else:
                    et = (last + draw(st.sampled_from([0, 1, 1000, 250_000])) + draw(st.integers(0, 10_000_000)) * draw(st.integers(0, 1))) / 1e6
                for r in ind_rows:
                    r.extend([et, codes[i]])
        elif layout == "covariate":
            cov_names = list(draw(st.sampled_from(COV_POOL)))[: draw(st.integers(1, 2))]
            covs = [[draw(st.integers(-2, 5)) for _ in range(n)] for _ in cov_names]
            for c in covs:
                if len(set(c)) < 2:
                    c[1] = c[0] + 1
            cov_float = draw(st.booleans()) and draw(st.booleans())
            for i, (_, ind_rows) in enumerate(per_ind):
                for r in ind_rows:
                    r.extend([float(c[i]) if cov_float else c[i] for c in covs])
            case["cov_float"] = cov_float
        rows = [r for _, ind_rows in per_ind for r in ind_rows]
        case.update(features=feats, cov_names=cov_names, miss_mode=miss, gran=gran, time_int=time_int,
                    form=draw(st.sampled_from(["columns", "columns", "index", "id-index"])),
                    extra_first=draw(st.booleans()) if layout != "visit" else False)
    R = len(rows)
    order_mode = draw(st.sampled_from(["blocks", "permuted", "permuted", "permuted"]))
    if order_mode == "permuted":
        rows = list(draw(st.permutations(rows)))
    case["rows"] = rows
    case["perm2"] = list(draw(st.permutations(list(range(R)))))
    case["shuffled_labels"] = draw(st.booleans()) and draw(st.booleans())
    return case


def mal_kinds(case):
    """Malformation kinds applicable to a (valid) case."""
    lay, idk = case["layout"], case["id_kind"]
    kinds = []
    if lay in VISIT_LAYOUTS:
        kinds += MAL_VISIT
        if len(case["rows"]) >= 2:
            kinds += MAL_MULTI_INF[:2]
            if len(case["features"]) >= 2:
                kinds.append(MAL_MULTI_INF[2])
    kinds += ["id-nan", "id-float"]
    if len({_key(r[0]) for r in case["rows"]}) >= 2:
        kinds.append("id-mixed")  # one individual's identifier gets another type: needs a second individual to be a mixture
    if idk == "int":
        kinds.append("id-negative")
    elif idk != "categorical":
        kinds.append("id-empty")
    if lay in ("event", "joint"):
        kinds += MAL_EVENT_COMMON
    if lay == "joint":
        kinds += MAL_JOINT
    if lay == "event":
        kinds += MAL_EVENT_ONLY
    if lay == "covariate":
        kinds += MAL_COV
    return kinds


@st.composite
def mal_table(draw, layout, **kw):
    case = draw(table(layout, for_mal=True, **kw))
    kind = draw(st.sampled_from(mal_kinds(case)))
    case["mal"] = dict(kind=kind, r=draw(st.integers(0, 10_000)), j=draw(st.integers(0, 10_000)),
                       ind=draw(st.integers(0, 10_000)), pos=draw(st.integers(0, 10_000)))
    return case


# ------------------------------------------------------------------------------------------------
# malformation injection (on the row lists; floats inf/nan and strings live only in memory)
# ------------------------------------------------------------------------------------------------
def _ids_in_order(rows):
    return list(dict.fromkeys(_key(r[0]) for r in rows))


def _key(x):
    return x if isinstance(x, str) else int(x)


def apply_mal(case):
    """Returns (rows, dropped_columns). Exactly one malformation; everything else left as generated."""
    mal = case["mal"]
    rows = [list(r) for r in case["rows"]]
    if mal is None:
        return rows, []
    lay, kind = case["layout"], mal["kind"]
    nf = len(case["features"])
    x0 = 2 + nf if lay != "event" else 1  # first extra column (EVENT_TIME / first covariate)
    R = len(rows)
    ids = _ids_in_order(rows)
    of = {i: [k for k, r in enumerate(rows) if _key(r[0]) == i] for i in ids}
    multi = [i for i in ids if len(of[i]) >= 2]
    nonempty = [k for k, r in enumerate(rows) if lay == "event" or any(v is not None for v in r[2:2 + nf])]
    r = nonempty[mal["r"] % len(nonempty)]
    ind = ids[mal["ind"] % len(ids)]
    drop = []
    inf = float("inf")
    if kind in ("dup-exact", "dup-rounded"):
        new = list(rows[r])
        new[2:2 + nf] = [0.25] * nf
        if kind == "dup-rounded":
            new[1] = float(new[1]) + (3e-7 if mal["j"] % 2 == 0 else -3e-7)
        rows.insert(mal["pos"] % (R + 1), new)
    elif kind in ("age-nan", "age-inf", "age-neginf", "age-string"):
        rows[r][1] = {"age-nan": float("nan"), "age-inf": inf, "age-neginf": -inf, "age-string": "67y"}[kind]
    elif kind in ("value-string", "value-inf", "value-neginf"):
        rows[r][2 + mal["j"] % nf] = {"value-string": "n/a", "value-inf": inf, "value-neginf": -inf}[kind]
    elif kind in MAL_MULTI_INF:
        r1 = mal["r"] % R
        r2 = (r1 + 1 + mal["pos"] % (R - 1)) % R  # a second, different row (same or another individual)
        c1 = mal["j"] % nf
        sgn = -1.0 if (mal["ind"] // 2) % 2 else 1.0
        if kind == "value-inf-mixed-signs":
            rows[r1][2 + c1], rows[r2][2 + c1] = sgn * inf, -sgn * inf
            if mal["ind"] % 2 and R >= 3:  # variant: a further cell of that column is NaN
                others = [k for k in range(R) if k not in (r1, r2)]
                rows[others[(mal["j"] // nf) % len(others)]][2 + c1] = None
        elif kind == "value-inf-several-same-sign":
            rows[r1][2 + c1], rows[r2][2 + c1] = sgn * inf, sgn * inf
        else:
            c2 = (c1 + 1 + (mal["j"] // nf) % (nf - 1)) % nf
            if mal["ind"] % 2:
                r2 = r1  # variant: both cells on the same row
            rows[r1][2 + c1], rows[r2][2 + c2] = sgn * inf, -sgn * inf
    elif kind == "no-id-column":
        drop = ["ID"]
    elif kind == "no-time-column":
        drop = ["TIME"]
    elif kind == "id-nan":
        rows[r][0] = None
    elif kind == "id-empty":
        rows[r][0] = ""
    elif kind == "id-negative":
        for k in of[ind]:
            rows[k][0] = -int(ind) - 1
    elif kind == "id-float":
        m = {i: float(n) + (0.5 if mal["j"] % 2 else 0.0) for n, i in enumerate(ids)}
        for row in rows:
            row[0] = m[_key(row[0])]
    elif kind == "id-mixed":
        for k in of[ind]:
            rows[k][0] = str(ind) + "x" if isinstance(ind, int) else 100_000 + mal["j"] % 7
    elif kind in ("event-time-zero", "event-time-negative", "event-time-nan", "event-time-inf"):
        for k in of[ind]:
            rows[k][x0] = {"event-time-zero": 0.0, "event-time-negative": -float(rows[k][x0]), "event-time-nan": float("nan"),
                           "event-time-inf": inf}[kind]
    elif kind == "event-code-fraction":
        for k in of[ind]:
            rows[k][x0 + 1] = rows[k][x0 + 1] + 0.5
    elif kind in ("event-code-nan", "event-code-negative"):
        for k in of[ind]:
            rows[k][x0 + 1] = None if kind == "event-code-nan" else -1 - mal["j"] % 2
    elif kind in ("event-time-nan-partial", "event-code-nan-partial"):
        i = multi[mal["ind"] % len(multi)]
        m = len(of[i])
        bits = 1 + mal["j"] % (2 ** m - 2)  # 1 .. 2^m - 2: strict, non-empty subset of the individual's rows
        c = x0 if kind == "event-time-nan-partial" else x0 + 1
        for b, k in enumerate(of[i]):
            if (bits >> b) & 1:
                rows[k][c] = None
    elif kind in ("event-disagree-time", "event-disagree-code"):
        i = multi[mal["ind"] % len(multi)]
        k = of[i][mal["j"] % len(of[i])]
        if kind == "event-disagree-time":
            rows[k][x0] = float(rows[k][x0]) + 1.5
        else:
            rows[k][x0 + 1] = rows[k][x0 + 1] + 1
    elif kind == "event-before-last-visit-observed":
        obs = [i for i in ids if rows[of[i][0]][x0 + 1] >= 1]
        i = obs[mal["ind"] % len(obs)]
        last = max(float(rows[k][1]) for k in of[i])
        for k in of[i]:
            rows[k][x0] = last - 0.5
    elif kind == "event-duplicate-id":
        new = list(rows[r])
        new[1] = float(new[1]) + 1.0
        rows.insert(mal["pos"] % (R + 1), new)
    elif kind == "cov-nan":
        rows[r][x0 + mal["j"] % len(case["cov_names"])] = None
    elif kind == "cov-fraction":
        c = x0 + mal["j"] % len(case["cov_names"])
        for k in of[ind]:
            rows[k][c] = rows[k][c] + 0.5
    elif kind == "cov-varying":
        i = multi[mal["ind"] % len(multi)]
        k = of[i][mal["r"] % len(of[i])]
        c = x0 + mal["j"] % len(case["cov_names"])
        rows[k][c] = rows[k][c] + 1
    elif kind == "cov-constant":
        c = x0 + mal["j"] % len(case["cov_names"])
        for row in rows:
            row[c] = 1
    else:
        raise ValueError(f"unknown malformation {kind}")
    return rows, drop


# ------------------------------------------------------------------------------------------------
# DataFrame construction
# ------------------------------------------------------------------------------------------------
def columns_of(case):
    lay = case["layout"]
    if lay == "event":
        return ["ID", "EVENT_TIME", "EVENT_BOOL"]
    extra = {"visit": [], "joint": ["EVENT_TIME", "EVENT_BOOL"], "covariate": list(case["cov_names"])}[lay]
    return ["ID", "TIME"] + list(case["features"]) + extra


def build_df(case, rows=None, drop=(), order=None):
    """The table handed to leaspy. `order` = optional permutation of the rows (second row order)."""
    import numpy as np
    import pandas as pd

    if rows is None:
        rows, drop = apply_mal(case)
    if order is not None:
        rows = [rows[k] for k in order]
    cols = columns_of(case)
    data = {}
    for c, name in enumerate(cols):
        col = [r[c] for r in rows]
        if name == "ID":
            if case["id_kind"] == "categorical" and all(isinstance(x, str) or x is None for x in col):
                if case.get("cat_unused") and not EXCLUDE_D4:
                    data[name] = pd.Categorical(col, categories=["0-unused"] + sorted({x for x in col if x is not None}) + ["zz-unused"])
                else:
                    data[name] = pd.Categorical(col)
            else:
                data[name] = pd.Series(col, dtype=None if all(isinstance(x, int) and not isinstance(x, bool) for x in col) else object)
                if all(isinstance(x, float) for x in col):
                    data[name] = pd.Series(col, dtype=float)
        elif all(isinstance(x, int) and not isinstance(x, bool) for x in col) and (name in ("TIME", "EVENT_BOOL") or name in case["cov_names"]):
            data[name] = np.array(col, dtype=np.int64)
        elif all(x is None or (isinstance(x, (int, float)) and not isinstance(x, bool)) for x in col):
            data[name] = np.array([float("nan") if x is None else float(x) for x in col], dtype=np.float64)
        else:
            data[name] = pd.Series([float("nan") if x is None else x for x in col], dtype=object)
    df = pd.DataFrame(data, columns=cols)
    if case.get("extra_first") and case["layout"] in ("joint", "covariate"):
        nf = len(case["features"])
        df = df[["ID", "TIME"] + cols[2 + nf:] + cols[2:2 + nf]]
    if case.get("shuffled_labels") and len(case["perm2"]) == len(df):
        df.index = pd.Index([p + 3 for p in case["perm2"]])
    df = df.drop(columns=list(drop))
    form = case.get("form", "columns")
    if form == "index" and "ID" in df.columns and (case["layout"] == "event" or "TIME" in df.columns):
        df = df.set_index(["ID"] if case["layout"] == "event" else ["ID", "TIME"])
    elif form == "id-index" and "ID" in df.columns:
        df = df.set_index("ID")
    return df


def ingest(case, df):
    from leaspy.io.data import Data, Dataset

    kws = {}
    if case["layout"] == "covariate":
        kws["factory_kws"] = dict(covariate_names=list(case["cov_names"]))
    data = Data.from_dataframe(df, case["layout"], **kws)
    return data, Dataset(data)


def frame_unchanged(df, snap):
    try:
        return bool(
            list(df.columns) == list(snap.columns)
            and list(df.index.names) == list(snap.index.names)
            and df.index.equals(snap.index)
            and (df.dtypes.astype(str).tolist() == snap.dtypes.astype(str).tolist())
            and df.equals(snap)
        )
    except Exception:
        return False


# ------------------------------------------------------------------------------------------------
# reference reader (pure Python + numpy casts)
# ------------------------------------------------------------------------------------------------
def reference(case, rows):
    """Expected canonical content for a valid table given as row lists (in the order handed to leaspy)."""
    import numpy as np

    lay = case["layout"]
    nf = len(case["features"])
    if lay == "event":
        per = {}
        for r in rows:
            per[_key(r[0])] = dict(event=(round(float(r[1]), 6), int(r[2])))
        nb_events = max(v["event"][1] for v in per.values())
        return dict(order=None, per=per, nb_events=nb_events)
    kept = [r for r in rows if lay != "visit" or any(v is not None for v in r[2:2 + nf])]
    order, per = [], {}
    for r in kept:
        k = _key(r[0])
        if k not in per:
            order.append(k)
            per[k] = dict(visits=[])
        per[k]["visits"].append(r)
    x0 = 2 + nf
    for k, d in per.items():
        vis = sorted(d["visits"], key=lambda r: round(float(r[1]), 6))
        d["times64"] = [round(float(r[1]), 6) for r in vis]
        d["times"] = np.array(d["times64"], dtype=np.float64).astype(np.float32)
        vals = np.array([[float("nan") if v is None else float(v) for v in r[2:2 + nf]] for r in vis], dtype=np.float64).reshape(len(vis), nf)
        d["present"] = ~np.isnan(vals)
        d["values"] = vals.astype(np.float32)
        if lay == "joint":
            d["event"] = (round(float(vis[0][x0]), 6), int(vis[0][x0 + 1]))
        if lay == "covariate":
            d["cov"] = [int(v) for v in vis[0][x0:]]
        del d["visits"]
    out = dict(order=order, per=per)
    if lay == "joint":
        out["nb_events"] = max(d["event"][1] for d in per.values())
    return out


def _ulp32(x):
    import numpy as np

    return float(np.spacing(np.float32(abs(x)))) if x == x else 0.0


def compare(case, data, ds, ref):
    """Dataset / Data against the reference. Returns a list of (bucket, observed, expected)."""
    import numpy as np

    lay = case["layout"]
    out = []
    idx = [_key(i) if not isinstance(i, str) else i for i in ds.indices]
    if lay == "event":
        exp_ids = sorted(ref["per"], key=str)
        if sorted(idx, key=str) != exp_ids or len(idx) != len(exp_ids):
            return [("individuals-not-one-row-each", idx, exp_ids)]
        order = idx
    else:
        order = ref["order"]
        if idx != order:
            b = "indices-not-first-appearance-order" if sorted(map(str, idx)) == sorted(map(str, order)) else "individuals-differ"
            return [(b, idx, order)]
    n = len(order)
    if ds.n_individuals != n or data.n_individuals != n:
        out.append(("n_individuals", (ds.n_individuals, data.n_individuals), n))
    # Data container: insertion-ordered individuals and integer index
    d_order = [_key(k) if not isinstance(k, str) else k for k in data.individuals]
    i2i = {int(k): (_key(v) if not isinstance(v, str) else v) for k, v in data.iter_to_idx.items()}
    if d_order != order or i2i != {i: k for i, k in enumerate(order)}:
        out.append(("data-index-not-aligned", dict(individuals=d_order, iter_to_idx=i2i), order))
    elif any((_key(data[i].idx) if not isinstance(data[i].idx, str) else data[i].idx) != k for i, k in enumerate(order)):
        out.append(("data-index-not-aligned", [data[i].idx for i in range(n)], order))
    if lay != "event":
        nf = len(case["features"])
        if list(ds.headers) != list(case["features"]) or ds.dimension != nf:
            return out + [("headers", (ds.headers, ds.dimension), case["features"])]
        nv = [len(ref["per"][k]["times"]) for k in order]
        vmax = max(nv)
        if list(ds.n_visits_per_individual) != nv or ds.n_visits_max != vmax or ds.n_visits != sum(nv) or data.n_visits != sum(nv):
            return out + [("visit-counts", dict(per_ind=list(ds.n_visits_per_individual), max=ds.n_visits_max, total=ds.n_visits,
                                                data_total=data.n_visits), dict(per_ind=nv, max=vmax, total=sum(nv)))]
        tp, va, ma = ds.timepoints.numpy(), ds.values.numpy(), ds.mask.numpy()
        if tp.shape != (n, vmax) or va.shape != (n, vmax, nf) or ma.shape != (n, vmax, nf):
            return out + [("tensor-shapes", (tp.shape, va.shape, ma.shape), (n, vmax, nf))]
        if str(ds.timepoints.dtype) != "torch.float32" or str(ds.values.dtype) != "torch.float32":
            out.append(("tensor-dtypes", (str(ds.timepoints.dtype), str(ds.values.dtype)), "float32"))
        exp_mask = np.zeros((n, vmax, nf), dtype=np.float32)
        for i, k in enumerate(order):
            d = ref["per"][k]
            exp_mask[i, : nv[i]] = d["present"].astype(np.float32)
            got_t = tp[i, : nv[i]]
            bad_t = [j for j in range(nv[i]) if not abs(float(got_t[j]) - float(d["times"][j])) <= _ulp32(float(d["times"][j]))]
            if bad_t:
                srt = sorted(got_t.tolist()) == got_t.tolist()
                out.append(("timepoints" if srt else "timepoints-not-sorted", {str(k): got_t.tolist()}, d["times"].tolist()))
                break
        if not np.array_equal(ma, exp_mask):
            pad_only = all(np.array_equal(ma[i, nv[i]:], exp_mask[i, nv[i]:]) for i in range(n))
            out.append(("mask-missing-cells" if pad_only else "mask-padding", ma.tolist(), exp_mask.tolist()))
        else:
            for i, k in enumerate(order):
                d = ref["per"][k]
                got = va[i, : nv[i]]
                if not np.array_equal(got[d["present"]], d["values"][d["present"]]):
                    out.append(("values", {str(k): got.tolist()}, d["values"].tolist()))
                    break
        exp_n_obs = np.array([ref["per"][k]["present"].sum(axis=0) for k in order]).reshape(n, nf)
        got_piif = ds.n_observations_per_ind_per_ft.numpy()
        if (got_piif.shape != exp_n_obs.shape or not np.array_equal(got_piif, exp_n_obs)
                or ds.n_observations_per_ft.tolist() != exp_n_obs.sum(axis=0).tolist() or ds.n_observations != int(exp_n_obs.sum())):
            out.append(("observation-counts", dict(per_ind_ft=got_piif.tolist(), per_ft=ds.n_observations_per_ft.tolist(), total=ds.n_observations),
                        dict(per_ind_ft=exp_n_obs.tolist(), per_ft=exp_n_obs.sum(axis=0).tolist(), total=int(exp_n_obs.sum()))))
    if lay in ("event", "joint"):
        ne = ref["nb_events"]
        et, eb = ds.event_time, ds.event_bool
        if et is None or eb is None or tuple(et.shape) != (n, ne) or tuple(eb.shape) != (n, ne):
            out.append(("event-shapes", (None if et is None else tuple(et.shape), None if eb is None else tuple(eb.shape)), (n, ne)))
        else:
            for i, k in enumerate(order):
                t, c = ref["per"][k]["event"]
                exp_b = [j == c - 1 for j in range(ne)]
                if any(not abs(x - t) <= _ulp32(t) for x in et[i].tolist()) or eb[i].tolist() != exp_b:
                    out.append(("events", {str(k): (et[i].tolist(), eb[i].tolist())}, (t, exp_b)))
                    break
    if lay == "covariate":
        cv = ds.covariates
        exp = [ref["per"][k]["cov"] for k in order]
        if cv is None or cv.tolist() != exp or list(ds.covariate_names) != list(case["cov_names"]):
            out.append(("covariates", None if cv is None else cv.tolist(), exp))
    return out


def per_individual(case, ds):
    """Content of a Dataset keyed by id (for the metamorphic and round-trip comparisons)."""
    lay = case["layout"]
    per = {}
    for i, k in enumerate(ds.indices):
        d = {}
        if lay != "event":
            nv = ds.n_visits_per_individual[i]
            d["times"] = ds.timepoints[i, :nv].tolist()
            m = ds.mask[i, :nv]
            d["mask"] = m.tolist()
            v = ds.values[i, :nv]
            d["values"] = v.where(m != 0, v.new_zeros(())).tolist()  # only present cells are compared
            d["pad_mask_zero"] = bool((ds.mask[i, nv:] == 0).all())
            d["n_obs"] = ds.n_observations_per_ind_per_ft[i].tolist()
        if lay in ("event", "joint"):
            d["event"] = (ds.event_time[i].tolist(), ds.event_bool[i].tolist())
        if lay == "covariate":
            d["cov"] = ds.covariates[i].tolist()
        per[k if isinstance(k, str) else _key(k)] = d
    return per


def diff_per_individual(a, b, time_ulps=0):
    """First difference between two per-individual dicts ('' if none)."""
    if set(a) != set(b) or len(a) != len(b):
        return f"individual sets differ: {sorted(map(str, a))} vs {sorted(map(str, b))}"
    for k in a:
        da, db = a[k], b[k]
        for f in da:
            if f == "times":
                if len(da[f]) != len(db[f]) or any(not abs(x - y) <= time_ulps * _ulp32(x) for x, y in zip(da[f], db[f])):
                    return f"{k!r}.times: {da[f]} vs {db[f]}"
            elif f == "event":
                (ta, ba), (tb, bb) = da[f], db[f]
                if ba != bb or len(ta) != len(tb) or any(not abs(x - y) <= time_ulps * _ulp32(x) for x, y in zip(ta, tb)):
                    return f"{k!r}.event: {da[f]} vs {db[f]}"
            elif da[f] != db[f]:
                return f"{k!r}.{f}: {da[f]} vs {db[f]}"
    return ""


# ------------------------------------------------------------------------------------------------
# classification
# ------------------------------------------------------------------------------------------------
def classify_valid(case):
    lay = case["layout"]
    rows = case["rows"]
    cl = [f"layout:{lay}", f"id:{case['id_kind']}", f"form:{case.get('form', 'columns')}", "valid"]
    if case["id_kind"] == "categorical" and case.get("cat_unused") and not EXCLUDE_D4:
        cl.append("categorical-unused-category")
    keys = [_key(r[0]) for r in rows]
    n = len(set(keys))
    nontrivial = False
    if lay == "event":
        if n >= 3 and keys != sorted(keys):
            nontrivial = True
        if max(r[2] for r in rows) >= 2:
            cl.append("competing-events")
    else:
        nf = len(case["features"])
        blocks = sum(1 for a, b in zip(keys, keys[1:]) if a != b) + 1
        inter = blocks > n
        last, unsorted_ages = {}, False
        for r in rows:
            k = _key(r[0])
            if k in last and float(r[1]) < last[k]:
                unsorted_ages = True
            last[k] = float(r[1])
        has_nan = any(v is None for r in rows for v in r[2:2 + nf])
        all_nan = [r for r in rows if all(v is None for v in r[2:2 + nf])]
        counts = {}
        for r in rows:
            counts[_key(r[0])] = counts.get(_key(r[0]), 0) + 1
        if inter:
            cl.append("interleaved")
        if unsorted_ages:
            cl.append("unsorted-ages")
        if has_nan:
            cl.append("has-nan")
        if all_nan:
            cl.append("all-nan-visit")
            if lay == "visit" and len({_key(r[0]) for r in rows}) > len({_key(r[0]) for r in rows if r not in all_nan}):
                cl.append("dropped-individual")
                if case["id_kind"] == "categorical":
                    cl.append("categorical-dropped-individual")
        if any(c == 1 for c in counts.values()):
            cl.append("single-visit-individual")
        for k in counts:
            mine = [r for r in rows if _key(r[0]) == k]
            if nf > 1 and any(all(r[2 + j] is None for r in mine) for j in range(nf)) and not all(all(v is None for v in r[2:2 + nf]) for r in mine):
                cl.append("feature-missing-for-individual")
                break
        cl.append(f"ages:{case.get('gran')}")
        if case.get("time_int"):
            cl.append("ages:int-dtype")
        if case.get("shuffled_labels"):
            cl.append("shuffled-row-labels")
        if lay == "joint":
            x0 = 2 + nf
            lastv = {}
            for r in rows:
                lastv[_key(r[0])] = max(lastv.get(_key(r[0]), 0.0), float(r[1]))
            if any(r[x0 + 1] == 0 and float(r[x0]) < lastv[_key(r[0])] - 1e-3 for r in rows):
                cl.append("censored-before-last-visit")
            if max(r[x0 + 1] for r in rows) >= 2:
                cl.append("competing-events")
        nontrivial = n >= 3 and inter and unsorted_ages and has_nan
    if nontrivial:
        cl += ["nontrivial", "nontrivial-valid"]
    return cl, nontrivial


def is_d4(case):
    """Defect class D4: categorical identifiers with an individual whose visits are all dropped (visit layout)."""
    if EXCLUDE_D4 is False or case["id_kind"] != "categorical" or case["layout"] != "visit" or case.get("mal"):
        return False
    nf = len(case["features"])
    allk = {_key(r[0]) for r in case["rows"]}
    kept = {_key(r[0]) for r in case["rows"] if any(v is not None for v in r[2:2 + nf])}
    return allk != kept


# ------------------------------------------------------------------------------------------------
# bodies
# ------------------------------------------------------------------------------------------------
def _flatten_cov_columns(p):
    """Neutralise defect D1 (1-tuple covariate labels) so that the rest of the round trip is still exercised."""
    if any(isinstance(c, tuple) and len(c) == 1 for c in p.columns):
        p = p.copy()
        p.columns = [c[0] if isinstance(c, tuple) and len(c) == 1 else c for c in p.columns]
        return p, True
    return p, False


def body_valid(col: Collector, case, sub_prefix=""):
    from leaspy.exceptions import LeaspyDataInputError

    if is_d4(case):
        col.exclude("D4:categorical-id-with-category-left-without-rows")
        return
    lay = case["layout"]
    classes, nontrivial = classify_valid(case)
    rows, _ = apply_mal(case)
    ref = reference(case, rows)

    def run(order, sub):
        df = build_df(case, rows, (), order)
        snap = df.copy(deep=True)
        try:
            data, ds = ingest(case, df)
        except LeaspyDataInputError as e:
            col.fail(sub, f"valid-table-refused:{exc_bucket(e)}", case, observed=repr(e), expected="accepted")
            data = ds = None
        except Exception as e:
            col.fail(sub, f"unexpected-exception:{exc_bucket(e)}", case, observed=repr(e), expected="accepted")
            data = ds = None
        if not frame_unchanged(df, snap):
            col.fail("unchanged", f"caller-frame-modified:valid:{lay}", case, observed=f"columns={list(df.columns)} index={list(df.index.names)}",
                     expected="frame equals its deep copy")
        if ds is None:
            return None
        r = ref if order is None else reference(case, [rows[k] for k in order])
        for bucket, obs, exp in compare(case, data, ds, r):
            col.fail(sub, f"{bucket}:{lay}", case, observed=obs, expected=exp)
        return ds

    ds = run(None, "ingest")
    if ds is not None:
        col.extra["oracle_comparisons"] = col.extra.get("oracle_comparisons", 0) + 1
        # second row order: reference again + identical per-individual content
        ds_b = run(case["perm2"], "row-order")
        if ds_b is not None:
            col.extra["oracle_comparisons"] += 1
            d = diff_per_individual(per_individual(case, ds), per_individual(case, ds_b))
            if d:
                col.fail("row-order", f"content-depends-on-row-order:{lay}", case, observed=d, expected="identical per-individual content")
            if lay == "event" and list(ds.indices) != list(ds_b.indices):
                col.fail("row-order", "event-order-depends-on-row-order", case, observed=(ds.indices, ds_b.indices), expected="same order")
        # round trip
        try:
            p = ds.to_pandas()
        except Exception as e:
            col.fail("roundtrip", f"to_pandas-raises:{exc_bucket(e)}:{lay}", case, observed=repr(e), expected="a table")
            p = None
        if p is not None:
            if lay == "covariate" and NEUTRALISE_D1:
                p, flattened = _flatten_cov_columns(p)
                if flattened:
                    col.exclude("D1:covariate-to_pandas-tuple-labels (neutralised by flattening)")
            snap = p.copy(deep=True)
            ds2 = None
            try:
                _, ds2 = ingest(case, p)
            except Exception as e:
                col.fail("roundtrip", f"reingest-raises:{exc_bucket(e)}:{lay}", case, observed=repr(e), expected="accepted")
            if not frame_unchanged(p, snap):
                col.fail("unchanged", f"caller-frame-modified:roundtrip:{lay}", case, observed=f"columns={list(p.columns)}", expected="frame equals its deep copy")
            if ds2 is not None:
                col.extra["oracle_comparisons"] += 1
                d = diff_per_individual(per_individual(case, ds), per_individual(case, ds2), time_ulps=4)
                if d:
                    col.fail("roundtrip", f"roundtrip-content-changed:{lay}", case, observed=d, expected="equal within float32 rounding")
                glob = lambda x: (x.n_individuals, x.headers, x.dimension, x.n_visits, x.n_visits_max, x.n_observations,
                                  None if x.n_observations_per_ft is None else x.n_observations_per_ft.tolist(), x.event_time_name,
                                  x.event_bool_name, x.covariate_names)
                if glob(ds) != glob(ds2):
                    col.fail("roundtrip", f"roundtrip-counters-changed:{lay}", case, observed=glob(ds2), expected=glob(ds))
                first_app = list(dict.fromkeys(p.index.get_level_values("ID").tolist()))
                if lay != "event" and list(ds2.indices) != first_app:
                    col.fail("roundtrip", f"roundtrip-order-not-first-appearance:{lay}", case, observed=ds2.indices, expected=first_app)
                if list(ds2.indices) != list(ds.indices):
                    classes.append("roundtrip-reorders")
    col.case(classes=classes, nontrivial=jhash([lay, case.get("form"), case["rows"]]) if nontrivial else None,
             sample=dict(layout=lay, id_kind=case["id_kind"], form=case.get("form"), features=case["features"], rows=case["rows"][:12],
                         n_rows=len(case["rows"])))


def body_mal(col: Collector, case, sub="malformed"):
    from leaspy.exceptions import LeaspyDataInputError

    lay, kind = case["layout"], case["mal"]["kind"]
    rows, drop = apply_mal(case)
    df = build_df(case, rows, drop)
    snap = df.copy(deep=True)
    try:
        ingest(case, df)
        col.fail(sub, f"malformed-accepted:{kind}:{lay}", case, observed="accepted", expected="LeaspyDataInputError")
    except LeaspyDataInputError:
        pass
    except Exception as e:
        col.fail(sub, f"malformed-wrong-exception:{kind}:{lay}:{exc_bucket(e)}", case, observed=repr(e), expected="LeaspyDataInputError")
    if not frame_unchanged(df, snap):
        col.fail("unchanged", f"caller-frame-modified:malformed:{lay}", case, observed=f"columns={list(df.columns)} index={list(df.index.names)}",
                 expected="frame equals its deep copy")
    n_ind = len({_key(r[0]) for r in case["rows"]})
    nontrivial = n_ind >= 2 and len(case["rows"]) >= 3
    col.case(classes=[f"layout:{lay}", f"id:{case['id_kind']}", f"form:{case.get('form', 'columns')}", "malformed", f"mal:{kind}"]
             + (["nontrivial"] if nontrivial else []),
             nontrivial=jhash([lay, case.get("form"), case["rows"], case["mal"]]) if nontrivial else None,
             sample=dict(layout=lay, mal=case["mal"], id_kind=case["id_kind"], rows=case["rows"][:8]))


def body(col: Collector, case):
    if case.get("mal"):
        body_mal(col, case)
    else:
        body_valid(col, case)


# ------------------------------------------------------------------------------------------------
# shards
# ------------------------------------------------------------------------------------------------
def _sizes(tier):
    return dict(max_ind=8, max_vis=6, max_feat=3) if tier == "quick" else dict(max_ind=12, max_vis=8, max_feat=4)


def shard_valid(layout: str, tier: str, seed: int, n_examples: int, shard: int = 0):
    env.import_leaspy()
    col = Collector(PROP, f"valid-{layout}-{shard}")
    drive(col, table(layout, **_sizes(tier)), body, n_examples=n_examples, seed=shard_seed(seed, shard, salt=1), sub_check="ingest")
    return col


def shard_mal(layout: str, tier: str, seed: int, n_examples: int, shard: int = 0):
    env.import_leaspy()
    col = Collector(PROP, f"mal-{layout}-{shard}")
    sz = _sizes(tier)
    sz = dict(max_ind=min(sz["max_ind"], 6), max_vis=min(sz["max_vis"], 4), max_feat=sz["max_feat"])
    drive(col, mal_table(layout, **sz), body, n_examples=n_examples, seed=shard_seed(seed, shard, salt=2), sub_check="malformed")
    return col


def base_tables():
    """Small fixed valid tables for the exhaustive malformation sweep (3 individuals, interleaved, unsorted ages, one NaN)."""
    out = []
    for id_kind in ("s", "int", "categorical"):
        a, b, c = (make_id(id_kind, i) for i in (2, 0, 1))
        v = [[b, 71.5, 0.2, None], [a, 66.25, 0.1, 0.4], [b, 70.000001, 0.3, 0.5], [c, 80.0, 0.6, 0.7], [a, 64.123456, None, 0.9], [b, 73.0, 0.35, 0.55]]
        common = dict(id_kind=id_kind, mal=None, features=["abc", "f0"], perm2=[5, 3, 1, 0, 2, 4], shuffled_labels=False, gran="micro", time_int=False)
        for form in (("columns",) if id_kind == "categorical" else ("columns", "index")):
            out.append(dict(common, layout="visit", cov_names=[], rows=copy.deepcopy(v), form=form, extra_first=False))
            ev = {a: (67.0, 1), b: (75.5, 0), c: (80.0, 2)}
            out.append(dict(common, layout="joint", cov_names=[], rows=[r + list(ev[r[0]]) for r in v], form=form, extra_first=form == "index"))
            cv = {a: [0, 3], b: [1, 3], c: [0, 4]}
            out.append(dict(common, layout="covariate", cov_names=["c1", "c2"], rows=[r + cv[r[0]] for r in v], form=form, extra_first=False, cov_float=False))
            out.append(dict(common, layout="event", features=[], cov_names=[], rows=[[b, 75.5, 0], [a, 67.0, 1], [c, 80.0, 2]], perm2=[2, 0, 1], form=form))
    return out


def shard_exhaustive(shard: int = 0):
    """Every applicable malformation kind at every location of the fixed tables (the valid tables themselves first)."""
    env.import_leaspy()
    col = Collector(PROP, "exhaustive-mal")
    n = 0
    for base in base_tables():
        body_valid(col, copy.deepcopy(base))
        R = len(base["rows"])
        n_ids = len({_key(r[0]) for r in base["rows"]})
        for kind in mal_kinds(base):
            if kind in MAL_MULTI_INF:  # every unordered pair of rows x column x sign order (x NaN / same-row variant)
                if base["id_kind"] != "s" or base["form"] != "columns":
                    continue  # the pair sweep is run once per layout (identifier kind and table form play no role here)
                nf = len(base["features"])
                for r1 in range(R):
                    for r2 in range(r1 + 1, R):
                        for j in range(nf):
                            for i in (range(4) if kind != "value-inf-several-same-sign" else (0, 2)):
                                c = copy.deepcopy(base)
                                c["mal"] = dict(kind=kind, r=r1, j=j, ind=i, pos=r2 - r1 - 1)
                                body_mal(col, c, sub="malformed-exhaustive")
                                n += 1
                continue
            n_r = R if kind in ("dup-exact", "dup-rounded", "age-nan", "age-inf", "age-neginf", "age-string", "value-string", "value-inf",
                                "value-neginf", "id-nan", "id-empty", "cov-nan", "cov-varying", "event-duplicate-id") else 1
            n_i = n_ids if kind.startswith(("event-", "cov-fraction", "id-negative", "id-mixed")) else 1
            n_j = 2 if kind.startswith(("value-", "cov-", "dup-rounded", "id-float", "event-disagree", "event-code-negative")) else 1
            if kind.endswith("-nan-partial"):
                n_j = 6  # every strict non-empty subset of the rows of an individual with <= 3 rows
            for r in range(n_r):
                for i in range(n_i):
                    for j in range(n_j):
                        c = copy.deepcopy(base)
                        c["mal"] = dict(kind=kind, r=r, j=j, ind=i, pos=(r + i + j) % (R + 1))
                        body_mal(col, c, sub="malformed-exhaustive")
                        n += 1
        if base["layout"] in ("event", "joint"):
            if EXCLUDE_D2:
                col.exclude("D2:event-code-nan (kind not injected)")
            if EXCLUDE_D3:
                col.exclude("D3:event-code-negative (kind not injected)")
    col.extra["exhaustive_malformations"] = n
    return col


# ------------------------------------------------------------------------------------------------
# reproducers of the defect classes excluded above (each returns None if the defect is gone, else a description)
# ------------------------------------------------------------------------------------------------
def repro_d1_covariate_roundtrip():
    """Dataset.to_pandas() of a covariate dataset cannot be re-ingested (covariate columns labelled ('c1',))."""
    import pandas as pd

    from leaspy.io.data import Data, Dataset

    df = pd.DataFrame({"ID": ["b", "a", "b", "a"], "TIME": [2.0, 1.0, 1.0, 3.0], "x": [0.2, 0.1, 0.4, 0.3], "c1": [0, 1, 0, 1]})
    kw = dict(factory_kws=dict(covariate_names=["c1"]))
    p = Dataset(Data.from_dataframe(df, "covariate", **kw)).to_pandas()
    try:
        Data.from_dataframe(p, "covariate", **kw)
    except Exception as e:
        return f"columns={list(p.columns)!r}; re-ingestion raises {e!r} [{exc_bucket(e)}]"
    return None


def _event_df(codes):
    import pandas as pd

    return pd.DataFrame({"ID": ["a", "b", "c"], "EVENT_TIME": [5.0, 6.0, 7.0], "EVENT_BOOL": codes})


def repro_d2_event_code_nan():
    from leaspy.exceptions import LeaspyDataInputError
    from leaspy.io.data import Data

    try:
        Data.from_dataframe(_event_df([1, float("nan"), 0]), "event")
    except LeaspyDataInputError:
        return None
    except Exception as e:
        return f"EVENT_BOOL=[1, nan, 0] raises {type(e).__name__} [{exc_bucket(e)}] instead of LeaspyDataInputError"
    return "EVENT_BOOL=[1, nan, 0] accepted"


def repro_d3_event_code_negative():
    from leaspy.exceptions import LeaspyDataInputError
    from leaspy.io.data import Data, Dataset

    res = []
    for codes in ([1, -1, 0], [2, -1, 1]):
        try:
            ds = Dataset(Data.from_dataframe(_event_df(codes), "event"))
            res.append(f"EVENT_BOOL={codes} accepted, event_bool={ds.event_bool.tolist()}")
        except LeaspyDataInputError:
            pass
        except Exception as e:
            res.append(f"EVENT_BOOL={codes} raises {type(e).__name__} [{exc_bucket(e)}] instead of LeaspyDataInputError")
    return "; ".join(res) or None


def repro_d4_categorical_unobserved():
    import numpy as np
    import pandas as pd

    from leaspy.io.data import Data, Dataset

    df = pd.DataFrame({"ID": pd.Categorical(["b", "a", "b", "c"]), "TIME": [2.0, 1.0, 1.0, 5.0], "x": [0.2, 0.1, 0.3, np.nan]})
    try:
        data = Data.from_dataframe(df)
        phantom = [k for k, v in data.individuals.items() if v.timepoints is None]
        if phantom:
            try:
                Dataset(data)
                return f"individuals without visits kept: {phantom}"
            except Exception as e:
                return f"individuals without visits kept: {phantom}; Dataset raises {type(e).__name__} [{exc_bucket(e)}]"
    except Exception as e:
        return f"from_dataframe raises {type(e).__name__} [{exc_bucket(e)}]"
    return None


REPRODUCERS = {"D1": repro_d1_covariate_roundtrip, "D2": repro_d2_event_code_nan, "D3": repro_d3_event_code_negative,
               "D4": repro_d4_categorical_unobserved}


def shard_known(shard: int = 0):
    """Runs the reproducers of the excluded defect classes; outcome goes to the evidence notes, nothing is judged."""
    env.import_leaspy()
    col = Collector(PROP, "known-defects")
    for d, fn in REPRODUCERS.items():
        r = fn()
        col.cls(f"defect-{d}:{'reproduced' if r else 'gone'}")
        status = "searched" if d in INCLUDED else "excluded"
        col.notes.append(f"defect class {d} [{status}] ({EXCLUDED_DEFECTS[d]}): " + (f"still reproduces - {r}" if r else "no longer reproduces"))
    return col


# ------------------------------------------------------------------------------------------------
def shards(tier: str, seed: int):
    quick = tier == "quick"
    nv, nm = (200, 360) if quick else (4000, 6000)
    specs = []
    plan_valid = [("visit", 4), ("joint", 3), ("covariate", 3)]
    s = 0
    for layout, k in plan_valid:
        for _ in range(k):
            specs.append((MOD, "shard_valid", dict(layout=layout, tier=tier, seed=seed, n_examples=nv, shard=s)))
            s += 1
    for layout, k in (("visit", 2), ("joint", 1), ("covariate", 1), ("event", 1)):
        for _ in range(k):
            specs.append((MOD, "shard_mal", dict(layout=layout, tier=tier, seed=seed, n_examples=nm, shard=s)))
            s += 1
    specs.append((MOD, "shard_valid", dict(layout="event", tier=tier, seed=seed, n_examples=nv * 2, shard=s)))
    specs.append((MOD, "shard_exhaustive", dict()))
    specs.append((MOD, "shard_known", dict()))
    return specs


def replay(sub_check: str, inp):
    env.import_leaspy()
    col = Collector(PROP, "replay")
    if sub_check.startswith("known-defect"):
        d = inp["defect"]
        r = REPRODUCERS[d]()
        if r:
            col.fail(sub_check, f"known-defect:{d}", inp, observed=r, expected="documented behaviour (LeaspyDataInputError for malformed input, lossless round trip); defect class: " + EXCLUDED_DEFECTS[d])
        return col.failures
    body(col, inp)
    return col.failures
