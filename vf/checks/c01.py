"""C01 - values read from the lazily cached variable graph are never stale.

Engine A: bounded-exhaustive operation histories on two toy graphs.
Engine B: Hypothesis-generated op lists (model-based generation; histories as plain JSON, shrunk as one value)
          on random toy DAGs and on the graphs of the shipped model kinds.
Oracle: memo-free (per read) evaluation of each variable's *definition* on the independent values the state
        itself reports; unset needed independent -> LeaspyInputError.
"""
from __future__ import annotations

import copy
import itertools

from hypothesis import strategies as st

from vf.core import env, gen
from vf.core.harness import Collector, drive, exc_bucket, jhash, shard_seed

PROP = "C01"
RULE = (
    "Engine A: every history of length <= L over a 14-operation alphabet {set a|b (current fork mode), set a|b under "
    "auto_fork(None), accumulate a|b, set p, read c|d|e, revert, partial revert, clone(keep_last_fork), precompute_all} on two toy "
    "graphs x 2 initial states x 2 fork modes (L=4 all combos + L=5 on the main combos in quick; L=5 all + L=6 main in thorough). "
    "Engine B: Hypothesis op lists (<=40 ops; set/unset/put(indices, accumulate)/read sets/revert/partial revert/clone/"
    "switch fork mode/precompute, idiom-biased) on random toy DAGs (3-10 nodes, expression grammar; plus deep chain-like graphs of up to 18 nodes and WeightedTensor-valued variables) and on the graphs of "
    "logistic/linear/shared-speed/joint/mixture models with generated cohorts. Non-trivial = history with a read of a derived "
    "variable after a 2nd assignment of one of its ancestors and a revert/partial revert/clone/fork switch before that read; "
    "distinct by op list (engine A: distinct by construction)."
)
ASSUMPTIONS = [
    "The oracle re-evaluates the same LinkedVariable definitions without the State cache (fresh memo per read) on the independent values the state reports; torch arithmetic is trusted and deterministic (1 thread).",
    "Partial reverts are only issued under the documented precondition (last assignment on an individual-axis variable; no read of a variable without the individual axis since).",
    "After an assignment made with auto-fork off, `revert` may either raise LeaspyInputError or succeed; only the values read afterwards are judged.",
]
REQUIRED_CLASSES = {"nontrivial": 0.02, "B:weighted-variable": 200, "B:deep-chain-graph": 300, "B:partial-revert": 100, "B:model-graph": 200, "B:revert": 300, "B:clone": 300}

MOD = "vf.checks.c01"


# ------------------------------------------------------------------------------------------------
# oracle helpers
# ------------------------------------------------------------------------------------------------
class Unset(Exception):
    pass


def scratch_eval(dag, values, name):
    """Evaluate `name` from its definition on the independent values in `values` (no State cache)."""
    from leaspy.variables.specs import LinkedVariable

    memo = {}

    class View:
        def __getitem__(self, k):
            if k in memo:
                return memo[k]
            var = dag[k]
            if isinstance(var, LinkedVariable):
                v = var.compute(self)
            else:
                v = values[k]
                if v is None:
                    raise Unset(k)
            memo[k] = v
            return v

    return View()[name]


def same(a, b) -> bool:
    import torch

    from leaspy.utils.weighted_tensor import WeightedTensor

    if a is None or b is None:
        return a is None and b is None
    if isinstance(a, WeightedTensor) or isinstance(b, WeightedTensor):
        if not (isinstance(a, WeightedTensor) and isinstance(b, WeightedTensor)):
            return False
        if (a.weight is None) != (b.weight is None):
            return False
        if a.weight is None:
            return same(a.value, b.value)
        if a.weight.shape != b.weight.shape or not torch.equal(a.weight.to(torch.float64), b.weight.to(torch.float64)):
            return False
        m = a.weight != 0
        return same(a.value[m], b.value[m])
    if a.shape != b.shape or a.dtype != b.dtype:
        return False
    return bool(torch.equal(a, b) or torch.allclose(a, b, rtol=0, atol=0, equal_nan=True))


def fast_copy(v):
    """Independent copy of a value (much cheaper than copy.deepcopy on tensors)."""
    from leaspy.utils.weighted_tensor import WeightedTensor

    if v is None:
        return None
    if isinstance(v, WeightedTensor):
        return WeightedTensor(v.value.clone(), None if v.weight is None else v.weight.clone())
    return v.clone()


def fresh_state(state0):
    """A new State holding independent copies of the values of `state0` (harness-side construction of the start state)."""
    from leaspy.variables.state import State

    s = State(state0.dag, auto_fork_type=state0.auto_fork_type)
    s._values = {k: fast_copy(v) for k, v in state0._values.items()}
    return s


def brief(v):
    from leaspy.utils.weighted_tensor import WeightedTensor

    if v is None:
        return None
    if isinstance(v, WeightedTensor):
        v = v.value
    return v.flatten()[:8].tolist()


# ------------------------------------------------------------------------------------------------
# contexts: toy graphs and model graphs
# ------------------------------------------------------------------------------------------------
N_TOY = 3


def _lv(src):
    from leaspy.variables.specs import LinkedVariable

    return LinkedVariable(eval(src))


def toy_graph(kind: str):
    """Returns (specs, ind_axis set, shapes for independent settable variables)."""
    from leaspy.variables.specs import DataVariable, Hyperparameter

    if kind == "g6":
        specs = {"a": DataVariable(), "b": DataVariable(), "p": DataVariable(),
                 "c": _lv("lambda *, a, b: a + b"), "d": _lv("lambda *, c, p: c * p"),
                 "e": _lv("lambda *, d: d.sum(dim=0)")}
        ind = {"a", "b", "c", "d"}
    elif kind == "g7":
        specs = {"a": DataVariable(), "b": DataVariable(), "p": DataVariable(), "h": Hyperparameter(2.0),
                 "c": _lv("lambda *, a, b: a + b"), "d": _lv("lambda *, c, p: c * p"),
                 "e": _lv("lambda *, d, h: d.sum(dim=0) * h"), "f": _lv("lambda *, a, p: a * p + 1")}
        ind = {"a", "b", "c", "d", "f"}
    else:
        raise ValueError(kind)
    shapes = {"a": (N_TOY, 1), "b": (N_TOY, 1), "p": ()}
    return specs, ind, shapes


GRAMMAR = {
    # name: (arity, source template, reduces individual axis?)
    "sum": (2, "lambda *, {0}, {1}: {0} + {1}", False),
    "prod": (2, "lambda *, {0}, {1}: {0} * {1}", False),
    "affine": (1, "lambda *, {0}: 2.0 * {0} + 1.0", False),
    "neg": (1, "lambda *, {0}: -{0}", False),
    "red": (1, "lambda *, {0}: {0}.sum(dim=0) if {0}.ndim == 2 else {0} * 1.0", True),
    "sum3": (3, "lambda *, {0}, {1}, {2}: {0} + {1} * {2}", False),
    "sq": (1, "lambda *, {0}: {0} * {0}", False),
}


def random_toy_graph(spec):
    """spec: dict(n_ind, indep=[['x0','ind'|'pop'|'popvec'|'hyper'], ...], derived=[[name, op, [parents]], ...])."""
    from leaspy.variables.specs import DataVariable, Hyperparameter

    n = spec["n_ind"]
    specs, ind, shapes, weighted = {}, set(), {}, set()
    for name, k in spec["indep"]:
        if k == "hyper":
            specs[name] = Hyperparameter(1.5)
        else:
            specs[name] = DataVariable()
            shapes[name] = {"ind": (n, 2), "indw": (n, 2), "pop": (), "popvec": (2,)}[k]
            if k in ("ind", "indw"):
                ind.add(name)
            if k == "indw":
                weighted.add(name)  # a WeightedTensor-valued variable (all share one weight pattern)
    for name, op, parents in spec["derived"]:
        arity, tpl, reduces = GRAMMAR[op]
        specs[name] = _lv(tpl.format(*parents))
        if any(p in ind for p in parents) and not reduces:
            ind.add(name)
    return specs, ind, shapes, weighted


@st.composite
def toy_graph_spec(draw):
    n_ind = draw(st.sampled_from([3, 5]))
    k_ind = draw(st.integers(1, 3))
    k_pop = draw(st.integers(0, 2))
    indep = [[f"i{j}", draw(st.sampled_from(["ind", "ind", "indw"]))] for j in range(k_ind)] + [[f"p{j}", draw(st.sampled_from(["pop", "popvec"]))] for j in range(k_pop)]
    if draw(st.booleans()):
        indep.append(["h0", "hyper"])
    names = [x[0] for x in indep]
    deep = draw(st.sampled_from([False, False, True]))  # deep chain-like graphs: far descendants must be invalidated too
    n_der = draw(st.integers(max(1, 3 - len(names)), 10 - len(names))) if not deep else draw(st.integers(5, 14))
    derived = []
    used = set()
    for j in range(n_der):
        op = draw(st.sampled_from(sorted(GRAMMAR)))
        if deep and j > 0:
            # each node depends on the previous derived node (value-preserving scale: no overflow along the chain)
            op = draw(st.sampled_from(["neg", "neg", "sum"]))
            prev = derived[-1][0]
            parents = [prev] if op == "neg" else [prev, draw(st.sampled_from(names[: len(indep)]))]
            used.update(parents)
            nm = f"d{j}"
            derived.append([nm, op, parents])
            names.append(nm)
            continue
        if deep:
            op = "affine"
        arity = GRAMMAR[op][0]
        arity = min(arity, len(names))
        if arity < GRAMMAR[op][0]:
            op = "affine"
            arity = 1
        # bias towards recent nodes and yet-unused independents (no isolated node allowed)
        unused = [x for x in names if x not in used]
        parents = []
        pool = list(names)
        for _ in range(arity):
            cand = [x for x in pool if x not in parents]
            if unused and draw(st.booleans()):
                c2 = [x for x in unused if x not in parents]
                cand = c2 or cand
            parents.append(draw(st.sampled_from(cand)))
        used.update(parents)
        nm = f"d{j}"
        derived.append([nm, op, parents])
        names.append(nm)
    # attach still-unused independents to a final sink so no node is isolated
    unused = [x[0] for x in indep if x[0] not in used]
    k = len(derived)
    for u in unused:
        tgt = derived[-1][0]
        derived.append([f"d{k}", "sum", [u, tgt]])
        k += 1
    return dict(n_ind=n_ind, indep=indep, derived=derived, deep=deep)


class Ctx:
    """What the interpreter needs: dag, initial state, settable independents, value factory, individual-axis set."""

    def __init__(self, dag, state, ind_axis, mkval, n_ind, label):
        self.dag, self.state0, self.ind_axis, self.mkval, self.n_ind, self.label = dag, state, ind_axis, mkval, n_ind, label
        from leaspy.variables.specs import LinkedVariable

        self.settable = [n for n in dag.sorted_variables_names if getattr(dag[n], "is_settable", False)]
        self.derived = [n for n in dag.sorted_variables_names if isinstance(dag[n], LinkedVariable)]
        self.indep = [n for n in dag.sorted_variables_names if not isinstance(dag[n], LinkedVariable)]


def toy_ctx(specs, ind, shapes, *, init_full: bool, mode: str, n_ind: int, label: str, weighted=()):
    import torch

    from leaspy.utils.weighted_tensor import WeightedTensor

    from leaspy.variables.dag import VariablesDAG
    from leaspy.variables.state import State, StateForkType

    dag = VariablesDAG.from_dict(specs)
    s = State(dag, auto_fork_type={"REF": StateForkType.REF, "COPY": StateForkType.COPY, "NONE": None}[mode])

    def weight_of(shape):
        return torch.tensor([[(i + j) % 3 != 0 for j in range(shape[1])] for i in range(shape[0])])

    def mkval(name, vals):
        t = gen.tensor_from(vals, shapes[name])
        return WeightedTensor(t, weight_of(shapes[name])) if name in weighted else t

    if init_full:
        with s.auto_fork(None):
            for i, (n, shp) in enumerate(sorted(shapes.items())):
                s[n] = mkval(n, [1.0 + i, 2.0 + i, 3.5 + i, -1.25, 0.5, 7.0])
        s.precompute_all()
    return Ctx(dag, s, set(ind), mkval, n_ind, label)


def model_ctx(cfg, cohort_case):
    """Live state of a real model; values for settable variables are generated as perturbations of the initial ones."""
    import torch

    from leaspy.utils.weighted_tensor import WeightedTensor

    m, ds, s = gen.live_state(cfg, cohort_case)
    n_ind = ds.n_individuals
    base = {}
    s.precompute_all()
    ind_axis = set()
    for n in s.dag.sorted_variables_names:
        v = s._values[n]
        if v is not None and v.ndim >= 1 and v.shape[0] == n_ind:
            ind_axis.add(n)
    for n in s.dag.sorted_variables_names:
        if getattr(s.dag[n], "is_settable", False):
            base[n] = copy.deepcopy(s._values[n])
    from leaspy.variables.specs import ModelParameter

    def mkval(name, vals):
        b = base[name]
        if isinstance(b, WeightedTensor):
            # data variable: perturb values, keep weights
            d = gen.tensor_from(vals, tuple(b.value.shape), like=b.value) * 0.01
            return WeightedTensor(b.value + d, b.weight)
        d = gen.tensor_from(vals, tuple(b.shape), like=b)
        if name.endswith("_std") and isinstance(s.dag[name], ModelParameter):
            return b * torch.exp(0.3 * d)  # scales stay positive
        return b + 0.2 * d

    ctx = Ctx(s.dag, s, ind_axis, mkval, n_ind, f"{cfg['kind']}:{cfg['kwargs']}")
    ctx.model = m
    return ctx


# ------------------------------------------------------------------------------------------------
# interpreter
# ------------------------------------------------------------------------------------------------
class Violation(Exception):
    def __init__(self, bucket, observed, expected):
        self.bucket, self.observed, self.expected = bucket, observed, expected


def _fork_mode(tag):
    from leaspy.variables.state import StateForkType

    return {"ref": StateForkType.REF, "copy": StateForkType.COPY, "none": None}[tag]


def check_read(ctx, s, name):
    from leaspy.exceptions import LeaspyInputError

    try:
        exp = scratch_eval(ctx.dag, s._values, name)
    except Unset as u:
        try:
            got = s[name]
        except LeaspyInputError:
            return
        raise Violation("read-with-unset-input-answered", f"{name} -> {brief(got)}", f"LeaspyInputError (needs unset {u})")
    try:
        got = s[name]
    except LeaspyInputError as e:
        raise Violation("computable-read-refused", repr(e), f"{name} = {brief(exp)}")
    if not same(got, exp):
        raise Violation("stale-read", f"{name} = {brief(got)}", f"{name} = {brief(exp)} (definition on current independent values)")
    # the tensor accessor must agree with the mapping access (it is what the samplers use)
    from leaspy.utils.weighted_tensor import WeightedTensor

    tv = s.get_tensor_value(name)
    exp_t = exp.weighted_value if isinstance(exp, WeightedTensor) else exp
    if isinstance(tv, WeightedTensor) or not same(tv, exp_t):
        raise Violation("stale-read:get_tensor_value", f"{name} = {brief(tv)}", f"{name} = {brief(exp_t)}")


def run_history(ctx: Ctx, ops, *, stats=None):
    """Execute `ops` on a clone of ctx.state0. Raises Violation. Returns dict of flags for classification."""
    import torch

    from leaspy.exceptions import LeaspyInputError
    from leaspy.utils.weighted_tensor import WeightedTensor

    s = fresh_state(ctx.state0)
    others = []  # states left behind by `clone` (still checked at the end)
    fl = dict(nonind_read=True, last_ind=False)  # partial-revert precondition flags
    assigned = {}  # name -> number of assignments so far
    disturbed = False  # a revert/partial revert/clone/switch happened
    info = dict(nontrivial=False, partial=0, reverts=0, clones=0, raised_unset=0, reads=0)
    derived_set = set(ctx.derived)

    def after_assign(name):
        fl["nonind_read"] = False
        fl["last_ind"] = name in ctx.ind_axis
        assigned[name] = assigned.get(name, 0) + 1

    def snapshot_indep(exclude=()):
        return {n: fast_copy(s._values[n]) for n in ctx.indep if n not in exclude}

    def check_untouched(snap, what):
        for n, v in snap.items():
            if not same(s._values[n], v):
                raise Violation(f"{what}-changed-other-independent", f"{n} = {brief(s._values[n])}", f"{n} = {brief(v)} (untouched)")

    for op in ops:
        kind = op[0]
        if kind == "set":
            _, name, vals, fork = op
            val = None if vals is None else ctx.mkval(name, vals)
            snap = snapshot_indep(exclude=(name,))
            if fork == "cur":
                s[name] = val
            else:
                with s.auto_fork(_fork_mode(fork)):
                    s[name] = val
            if not same(s._values[name], val):
                raise Violation("set-value-not-stored", brief(s._values[name]), brief(val))
            check_untouched(snap, "set")
            after_assign(name)
        elif kind == "put":
            _, name, vals, rows, acc = op
            old = s._values[name]
            if old is None:
                # put on an unset variable needs a read of an unset independent -> input error expected
                if rows is not None or acc:
                    try:
                        s.put(name, ctx.mkval(name, vals), indices=() if rows is None else (rows,), accumulate=acc)
                    except LeaspyInputError:
                        info["raised_unset"] += 1
                        continue
                    raise Violation("put-on-unset-answered", "no error", "LeaspyInputError")
                continue
            full = ctx.mkval(name, vals)
            old_copy = fast_copy(old)
            snap = snapshot_indep(exclude=(name,))
            is_w = isinstance(old, WeightedTensor)
            if is_w and (rows is not None) and getattr(ctx, "model", None) is not None:
                continue  # indexed put on the weighted *data* variables of the shipped models is never issued by leaspy
            if is_w and rows is not None:
                rows_ = sorted({r % old.shape[0] for r in rows})
                sub = full.value[rows_]
                ev = old.value.clone()
                ev[rows_] = (ev[rows_] + sub) if acc else sub
                exp = WeightedTensor(ev, old.weight)
                s.put(name, sub, indices=(rows_,), accumulate=acc)
            elif rows is None:
                if acc:
                    exp = old + full
                    s.put(name, full, accumulate=True)
                else:
                    exp = full
                    s.put(name, full)
            else:
                rows_ = [r % old.shape[0] for r in rows] if old.ndim >= 1 else None
                if rows_ is None:
                    continue
                rows_ = sorted(set(rows_))
                sub = full[rows_]
                exp = old.clone()
                if acc:
                    exp[rows_] = exp[rows_] + sub
                else:
                    exp[rows_] = sub
                s.put(name, sub, indices=(rows_,), accumulate=acc)
            if not same(s._values[name], exp):
                raise Violation("put-value-wrong", brief(s._values[name]), brief(exp))
            if not same(old, old_copy):
                raise Violation("put-mutated-previous-value-in-place", brief(old), brief(old_copy))
            check_untouched(snap, "put")
            after_assign(name)
        elif kind == "read":
            for name in op[1]:
                # a read also evaluates (hence "reads") every still-uncached derived ancestor
                touched = [name] + [a for a in ctx.dag.sorted_ancestors[name] if a in derived_set and s._values[a] is None]
                if any(t not in ctx.ind_axis for t in touched):
                    fl["nonind_read"] = True
                info["reads"] += 1
                if name in ctx.derived and disturbed and any(assigned.get(a, 0) >= 2 for a in ctx.dag.sorted_ancestors[name]):
                    info["nontrivial"] = True
                check_read(ctx, s, name)
        elif kind == "revert":
            try:
                s.revert()
                info["reverts"] += 1
            except LeaspyInputError:
                pass
            disturbed = True
            fl["last_ind"] = False
        elif kind == "prevert":
            if fl["nonind_read"] or not fl["last_ind"]:
                continue
            mask = torch.tensor([bool(op[1][i % len(op[1])]) for i in range(ctx.n_ind)])
            try:
                s.revert(mask)
                info["partial"] += 1
            except LeaspyInputError:
                pass
            disturbed = True
            fl["last_ind"] = False
        elif kind == "clone":
            _, disable, keep, cont = op
            c = s.clone(disable_auto_fork=disable, keep_last_fork=keep)
            info["clones"] += 1
            disturbed = True
            if cont:
                others.append((s, {n: fast_copy(v) for n, v in s._values.items()}))
                s = c
                if not keep:
                    fl["last_ind"] = False
            else:
                others.append((c, {n: fast_copy(v) for n, v in c._values.items()}))
        elif kind == "switch":
            s.auto_fork_type = _fork_mode(op[1])
            disturbed = True
        elif kind == "precompute":
            try:
                s.precompute_all()
            except LeaspyInputError:
                # allowed only if some independent is unset
                if all(s._values[n] is not None for n in ctx.indep):
                    raise Violation("precompute-refused-with-all-inputs-set", "LeaspyInputError", "success")
            fl["nonind_read"] = True
        else:
            raise ValueError(f"unknown op {op}")
        if stats is not None:
            stats["ops"] = stats.get("ops", 0) + 1

    # teardown: every cached value of every state must agree with its definition; states left behind are untouched
    for st_, snap in [(s, None)] + others:
        if snap is not None:
            for n, v in snap.items():
                if not same(st_._values[n], v):
                    raise Violation("clone-not-independent", f"{n} = {brief(st_._values[n])}", f"{n} = {brief(v)}")
        for n in ctx.derived:
            cached = st_._values[n]
            if cached is None:
                continue
            try:
                exp = scratch_eval(ctx.dag, st_._values, n)
            except Unset as u:
                raise Violation("cached-value-with-unset-input", f"{n} cached = {brief(cached)}", f"None (needs unset {u})")
            if not same(cached, exp):
                raise Violation("stale-cache-at-end", f"{n} = {brief(cached)}", f"{n} = {brief(exp)}")
        for n in ctx.derived:
            check_read(ctx, st_, n)
    return info


def judge(col: Collector, ctx: Ctx, ops, inp, sub_check):
    """Run a history, convert outcomes to recorded failures. Returns info or None."""
    from leaspy.exceptions import LeaspyInputError

    try:
        return run_history(ctx, ops)
    except Violation as v:
        col.fail(sub_check, v.bucket, inp, observed=v.observed, expected=v.expected)
    except AssertionError as e:
        col.fail(sub_check, "assertion:" + exc_bucket(e), inp, observed=repr(e), expected="no assertion under the documented preconditions")
    except (LeaspyInputError, RuntimeError, TypeError, ValueError, IndexError, KeyError, AttributeError) as e:
        col.fail(sub_check, "unexpected-exception:" + exc_bucket(e), inp, observed=repr(e), expected="operation succeeds")
    return None


# ------------------------------------------------------------------------------------------------
# engine A
# ------------------------------------------------------------------------------------------------
def alphabet():
    ops = []
    for n in ("a", "b"):
        ops.append(("set", n, "cur"))
        ops.append(("set", n, "none"))
        ops.append(("acc", n))
    ops.append(("setp",))
    for n in ("c", "d", "e"):
        ops.append(("read", n))
    ops += [("revert",), ("prevert",), ("clone",), ("pre",)]
    return ops


ALPHABET = alphabet()
V3 = [[1.0, 2.0, 3.0], [10.0, 20.0, 30.0], [100.0, 200.0, 300.0]]
MASK = [1, 0, 1]


def concretize(seq):
    """engine-A symbolic ops -> interpreter ops with the deterministic value schedule."""
    out = []
    for k, op in enumerate(seq, start=1):
        vals = [x * k for x in V3[k % 3]]
        if op[0] == "set":
            out.append(["set", op[1], vals, op[2]])
        elif op[0] == "acc":
            out.append(["put", op[1], vals, None, True])
        elif op[0] == "setp":
            out.append(["set", "p", [float(k)], "cur"])
        elif op[0] == "read":
            out.append(["read", [op[1]]])
        elif op[0] == "revert":
            out.append(["revert"])
        elif op[0] == "prevert":
            out.append(["prevert", MASK])
        elif op[0] == "clone":
            out.append(["clone", False, True, True])
        elif op[0] == "pre":
            out.append(["precompute"])
    return out


def shard_exhaustive(graph: str, init_full: bool, mode: str, length: int, part: int, n_parts: int):
    env.import_leaspy()
    col = Collector(PROP, f"A-{graph}-{'full' if init_full else 'empty'}-{mode}-L{length}-{part}/{n_parts}")
    specs, ind, shapes = toy_graph(graph)
    ctx = toy_ctx(specs, ind, shapes, init_full=init_full, mode=mode, n_ind=N_TOY, label=graph)
    n_ops = len(ALPHABET)
    total = n_ops ** length
    lo, hi = total * part // n_parts, total * (part + 1) // n_parts
    for idx in range(lo, hi):
        seq = []
        x = idx
        for _ in range(length):
            seq.append(ALPHABET[x % n_ops])
            x //= n_ops
        ops = concretize(seq)
        inp = dict(engine="A", graph=graph, init_full=init_full, mode=mode, ops=ops)
        info = judge(col, ctx, ops, inp, "history")
        col.evaluations += 1
        if info and info["nontrivial"]:
            col.nontrivial_bulk += 1
            col.classes["nontrivial"] += 1
            if len(col.samples) < 1 and idx % 1013 == 0:
                col.samples.append(dict(engine="A", graph=graph, init_full=init_full, mode=mode, ops=[list(o) for o in seq]))
        if info:
            if info["partial"]:
                col.classes["A:partial-revert"] += 1
            if info["reverts"]:
                col.classes["A:revert"] += 1
    col.extra[f"exhaustive_histories_{graph}_L{length}"] = hi - lo
    return col


# ------------------------------------------------------------------------------------------------
# engine B
# ------------------------------------------------------------------------------------------------
def ops_strategy(settable, ind_settable, derived, all_names, ind_axis, n_steps=(1, 40)):
    vals = st.lists(gen.f32(-4, 4), min_size=1, max_size=6)
    fork = st.sampled_from(["cur", "cur", "none", "ref", "copy"])
    sset = st.sampled_from(sorted(settable))
    ind_set = st.sampled_from(sorted(ind_settable)) if ind_settable else sset
    ind_reads = sorted(n for n in derived if n in ind_axis) or sorted(derived)
    rd_any = st.lists(st.sampled_from(sorted(all_names)), min_size=1, max_size=4)
    rd_der = st.lists(st.sampled_from(sorted(derived)), min_size=1, max_size=4)
    rd_ind = st.lists(st.sampled_from(ind_reads), min_size=1, max_size=3)
    mask = st.lists(st.integers(0, 1), min_size=2, max_size=7)
    rows = st.lists(st.integers(0, 11), min_size=1, max_size=3)

    single = st.one_of(
        st.tuples(st.just("set"), sset, vals, fork).map(list),
        st.tuples(st.just("set"), sset, st.none(), fork).map(list),
        st.tuples(st.just("put"), sset, vals, st.none() | rows, st.booleans()).map(list),
        st.tuples(st.just("read"), rd_any).map(list),
        st.tuples(st.just("read"), rd_der).map(list),
        st.just(["revert"]),
        st.tuples(st.just("prevert"), mask).map(list),
        st.tuples(st.just("clone"), st.booleans(), st.booleans(), st.booleans()).map(list),
        st.tuples(st.just("switch"), st.sampled_from(["ref", "copy", "none"])).map(list),
        st.just(["precompute"]),
    ).map(lambda o: [o])
    # idioms the samplers use: read -> put -> reads -> (partial) revert ; set under auto_fork(None) between
    idiom_pop = st.tuples(rd_der, sset, vals, rd_der, st.booleans()).map(
        lambda t: [["read", t[0]], ["set", t[1], t[2], "cur"], ["read", t[3]]] + ([["revert"]] if t[4] else []))
    idiom_ind = st.tuples(rd_ind, ind_set, vals, rd_ind, mask, st.booleans(), rd_any).map(
        lambda t: [["read", t[0]], ["put", t[1], t[2], None, True], ["read", t[3]], ["prevert", t[4]]] + ([["read", t[6]]] if t[5] else []))
    idiom_stale = st.tuples(sset, vals, sset, vals, rd_der).map(
        lambda t: [["set", t[0], t[1], "cur"], ["set", t[2], t[3], "none"], ["revert"], ["read", t[4]]])
    chunk = st.one_of(single, single, single, idiom_pop, idiom_ind, idiom_stale)
    return st.lists(chunk, min_size=n_steps[0], max_size=max(2, n_steps[1] // 2)).map(
        lambda cs: [o for c in cs for o in c][: n_steps[1]])


@st.composite
def toy_case(draw):
    spec = draw(toy_graph_spec())
    specs, ind, shapes, weighted = random_toy_graph(spec)
    settable = sorted(shapes)
    derived = [d[0] for d in spec["derived"]]
    all_names = settable + derived + [x[0] for x in spec["indep"] if x[1] == "hyper"]
    ops = draw(ops_strategy(settable, [n for n in settable if n in ind], derived, all_names, ind))
    return dict(engine="B-toy", graph=spec, init_full=draw(st.booleans()), mode=draw(st.sampled_from(["REF", "COPY", "NONE"])), ops=ops)


def body_toy(col: Collector, case):
    specs, ind, shapes, weighted = random_toy_graph(case["graph"])
    ctx = toy_ctx(specs, ind, shapes, init_full=case["init_full"], mode=case["mode"], n_ind=case["graph"]["n_ind"], label="toy", weighted=weighted)
    if weighted:
        col.cls("B:weighted-variable")
    if case["graph"].get("deep"):
        col.cls("B:deep-chain-graph")
    info = judge(col, ctx, case["ops"], case, "history-toy")
    _count(col, case, info, "B:toy-graph")


def _count(col, case, info, cls):
    classes = [cls]
    nt = None
    if info:
        if info["partial"]:
            classes.append("B:partial-revert")
        if info["reverts"]:
            classes.append("B:revert")
        if info["clones"]:
            classes.append("B:clone")
        if info["raised_unset"]:
            classes.append("B:unset-input-error")
        if info["nontrivial"]:
            classes.append("nontrivial")
            nt = jhash(case)
    col.case(classes=classes, nontrivial=nt, sample=dict(engine=case["engine"], mode=case.get("mode"), n_ops=len(case["ops"]), ops=case["ops"][:12]))


def shard_toy(seed: int, n_examples: int, shard: int = 0):
    env.import_leaspy()
    col = Collector(PROP, f"B-toy-{shard}")
    drive(col, toy_case(), body_toy, n_examples=n_examples, seed=shard_seed(seed, shard, 1))
    return col


# model graphs: the cohort and configuration are drawn once per shard-batch (cheap to rebuild, but op lists dominate)
_MODEL_CACHE = {}


def _model_names(cfg, cohort_case):
    key = jhash([cfg, cohort_case])
    if key not in _MODEL_CACHE:
        _MODEL_CACHE.clear()
        try:
            _MODEL_CACHE[key] = model_ctx(cfg, cohort_case)
        except gen.InitRejected as e:
            _MODEL_CACHE[key] = str(e)
    return _MODEL_CACHE[key]


@st.composite
def model_case(draw, kinds):
    cfg = draw(gen.model_cfg(kinds=kinds, dim=(1, 3)))
    feats = [f"f{j}" for j in range(cfg["kwargs"]["dimension"])]
    cohort = draw(gen.cohort(kind=gen.data_kind_for(cfg), n_ind=(5, 5) if cfg["kind"] != "mixture_logistic" else (7, 7),
                             n_visits=(1, 4), features=feats, event=cfg["kind"] == "joint", id_kinds=("s",), shuffle=False))
    ctx = _model_names(cfg, cohort)
    if isinstance(ctx, str):
        return dict(engine="B-model", cfg=cfg, cohort=cohort, ops=[], rejected=ctx)
    settable = ctx.settable
    ops = draw(ops_strategy(settable, [n for n in settable if n in ctx.ind_axis], ctx.derived, list(ctx.dag.sorted_variables_names),
                            ctx.ind_axis, n_steps=(1, 30)))
    return dict(engine="B-model", cfg=cfg, cohort=cohort, ops=ops)


def body_model(col: Collector, case):
    ctx = _model_names(case["cfg"], case["cohort"])
    if isinstance(ctx, str):
        col.exclude(ctx)
        return
    info = judge(col, ctx, case["ops"], case, "history-model")
    _count(col, case, info, "B:model-graph")
    col.cls("B:model:" + case["cfg"]["kind"])


def shard_model(seed: int, n_examples: int, kinds, shard: int = 0):
    env.import_leaspy()
    col = Collector(PROP, f"B-model-{shard}")
    drive(col, model_case(tuple(kinds)), body_model, n_examples=n_examples, seed=shard_seed(seed, shard, 2))
    return col


# ------------------------------------------------------------------------------------------------
def shards(tier: str, seed: int):
    specs = []
    combos = [(g, f, m) for g in ("g6", "g7") for f in (True, False) for m in ("REF", "COPY")]
    full_len = 4 if tier == "quick" else 5
    for g, f, m in combos:
        for L in range(1, full_len + 1):
            parts = 1 if L < 4 else (2 if L == 4 else 16)
            for p in range(parts):
                specs.append((MOD, "shard_exhaustive", dict(graph=g, init_full=f, mode=m, length=L, part=p, n_parts=parts)))
    main = [("g6", True, "REF"), ("g6", True, "COPY")] if tier == "quick" else [("g6", True, "REF")]
    for g, f, m in main:
        for p in range(16):
            specs.append((MOD, "shard_exhaustive", dict(graph=g, init_full=f, mode=m, length=full_len + 1, part=p, n_parts=16)))
    n_toy, n_model = (150, 40) if tier == "quick" else (2500, 500)
    for s in range(16):
        specs.append((MOD, "shard_toy", dict(seed=seed, n_examples=n_toy, shard=s)))
    kind_sets = [("logistic",), ("linear",), ("shared_speed_logistic",), ("joint",), ("mixture_logistic",), ("logistic", "joint")]
    for s in range(12 if tier == "quick" else 16):
        specs.append((MOD, "shard_model", dict(seed=seed, n_examples=n_model, kinds=kind_sets[s % len(kind_sets)], shard=s)))
    # longest shards first
    specs.sort(key=lambda sp: 0 if sp[1] == "shard_model" else (1 if sp[2].get("length", 0) >= 5 else 2))
    return specs


def replay(sub_check: str, inp):
    env.import_leaspy()
    col = Collector(PROP, "replay")
    if inp.get("engine") == "A":
        specs, ind, shapes = toy_graph(inp["graph"])
        ctx = toy_ctx(specs, ind, shapes, init_full=inp["init_full"], mode=inp["mode"], n_ind=N_TOY, label=inp["graph"])
        judge(col, ctx, inp["ops"], inp, sub_check)
    elif inp.get("engine") == "B-toy":
        body_toy(col, inp)
    else:
        body_model(col, inp)
    return col.failures
