"""C18 - simulation honours the requested design.

Code under test: `model.simulate(algorithm="simulate", features=..., visit_parameters=..., seed=...)`
(src/leaspy/algo/simulate/simulate.py + base.py). A case is a plain-JSON dict
`{model, features, design, seed, pre_seed, expect}`; the model is hand-written (load_parameters), optionally
saved+reloaded, or really fitted (short mcmc_saem on a generated cohort).

Oracle = validity predicate over `Result.data` / `Result.individual_parameters` for valid designs, and
"LeaspyAlgoInputError + untouched random generators" for invalid ones (numpy legacy global state, torch default
generator and python `random` are compared before/after; the state right after re-seeding with the requested seed
also counts as untouched because seeding consumes no draw).

Input classes of defects whose repair is pending can be excluded *by construction* with the EXCLUDE_* flags below (the generator
remaps the drawn wish to the nearest allowed input and counts it with col.exclude; all flags are False now that the repairs exist); `reproducers()` returns one plain
case per defect and the `findings` shard re-runs them on every run (still failing -> class `finding-reproduced:<id>`,
no longer failing -> a note asking to flip the flag).
"""
from __future__ import annotations

import contextlib
import copy
import io
import math
import os

from vf.core import env, gen
from vf.core.harness import Collector, drive, exc_bucket, jhash, shard_seed

PROP = "C18"
MOD = "vf.checks.c18"

# ------------------------------------------------------------------------------------------------
# defects found by this check; each input class can be excluded by construction (flag True) while its repair is pending.
# All seven are repaired by /verif/notes/fixes/{F14,F18,N1,N2,F20-after-N2,N3,N4}.patch, so the flags default to False and the
# classes are generated and judged. VF_C18_EXCLUDE="F14,N1" (or "all") re-enables exclusions for a run against an unpatched tree;
# VF_C18_INCLUDE lifts exclusions whose default is True.
# ------------------------------------------------------------------------------------------------
_LIFT = {x.strip() for x in os.environ.get("VF_C18_INCLUDE", "").split(",") if x.strip()}
_DROP = {x.strip() for x in os.environ.get("VF_C18_EXCLUDE", "").split(",") if x.strip()}


def _excluded(tag: str, default: bool = False) -> bool:
    if tag in _DROP or "all" in _DROP:
        return True
    return default and tag not in _LIFT and "all" not in _LIFT


EXCLUDE_F14 = _excluded("F14")  # one simulated individual + sources: standardising a single draw gave NaN -> scipy beta.rvs domain error
EXCLUDE_F18 = _excluded("F18")  # noise_std of shape (1,) (loaded scalar-noise model, or loaded 1-feature model): "Lengths must match to compare"
EXCLUDE_F20 = _excluded("F20")  # len(features) != model.dimension: pandas ValueError after sampling instead of a refusal before
EXCLUDE_N1_NOSRC = _excluded("N1")  # source_dimension == 0: torch.stack on an empty list
EXCLUDE_N2_LATE_MODEL_CHECK = _excluded("N2")  # non-logistic model refused only after individual parameters were drawn
EXCLUDE_N3_TYPEERROR = _excluded("N3")  # non-numeric patient_number / *_std / min_spacing_between_visits: bare TypeError
EXCLUDE_N4_KEYERROR = _excluded("N4")  # missing key / absent or non-frame df_visits / no ID column: KeyError/AttributeError/TypeError before validation

RULE = (
    "cases = Hypothesis draws of (logistic model: hand-written parameters via load_parameters, dimension 1-4, 0..dim-1 sources, "
    "scalar/diagonal noise, optionally saved and reloaded, or really fitted with 20-30 mcmc_saem iterations on a generated cohort) "
    "x feature list (own / renamed / reordered / unicode) x design (random: patient_number 1-12, first-visit and follow-up mean/std, "
    "spacing mean > 0 with std 0 / <= mean / 3-20 x mean, dense sub-step spacing, min_spacing_between_visits absent or in "
    "{0, 5e-4, 1e-3, 1/365, 0.01, 0.05, 0.1, 0.5, 1, 1.5, 2}; or table-driven: 1-8 individuals x 1-8 visits, str/int/unicode ids, "
    "grouped, unsorted or interleaved rows, row labels of the table default / permuted / increasing with gaps / strings / repeated as after pd.concat, ages closer than the rounding step, exact duplicates, integer ages, extra columns) "
    "x seed (None or int) x reuse (about 1/4 of the valid cases call simulate twice with the same visit_parameters dict, or the "
    "same AlgorithmSettings object); invalid designs = one single-point corruption of a valid case per class (negative std, non-positive "
    "patient number, wrong types, unknown visit type, negative min spacing, non-positive spacing mean and std, missing TIME column, "
    "NaN age, malformed features; and, once their exclusion flags are lifted, non-numeric std/patient number/min spacing, missing keys, "
    "absent or non-frame table, missing ID column, feature list of the wrong length, non-logistic model), drawn by Hypothesis and "
    "enumerated exhaustively on four fixed base cases. "
    "Non-trivial = a valid design that ran with >= 2 individuals having >= 2 reported visits each and a spacing std > 0, or a table "
    "with two ages of one individual closer than 1e-3; distinct by the hash of the whole case."
)
ASSUMPTIONS = [
    "Documented precision: ages are rounded to 0/1/2/3 decimals for min_spacing_between_visits >= 1 / 0.1 / 0.01 / below (3 decimals is the "
    "finest; default spacing 1/365 -> 3 decimals); a visit table has no spacing parameter, so its ages are rounded to 3 decimals.",
    "Table oracle is tie-tolerant: an input age within 1e-6 of a half step may round either way; output ages must be whole multiples of 1e-3 (1e-4 slack).",
    "Refusal = LeaspyAlgoInputError raised by model.simulate with numpy global / torch default / python random generator states equal to the "
    "state before the call or to the state right after seeding with the requested seed.",
    "A valid feature list has exactly model.dimension distinct non-blank strings (renaming/re-ordering is accepted and only relabels columns); "
    "names colliding with ID/TIME or the internal '<feature>_no_noise' columns are not generated.",
    "Not generated (no defined answer / outside the stated domain): distance_visit_mean <= 0 < distance_visit_std (possible non-termination), "
    "spacing std > 20 x mean (heavy-tailed run time), NaN/inf design numbers, empty visit table, duplicate feature names, bool patient_number, "
    "noise_std = 0, mixed int/str ids in one table.",
    "Reuse variant: the generator states are re-seeded identically before both calls, so the two outputs must be bit-identical; the "
    "caller's feature list, visit_parameters dict and visit table must equal their deep copies taken before the first call.",
    "Observation point: Result.data.to_dataframe() (rows in the order the Data object reports them) and Result.individual_parameters "
    "(a table indexed by id; converted with to_dataframe() if it is an IndividualParameters object).",
]
REQUIRED_CLASSES = {
    "nontrivial": 150, "reused-design-object": 300, "reuse:dict": 100, "reuse:settings": 100, "valid:random": 300, "valid:table": 200, "expect:refuse": 100,
    "random:std0": 40, "random:std>>mean": 40, "random:dedup-happened": 40, "random:backward-step": 20,
    "random:single-visit-individual": 20, "msp:below-1e-3": 30, "msp:absent": 30, "msp:>=1": 30,
    "table:index-default": 40, "table:index-permuted": 40, "table:index-gaps": 40, "table:index-strings": 40, "table:index-duplicated": 40,
    "table:near-dup": 40, "table:exact-dup": 40, "table:ids-int": 30, "table:interleaved": 30, "table:unsorted": 30,
    "model:fitted": 20, "model:reloaded": 20, "model:hand": 200, "seed:none": 50, "features:renamed": 50, "features:reordered": 30,
    "random:extreme-first-visit": 30, "invalid:neg-std": 10, "invalid:nan-age": 5, "invalid:features-malformed": 10,
    "invalid:unknown-visit-type": 5, "invalid:type-refused": 10,
}

STD_KEYS = ["first_visit_std", "time_follow_up_std", "distance_visit_std"]
MEAN_KEYS = ["first_visit_mean", "time_follow_up_mean", "distance_visit_mean"]
RANDOM_KEYS = ["patient_number"] + MEAN_KEYS + STD_KEYS
NONLOGISTIC = {"linear": "LinearModel", "shared_speed_logistic": "SharedSpeedLogisticModel"}


# ------------------------------------------------------------------------------------------------
# documented precision (independent of the code under test)
# ------------------------------------------------------------------------------------------------
def precision_for(design) -> int:
    if design.get("visit_type") != "random":
        return 3
    s = design.get("min_spacing_between_visits", 1 / 365)
    for p, step in ((0, 1.0), (1, 0.1), (2, 0.01), (3, 0.001)):
        if step <= s:
            return p
    return 3


# ------------------------------------------------------------------------------------------------
# strategies (plain JSON out)
# ------------------------------------------------------------------------------------------------
def _st():
    from hypothesis import strategies as st

    return st


def q(lo, hi, step):
    """multiples of `step` in [lo, hi] as floats with few digits (small JSON, good shrinking)"""
    st = _st()
    a, b = math.ceil(lo / step - 1e-9), math.floor(hi / step + 1e-9)
    return st.integers(a, b).map(lambda k: round(k * step, 6))


def _shape_model(draw, dim_max, loaded: bool, excluded: list):
    """dimension / sources / noise / reload, with the excluded classes remapped by construction"""
    st = _st()
    dim = draw(st.integers(1, dim_max))
    sd = draw(st.integers(0, dim - 1))
    noise = draw(st.sampled_from(["diag", "scalar"]))
    reload_ = draw(st.integers(0, 3)) == 0
    if sd == 0 and EXCLUDE_N1_NOSRC:
        excluded.append("N1:source_dimension=0")
        dim = max(dim, 2)
        sd = draw(st.integers(1, dim - 1))
    if (loaded or reload_) and (noise == "scalar" or dim == 1) and EXCLUDE_F18:
        excluded.append("F18:loaded-model-with-noise_std-of-shape-(1,)")
        if loaded:
            noise = "diag"
            dim = max(dim, 2)
        else:
            reload_ = False
    return dim, sd, noise, reload_


def hand_model():
    st = _st()

    @st.composite
    def _m(draw):
        excluded = []
        dim, sd, noise, reload_ = _shape_model(draw, 4, True, excluded)
        names = draw(st.sampled_from(["f", "f", "ft é "]))
        params = {
            "tau_mean": [draw(q(40, 90, 0.5))], "tau_std": [draw(q(1, 15, 0.25))], "xi_std": [draw(q(0.05, 1.5, 0.05))],
            "noise_std": [draw(q(0.01, 0.5, 0.01)) for _ in range(1 if noise == "scalar" else dim)],
            "log_g_mean": [draw(q(-3, 3, 0.25)) for _ in range(dim)],
            "log_v0_mean": [draw(q(-6, -1, 0.25)) for _ in range(dim)],
        }
        if sd > 0:
            params["betas_mean"] = [[draw(q(-1, 1, 0.05)) for _ in range(sd)] for _ in range(dim - 1)]
        return dict(src="hand", kind="logistic", dim=dim, sd=sd, noise=noise, reload=reload_,
                    features=[f"{names}{j}" for j in range(dim)], params=params, _excluded=excluded)

    return _m()


def fitted_model():
    st = _st()

    @st.composite
    def _m(draw):
        excluded = []
        dim, sd, noise, reload_ = _shape_model(draw, 3, False, excluded)
        cohort = draw(gen.cohort(kind="logistic", n_ind=(4, 8), n_visits=(2, 5), n_feat=(dim, dim), id_kinds=("s",),
                                 shuffle=False, missing=draw(st.booleans())))
        return dict(src="fit", kind="logistic", dim=dim, sd=sd, noise=noise, reload=reload_, features=list(cohort["features"]),
                    cohort=cohort, n_iter=draw(st.integers(20, 30)), fit_seed=draw(st.integers(0, 99)), _excluded=excluded)

    return _m()


def nonlogistic_spec(kind: str, like):
    """hand-written model of another kind with the same shape as `like` (only used by the invalid class)"""
    dim, sd = max(like["dim"], 2), max(like["sd"], 1)
    p = {"tau_mean": [70.0], "tau_std": [5.0], "xi_std": [0.5], "noise_std": [0.05] * dim,
         "betas_mean": [[0.1] * sd for _ in range(dim - 1)]}
    if kind == "linear":
        p.update(g_mean=[0.5] * dim, log_v0_mean=[-4.0] * dim)
    else:
        p.update(log_g_mean=[0.5], xi_mean=[-4.0], deltas_mean=[0.1] * (dim - 1))
    return dict(src="hand", kind=kind, dim=dim, sd=sd, noise="diag", reload=False,
                features=[f"f{j}" for j in range(dim)], params=p)


def features_for(model_feats):
    st = _st()

    @st.composite
    def _f(draw):
        d = len(model_feats)
        mode = draw(st.sampled_from(["own", "own", "renamed", "reordered", "unicode"]))
        if mode == "own" or (mode == "reordered" and d < 2):
            return "own", list(model_feats)
        if mode == "renamed":
            pool = ["a", "B", "score 3", "x_1", "MDS1_total", "f9"]
            return mode, pool[:d]
        if mode == "unicode":
            return mode, [f"épreuve {j}µ" for j in range(d)]
        perm = list(draw(st.permutations(list(model_feats))))
        if perm == list(model_feats):
            perm = perm[1:] + perm[:1]
        return mode, perm

    return _f()


MSP_VALUES = ["absent", "absent", 0, 0.0, 5e-4, 1e-3, 1 / 365, 0.01, 0.05, 0.1, 0.5, 1, 1.0, 1.5, 2]


def random_design(sd: int):
    st = _st()

    @st.composite
    def _d(draw):
        excluded = []
        pn = draw(st.one_of(st.integers(1, 12), st.sampled_from([1, 2, 3])))
        if pn == 1 and sd >= 1 and EXCLUDE_F14:
            excluded.append("F14:one-individual-with-sources")
            pn = 2
        if draw(st.integers(0, 6)) == 0:  # far before / after the disease onset: noise-free values saturate
            fvm = draw(q(40, 100, 1.0)) * draw(st.sampled_from([-1, 1]))
        else:
            fvm = draw(q(-20, 20, 0.5))
        fvs = draw(st.one_of(st.just(0.0), q(0, 5, 0.1)))
        layout = draw(st.sampled_from(["usual", "usual", "usual", "dense", "no-follow-up"]))
        if layout == "dense":  # many visits inside one rounding step
            fum, fus = draw(q(0.0, 0.1, 0.005)), 0.0
            dvm = draw(q(0.0005, 0.01, 0.0005))
            pn = min(pn, 4)
        elif layout == "no-follow-up":
            fum, fus = 0.0, 0.0
            dvm = draw(q(0.05, 3, 0.05))
        else:
            fum = draw(q(-2, 10, 0.25))
            fus = draw(st.one_of(st.just(0.0), q(0, 3, 0.1)))
            dvm = draw(q(0.05, 3, 0.05))
        std_mode = draw(st.sampled_from(["zero", "small", "small", "large"]))
        if std_mode == "zero":
            dvs = 0.0
        elif std_mode == "small":
            dvs = round(dvm * draw(q(0.05, 1, 0.05)), 6)
        else:
            dvs = round(dvm * draw(q(3, 20, 0.5)), 6)
        if draw(st.integers(0, 19)) == 0:
            # the wish "distance_visit_mean <= 0 < distance_visit_std" is accepted by the validator but may never terminate
            excluded.append("unexplored:distance_visit_mean<=0<distance_visit_std")
        d = dict(visit_type="random", patient_number=pn, first_visit_mean=fvm, first_visit_std=fvs,
                 time_follow_up_mean=fum, time_follow_up_std=fus, distance_visit_mean=dvm, distance_visit_std=dvs)
        msp = draw(st.sampled_from(MSP_VALUES))
        if msp != "absent":
            d["min_spacing_between_visits"] = msp
        if draw(st.booleans()):  # integer-typed numbers are documented as accepted
            for k in MEAN_KEYS + STD_KEYS:
                if float(d[k]).is_integer():
                    d[k] = int(d[k])
        return d, excluded, dict(layout=layout, std_mode=std_mode)

    return _d()


def table_design(sd: int, n_max: int = 8):
    st = _st()

    @st.composite
    def _d(draw):
        excluded = []
        n = draw(st.integers(1, n_max))
        if n == 1 and sd >= 1 and EXCLUDE_F14:
            excluded.append("F14:one-individual-with-sources")
            n = 2
        id_kind = draw(st.sampled_from(["s", "digits", "zeros", "unicode", "int", "int", "words"]))
        ids = [gen.ID_ALPHABETS[id_kind](i) for i in range(n)]
        int_time = draw(st.integers(0, 7)) == 0
        groups = []
        for id_ in ids:
            k = draw(st.integers(1, 8))
            t = draw(st.integers(300000, 1000000))  # ticks of 1e-4 year
            if int_time:
                t -= t % 10000
            ticks = [t]
            for _ in range(k - 1):
                gap_kind = draw(st.sampled_from(["far", "far", "far", "near", "same"]))
                if int_time:
                    gap = draw(st.integers(0, 4)) * 10000
                elif gap_kind == "far":
                    gap = draw(st.integers(500, 40000))
                elif gap_kind == "near":
                    gap = draw(st.integers(1, 9))
                else:
                    gap = 0
                t += gap
                ticks.append(t)
            ages = [(tk // 10000) if int_time else round(tk * 1e-4, 4) for tk in ticks]
            groups.append([[id_, a] for a in ages])
        order = draw(st.sampled_from(["grouped", "unsorted", "interleaved"]))
        if order == "unsorted":
            groups = [list(draw(st.permutations(g))) for g in groups]
            groups = list(draw(st.permutations(groups)))
        rows = [r for g in groups for r in g]
        if order == "interleaved":
            rows = list(draw(st.permutations(rows)))
        # row labels of the caller's table: a table cut out of a real data set rarely has the default 0..n-1 index
        nr = len(rows)
        shape = draw(st.sampled_from(["default", "default", "permuted", "gaps", "strings", "duplicated"]))
        if shape == "permuted" and nr < 2:
            shape = "gaps"
        if shape == "duplicated" and nr < 2:
            shape = "strings"
        index = None
        if shape == "permuted":  # df.sample(frac=1) / sort_values without reset_index
            index = list(draw(st.permutations(list(range(nr)))))
            if index == list(range(nr)):
                index = index[1:] + index[:1]
        elif shape == "gaps":  # df[mask] / df.iloc[k:] : increasing labels, some of them outside 0..n-1
            lab = draw(st.integers(0, 6))
            steps = [draw(st.integers(1, 3)) for _ in range(nr - 1)]
            if lab == 0 and all(x == 1 for x in steps):
                lab = nr  # keep it different from the default index by construction
            index = [lab]
            for x in steps:
                index.append(index[-1] + x)
        elif shape == "strings":
            pre = draw(st.sampled_from(["r", "visit-", "é"]))
            index = [f"{pre}{j}" for j in range(nr)]
        elif shape == "duplicated":  # pd.concat of two tables that each kept their own 0.. labels
            cut = draw(st.integers(1, nr - 1))
            index = list(range(cut)) + list(range(nr - cut))
        d = dict(visit_type="dataframe", id_kind=id_kind, columns=["ID", "TIME"], rows=rows, df_as="frame",
                 extra_col=draw(st.integers(0, 5)) == 0, index=index)
        return d, excluded, dict(order=order, int_time=int_time, index=shape)

    return _d()


def valid_case(design_kind: str, fitted: bool = False, model=None):
    st = _st()

    @st.composite
    def _c(draw):
        m = model if model is not None else draw(fitted_model() if fitted else hand_model())
        m = dict(m)
        excluded = list(m.pop("_excluded", []))
        dk = design_kind if design_kind != "any" else draw(st.sampled_from(["random", "table"]))
        design, ex2, info = draw(random_design(m["sd"]) if dk == "random" else table_design(m["sd"]))
        fmode, feats = draw(features_for(m["features"]))
        seed = draw(st.one_of(st.none(), st.integers(0, 2**31 - 1), st.integers(0, 9)))
        # ~1/4 of the valid cases call simulate twice with the SAME visit_parameters dict / AlgorithmSettings object
        reuse = {0: "dict", 1: "settings"}.get(draw(st.integers(0, 7)))
        return dict(model=m, features=feats, design=design, seed=seed, pre_seed=draw(st.integers(0, 2**31 - 1)),
                    expect="complete", reuse=reuse, info=dict(info, features=fmode), excluded=excluded + ex2)

    return _c()


def fitted_multi_case(n_runs: int = 3):
    """one fitted model, several designs (the fit is the expensive part)"""
    st = _st()

    @st.composite
    def _c(draw):
        m = draw(fitted_model())
        runs = [draw(valid_case("any", model=m)) for _ in range(n_runs)]
        ex = list(m.get("_excluded", []))
        for i, r in enumerate(runs):
            r.pop("model")
            if i:
                r["excluded"] = [e for e in r["excluded"] if e not in ex]  # model-level remaps are counted once
        m = {k: v for k, v in m.items() if k != "_excluded"}
        return dict(model=m, runs=runs)

    return _c()


# -- invalid designs -------------------------------------------------------------------------------
INVALID_KINDS = {
    # kind -> (applies to, excluded-by flag name or None)
    "neg-std": ("random", None),
    "nonpos-patient-number": ("random", None),
    "type-refused": ("random", None),
    "type-N3": ("random", "EXCLUDE_N3_TYPEERROR"),
    "missing-key-N4": ("random", "EXCLUDE_N4_KEYERROR"),
    "unknown-visit-type": ("any", None),
    "neg-min-spacing": ("random", None),
    "nonpos-distance": ("random", None),
    "features-malformed": ("any", None),
    "features-length-F20": ("any", "EXCLUDE_F20"),
    "non-logistic-N2": ("any", "EXCLUDE_N2_LATE_MODEL_CHECK"),
    "table-missing-TIME": ("table", None),
    "nan-age": ("table", None),
    "table-N4": ("table", "EXCLUDE_N4_KEYERROR"),
}


def kind_enabled(kind: str) -> bool:
    flag = INVALID_KINDS[kind][1]
    return not (flag and globals()[flag])


def invalid_ops(kind: str, base) -> list:
    feats = list(base["features"])
    if kind == "neg-std":
        return [["set", k, v] for k in STD_KEYS for v in (-0.5, -1, -1e-9)]
    if kind == "nonpos-patient-number":
        return [["set", "patient_number", v] for v in (0, -1, -12)]
    if kind == "type-refused":
        return [["set", "patient_number", 3.0], ["set", "patient_number", 2.5]] + [
            ["set", k, v] for k in MEAN_KEYS for v in ("1.0", None, [1.0])]
    if kind == "type-N3":
        return [["set", k, v] for k in ["patient_number"] + STD_KEYS + ["min_spacing_between_visits"] for v in ("1", None, [1])]
    if kind == "missing-key-N4":
        return [["drop", k] for k in RANDOM_KEYS + ["visit_type"]] + [["drop-visit-parameters"]]
    if kind == "unknown-visit-type":
        return [["set", "visit_type", v] for v in ("regular", "Random", "", "table")]
    if kind == "neg-min-spacing":
        return [["set", "min_spacing_between_visits", v] for v in (-0.1, -1, -1e-6)]
    if kind == "nonpos-distance":
        return [["set-many", {"distance_visit_mean": v, "distance_visit_std": s}] for v in (0, 0.0, -0.5, -1) for s in (0, 0.0)]
    if kind == "features-malformed":
        return [["features", []], ["features", None], ["features", {"tuple": feats}], ["features", feats[0]],
                ["features", feats[:-1] + [1]], ["features", feats[:-1] + ["  "]], ["features", [""] + feats[1:]],
                ["features", feats[:-1] + [None]]]
    if kind == "features-length-F20":
        ops = [["features", feats + ["extra"]]]
        if len(feats) > 1:
            ops += [["features", feats[:-1]], ["features", feats[:1]]]
        return ops
    if kind == "non-logistic-N2":
        return [["model", k] for k in NONLOGISTIC]
    if kind == "table-missing-TIME":
        return [["table", "drop-TIME"], ["table", "rename-TIME"]]
    if kind == "nan-age":
        return [["table", "nan-age", i] for i in sorted({0, len(base["design"]["rows"]) - 1, len(base["design"]["rows"]) // 2})]
    if kind == "table-N4":
        return [["table", "drop-ID"], ["table", "as-records"], ["table", "absent"]]
    raise KeyError(kind)


def apply_op(base, kind: str, op):
    c = copy.deepcopy(base)
    d = c["design"]
    what = op[0]
    if what == "set":
        d[op[1]] = op[2]
    elif what == "set-many":
        d.update(op[1])
    elif what == "drop":
        d.pop(op[1], None)
    elif what == "drop-visit-parameters":
        c["design"] = None
    elif what == "features":
        c["features"] = op[1]
    elif what == "model":
        c["model"] = nonlogistic_spec(op[1], c["model"])
        c["features"] = list(c["model"]["features"])
    elif what == "table":
        if op[1] == "drop-TIME":
            d["columns"] = ["ID"]
        elif op[1] == "rename-TIME":
            d["columns"] = ["ID", "T"]
        elif op[1] == "drop-ID":
            d["columns"] = ["TIME"]
        elif op[1] == "nan-age":
            d["rows"][op[2]][1] = None
        elif op[1] == "as-records":
            d["df_as"] = "records"
        elif op[1] == "absent":
            d["df_as"] = "absent"
    c.update(expect="refuse", invalid_kind=kind, op=op, reuse=None)
    c["info"] = dict(c.get("info") or {}, invalid=kind)
    return c


def invalid_case():
    st = _st()

    @st.composite
    def _c(draw):
        base_kind = draw(st.sampled_from(["random", "random", "table"]))
        base = draw(valid_case(base_kind))
        kinds = [k for k, (applies, _) in INVALID_KINDS.items() if applies in ("any", base_kind)]
        kind = draw(st.sampled_from(kinds))
        if not kind_enabled(kind):
            base["excluded"] = base["excluded"] + [f"{INVALID_KINDS[kind][1][8:]}:{kind}"]
            kind = draw(st.sampled_from([k for k in kinds if kind_enabled(k)]))
        op = draw(st.sampled_from(invalid_ops(kind, base)))
        return apply_op(base, kind, op)

    return _c()


# ------------------------------------------------------------------------------------------------
# building the real objects
# ------------------------------------------------------------------------------------------------
class FitFailed(Exception):
    pass


@contextlib.contextmanager
def quiet():
    with contextlib.redirect_stdout(io.StringIO()):
        yield


_RELOAD_N = [0]


def build_model(spec):
    from leaspy.models import BaseModel, LinearModel, LogisticModel, SharedSpeedLogisticModel

    cls = {"logistic": LogisticModel, "linear": LinearModel, "shared_speed_logistic": SharedSpeedLogisticModel}[spec.get("kind", "logistic")]
    obs = "gaussian-diagonal" if spec["noise"] == "diag" else "gaussian-scalar"
    m = cls(spec.get("kind", "logistic"), features=list(spec["features"]), source_dimension=spec["sd"], obs_models=obs)
    if spec["src"] == "hand":
        m.load_parameters(copy.deepcopy(spec["params"]))
        m._is_initialized = True
    else:
        df = gen.cohort_df(spec["cohort"])
        try:
            with quiet():
                m.fit(df, "mcmc_saem", n_iter=spec["n_iter"], seed=spec["fit_seed"], progress_bar=False)
        except Exception as e:  # fitting is not this property's business
            raise FitFailed(f"{type(e).__name__}") from e
    if spec.get("reload"):
        _RELOAD_N[0] += 1
        path = os.path.join(os.getcwd(), f"c18_model_{os.getpid()}_{_RELOAD_N[0]}.json")
        try:
            m.save(path)
            m = BaseModel.load(path)
        finally:
            if os.path.exists(path):
                os.remove(path)
    return m


def build_features(f):
    if isinstance(f, dict) and "tuple" in f:
        return tuple(f["tuple"])
    return copy.deepcopy(f)


def build_visit_parameters(design):
    import pandas as pd

    if design is None:
        return None
    if design.get("visit_type") != "dataframe" or "rows" not in design:
        return {k: copy.deepcopy(v) for k, v in design.items()}
    vp = {k: v for k, v in design.items() if k not in ("id_kind", "columns", "rows", "df_as", "extra_col", "index")}
    rows = [[r[0], float("nan") if r[1] is None else r[1]] for r in design["rows"]]
    if design.get("df_as") == "absent":
        return vp
    if design.get("df_as") == "records":
        vp["df_visits"] = rows
        return vp
    df = pd.DataFrame({"ID": [r[0] for r in rows], "TIME": [r[1] for r in rows]})
    if design.get("index") is not None:
        df.index = list(design["index"])
    if design.get("extra_col"):
        df["f0"] = [0.25] * len(df)
    cols = design.get("columns", ["ID", "TIME"])
    if cols == ["ID"]:
        df = df.drop(columns=["TIME"])
    elif cols == ["ID", "T"]:
        df = df.rename(columns={"TIME": "T"})
    elif cols == ["TIME"]:
        df = df.drop(columns=["ID"])
    vp["df_visits"] = df
    return vp


# -- random generators: state comparison + pass-through recorder ----------------------------------------
def rng_state():
    import random

    import numpy as np
    import torch

    s = np.random.get_state()
    return dict(numpy=(s[1].tobytes(), int(s[2]), int(s[3]), float(s[4])), torch=torch.get_rng_state().numpy().tobytes(),
                python=random.getstate())


def seed_all(n: int):
    import random

    import numpy as np
    import torch

    random.seed(n)
    np.random.seed(n % (2**32))
    torch.manual_seed(n)


_REC = {}


def install_recorder():
    """pass-through wrapper on the visit-age generator: records, never replaces (classification only)"""
    from leaspy.algo.simulate.simulate import SimulationAlgorithm

    if getattr(SimulationAlgorithm._generate_visit_ages, "_vf_wrapped", False):
        return
    orig = SimulationAlgorithm._generate_visit_ages

    def wrapper(self, df):
        out = orig(self, df)
        try:
            _REC["ages"] = {str(k): [float(x) for x in v] for k, v in out.items()}
        except Exception:
            _REC["ages"] = None
        return out

    wrapper._vf_wrapped = True
    SimulationAlgorithm._generate_visit_ages = wrapper


def build_call(case):
    """the objects a caller would hold: feature list, visit_parameters dict (with its DataFrame) and, for reuse='settings',
    one AlgorithmSettings object (created lazily inside the judged call)"""
    return dict(feats=build_features(case["features"]), vp=build_visit_parameters(case["design"]), settings=None)


def call_simulate(model, case, call=None):
    """returns (result|None, exception|None, rng verdict); `call` (see build_call) is re-used as is when given"""
    install_recorder()
    _REC.clear()
    if call is None:
        call = build_call(case)
    seed_all(case["pre_seed"])
    s0 = rng_state()
    res = exc = None
    try:
        with quiet():
            if case.get("reuse") == "settings":
                if call["settings"] is None:
                    from leaspy.algo import AlgorithmSettings

                    call["settings"] = AlgorithmSettings("simulate", features=call["feats"], visit_parameters=call["vp"], seed=case["seed"])
                res = model.simulate(algorithm_settings=call["settings"])
            else:
                kw = dict(algorithm="simulate", features=call["feats"], seed=case["seed"])
                if call["vp"] is not None:
                    kw["visit_parameters"] = call["vp"]
                res = model.simulate(**kw)
    except Exception as e:  # judged by the caller
        exc = e
    s1 = rng_state()
    changed = [k for k in s0 if s0[k] != s1[k]]
    if changed and case["seed"] is not None:
        seed_all(case["seed"])
        sf = rng_state()
        changed = [k for k in sf if sf[k] != s1[k]]
    return res, exc, changed


def snapshot_call(call):
    import pandas as pd

    vp = call["vp"]
    return dict(feats=copy.deepcopy(call["feats"]),
                vp=None if vp is None else {k: (v.copy(deep=True) if isinstance(v, pd.DataFrame) else copy.deepcopy(v)) for k, v in vp.items()})


def call_differences(call, snap) -> list:
    """what the callee changed in the caller's own objects (empty list = untouched)"""
    import pandas as pd

    out = []
    if call["feats"] != snap["feats"]:
        out.append(f"features: {snap['feats']!r} -> {call['feats']!r}")
    vp, vp0 = call["vp"], snap["vp"]
    if vp0 is not None:
        for k in sorted(set(vp0) | set(vp), key=str):
            if k not in vp:
                out.append(f"visit_parameters[{k!r}] removed (was {vp0[k]!r})"[:200])
            elif k not in vp0:
                out.append(f"visit_parameters[{k!r}] added")
            elif isinstance(vp0[k], pd.DataFrame):
                same = isinstance(vp[k], pd.DataFrame) and list(vp[k].columns) == list(vp0[k].columns) and \
                    list(vp[k].dtypes) == list(vp0[k].dtypes) and vp[k].equals(vp0[k]) and list(vp[k].index) == list(vp0[k].index)
                if not same:
                    out.append(f"visit_parameters[{k!r}] (table) modified")
            elif type(vp[k]) is not type(vp0[k]) or vp[k] != vp0[k]:
                out.append(f"visit_parameters[{k!r}]: {vp0[k]!r} -> {vp[k]!r}")
    return out


def output_key(res):
    """exact content of a result (ids, ages, values, individual parameters) as plain floats: bit-for-bit comparison"""
    df = res.data.to_dataframe()
    ip = res.individual_parameters
    if hasattr(ip, "to_dataframe") and not hasattr(ip, "columns"):
        ip = ip.to_dataframe()
    return dict(columns=[str(c) for c in df.columns],
                rows=[[str(r[0])] + [float(x).hex() for x in r[1:]] for r in df.itertuples(index=False, name=None)],
                ip_columns=[str(c) for c in ip.columns],
                ip=[[str(i)] + [float(x).hex() for x in row] for i, row in zip(ip.index, ip.itertuples(index=False, name=None))])


# ------------------------------------------------------------------------------------------------
# oracle
# ------------------------------------------------------------------------------------------------
def msg_key(exc) -> str:
    """first words of the message without quoted identifiers: separates root causes that surface in the same frame"""
    import re

    def words(t):
        return "".join(ch if ch.isalpha() else " " for ch in t).split()

    raw = str(exc)[:120]
    w = words(re.sub(r"'[^']*'|\"[^\"]*\"|`[^`]*`", " ", raw))
    if len(w) < 2:  # the whole message was quoted (e.g. a tuple of args)
        w = words(raw)
    return "-".join(w[:4]).lower()


def case_input(case):
    return {k: case[k] for k in ("model", "features", "design", "seed", "pre_seed", "expect", "reuse") if k in case} | (
        {"invalid_kind": case["invalid_kind"]} if "invalid_kind" in case else {})


def judge(col: Collector, case, model=None):
    """Run one case against the real code and record oracle failures on `col`. Returns (classes, nontrivial?)."""
    from leaspy.exceptions import LeaspyAlgoInputError

    inp = case_input(case)
    if model is None:
        model = build_model(case["model"])
    classes = ["expect:" + case["expect"]] + model_classes(case["model"])
    call = build_call(case)
    snap = snapshot_call(call)
    res, exc, changed = call_simulate(model, case, call)

    if case["expect"] == "refuse":
        kind = case.get("invalid_kind", "?")
        classes.append("invalid:" + kind)
        if exc is None:
            col.fail("invalid", f"invalid-accepted:{kind}", inp, observed="simulate returned a result", expected="LeaspyAlgoInputError")
        elif not isinstance(exc, LeaspyAlgoInputError):
            col.fail("invalid", f"wrong-exception:{kind}:{exc_bucket(exc)}", inp, observed=repr(exc)[:500] + f" | generators changed: {changed}",
                     expected="LeaspyAlgoInputError before anything is generated")
        elif changed:
            col.fail("invalid", f"refused-after-draws:{kind}", inp, observed=f"{exc!r}"[:300] + f" | generator state changed: {changed}",
                     expected="refusal with numpy/torch/python generator states untouched")
        return classes, False

    sub = "valid"
    design = case["design"]
    is_random = design["visit_type"] == "random"
    classes.append("valid:random" if is_random else "valid:table")
    classes += design_classes(case)
    if exc is not None:
        col.fail(sub, f"unexpected-exception:{exc_bucket(exc)}:{msg_key(exc)}", inp, observed=repr(exc)[:600],
                 expected="the design is valid: simulate completes")
        return classes, False
    ok, nontrivial = check_output(col, case, res, inp, sub, classes)
    if not ok or not case.get("reuse"):
        return classes, nontrivial

    # -- the same design objects serve a second call: it must complete, satisfy the same oracle, reproduce the first output
    #    (same seed, same design) and leave the caller's objects as they were before the first call
    sub = "valid-reuse"
    classes += ["reused-design-object", "reuse:" + case["reuse"]]
    key1 = output_key(res)
    res2, exc2, _ = call_simulate(model, case, call)
    if exc2 is not None:
        col.fail(sub, f"second-call-failed:{exc_bucket(exc2)}:{msg_key(exc2)}", inp, observed=repr(exc2)[:600],
                 expected="the second call with the same design object completes like the first")
    if exc2 is None and check_output(col, case, res2, inp, sub, [])[0]:
        key2 = output_key(res2)
        if key2 != key1:
            where = next((k for k in key1 if key1[k] != key2[k]), "?")
            col.fail(sub, "second-output-differs", inp, observed=f"first difference in {where}", expected="bit-identical output for the same seed and design")
    diff = call_differences(call, snap)
    if diff:
        col.fail(sub, "design-object-modified", inp, observed="; ".join(diff)[:600], expected="the caller's features / visit_parameters equal their deep copy taken before the first call")
    return classes, nontrivial


def check_output(col: Collector, case, res, inp, sub, classes):
    """validity predicate over one Result; returns (holds, non-trivial). Appends output-derived classes to `classes`."""
    design = case["design"]
    is_random = design["visit_type"] == "random"
    df = res.data.to_dataframe()
    feats = list(case["features"])
    cols = [c for c in df.columns if c not in ("ID", "TIME")]
    if sorted(map(str, cols)) != sorted(feats):
        col.fail(sub, "feature-columns-mismatch", inp, observed=cols, expected=feats)
        return False, False
    per = {}
    for id_, t in zip(df["ID"].tolist(), df["TIME"].tolist()):
        per.setdefault(str(id_), []).append(float(t))

    # -- individuals
    if is_random:
        if len(per) != design["patient_number"]:
            col.fail(sub, "wrong-number-of-individuals", inp, observed=len(per), expected=design["patient_number"])
            return False, False
    else:
        want = {str(r[0]) for r in design["rows"]}
        if set(per) != want:
            col.fail(sub, "wrong-id-set", inp, observed=sorted(per), expected=sorted(want))
            return False, False

    # -- ages
    p = precision_for(design)
    for id_, ts in per.items():
        if not all(math.isfinite(t) for t in ts):
            col.fail(sub, "age-not-finite", inp, observed={id_: ts[:20]}, expected="finite ages")
            return False, False
        if any(not (a < b) for a, b in zip(ts, ts[1:])):
            col.fail(sub, "ages-not-increasing", inp, observed={id_: ts[:20]}, expected="strictly increasing ages")
            return False, False
        keys = [math.floor(t * 10**p + 0.5) for t in ts]
        if len(set(keys)) != len(keys):
            col.fail(sub, "ages-not-unique-at-precision", inp, observed={id_: ts[:20]}, expected=f"distinct after rounding to {p} decimals")
            return False, False
    if not is_random:
        for id_, ts in per.items():
            got = set()
            for t in ts:
                k = round(t * 1000)
                if abs(t * 1000 - k) > 1e-4:
                    col.fail(sub, "table-age-not-rounded", inp, observed={id_: t}, expected="a multiple of 1e-3")
                    return False, False
                got.add(k)
            cands = [{math.floor(float(r[1]) * 1000 + 0.5 - 1e-6), math.floor(float(r[1]) * 1000 + 0.5 + 1e-6)}
                     for r in design["rows"] if str(r[0]) == id_]
            allowed = set().union(*cands)
            if not got <= allowed or any(not (c & got) for c in cands):
                col.fail(sub, "table-ages-mismatch", inp, observed={id_: sorted(got)}, expected={id_: sorted(allowed)})
                return False, False

    # -- values
    import numpy as np

    vals = df[cols].to_numpy(dtype=float)
    if not np.isfinite(vals).all():
        col.fail(sub, "value-not-finite", inp, observed=f"{int((~np.isfinite(vals)).sum())} non-finite cells", expected="finite values")
        return False, False
    if ((vals < 0) | (vals > 1)).any():
        col.fail(sub, "value-out-of-range", inp, observed=[float(vals.min()), float(vals.max())], expected="values within [0, 1]")
        return False, False
    if ((vals <= 1e-6) | (vals >= 1 - 1e-6)).any():
        classes.append("values:at-boundary")

    # -- individual parameters
    ip = res.individual_parameters
    if hasattr(ip, "to_dataframe") and not hasattr(ip, "columns"):
        ip = ip.to_dataframe()
    idx = [str(i) for i in ip.index]
    if len(idx) != len(set(idx)) or set(idx) != set(per):
        col.fail(sub, "params-rows-mismatch", inp, observed=idx[:30], expected=sorted(per)[:30])
        return False, False
    m = case["model"]
    need = ["xi", "tau"] + [f"sources_{i}" for i in range(m["sd"])] + [f"w_{j}" for j in range(m["dim"])]
    missing = [c for c in need if c not in list(ip.columns)]
    if missing:
        col.fail(sub, "params-columns-missing", inp, observed=list(ip.columns), expected=need)
        return False, False

    # -- classification from the recorded (pre-rounding) ages
    rec = _REC.get("ages")
    multi = sum(1 for ts in per.values() if len(ts) >= 2)
    if is_random:
        if any(len(ts) == 1 for ts in per.values()):
            classes.append("random:single-visit-individual")
        if rec:
            if sum(len(v) for v in rec.values()) > sum(len(v) for v in per.values()):
                classes.append("random:dedup-happened")
            if any(b < a for v in rec.values() for a, b in zip(v, v[1:])):
                classes.append("random:backward-step")
        nontrivial = multi >= 2 and design["distance_visit_std"] > 0
    else:
        nontrivial = "table:near-dup" in classes
    return True, bool(nontrivial)


def model_classes(m):
    out = ["model:" + ("fitted" if m["src"] == "fit" else "hand"), f"model:sd{m['sd']}", f"model:dim{m['dim']}", "noise:" + m["noise"]]
    if m.get("reload"):
        out.append("model:reloaded")
    if m.get("kind", "logistic") != "logistic":
        out.append("model:" + m["kind"])
    return out


def design_classes(case):
    d = case["design"]
    out = []
    info = case.get("info") or {}
    if info.get("features"):
        out.append("features:" + info["features"])
    out.append("seed:none" if case["seed"] is None else "seed:int")
    if d["visit_type"] == "random":
        std, mean = d["distance_visit_std"], d["distance_visit_mean"]
        out.append("random:std0" if std == 0 else ("random:std>>mean" if std >= 3 * mean else "random:std<=mean"))
        if d["patient_number"] == 1:
            out.append("random:one-individual")
        if "min_spacing_between_visits" not in d:
            out.append("msp:absent")
        else:
            s = d["min_spacing_between_visits"]
            out.append("msp:below-1e-3" if s < 1e-3 else ("msp:>=1" if s >= 1 else "msp:1e-3..1"))
        if info.get("layout"):
            out.append("random:layout-" + info["layout"])
        if any(isinstance(d[k], int) for k in MEAN_KEYS + STD_KEYS):
            out.append("random:int-typed-numbers")
        if abs(d["first_visit_mean"]) >= 40:
            out.append("random:extreme-first-visit")
    else:
        rows = d["rows"]
        per = {}
        for r in rows:
            per.setdefault(str(r[0]), []).append(float(r[1]))
        near = exact = False
        for ts in per.values():
            s = sorted(ts)
            for a, b in zip(s, s[1:]):
                if b == a:
                    exact = True
                elif b - a < 1e-3:
                    near = True
        if near:
            out.append("table:near-dup")
        if exact:
            out.append("table:exact-dup")
        out.append("table:ids-" + ("int" if isinstance(rows[0][0], int) else "str"))
        if len(per) == 1:
            out.append("table:one-individual")
        if any(len(v) == 1 for v in per.values()):
            out.append("table:single-visit-individual")
        if info.get("order") in ("unsorted", "interleaved"):
            out.append("table:" + info["order"])
        if info.get("int_time"):
            out.append("table:int-ages")
        if d.get("extra_col"):
            out.append("table:extra-column")
        out.append("table:index-" + index_shape(d.get("index"), len(rows)))
    return out


def index_shape(index, n) -> str:
    if index is None or list(index) == list(range(n)):
        return "default"
    if any(isinstance(x, str) for x in index):
        return "strings"
    if len(set(index)) < len(index):
        return "duplicated"
    if sorted(index) == list(range(n)):
        return "permuted"
    return "gaps"


def brief(case):
    m = case["model"]
    d = case["design"]
    out = dict(model=dict(src=m["src"], dim=m["dim"], sd=m["sd"], noise=m["noise"], reload=m.get("reload", False)),
               features=case["features"], seed=case["seed"], expect=case["expect"])
    if isinstance(d, dict) and "rows" in d:
        out["design"] = dict(visit_type=d.get("visit_type"), n_rows=len(d["rows"]), rows_head=d["rows"][:6], index_head=(d.get("index") or [])[:6])
    else:
        out["design"] = d
    if "invalid_kind" in case:
        out["invalid"] = [case["invalid_kind"], case.get("op")]
    return out


# ------------------------------------------------------------------------------------------------
# bodies / shards
# ------------------------------------------------------------------------------------------------
def body_single(col: Collector, case, model=None):
    for e in case.get("excluded", []):
        col.exclude(e)
    classes, nt = judge(col, case, model=model)
    if nt:
        classes.append("nontrivial")
    col.case(classes=classes, nontrivial=jhash(case_input(case)) if nt else None, sample=brief(case))


def body_multi(col: Collector, mc):
    try:
        model = build_model(mc["model"])
    except FitFailed as e:
        col.exclude(f"fit-failed:{e}")
        return
    for run in mc["runs"]:
        body_single(col, dict(run, model=mc["model"]), model=model)


def shard_valid(seed: int, n_examples: int, design: str, shard: int = 0):
    env.import_leaspy()
    col = Collector(PROP, f"{design}-{shard}")
    drive(col, valid_case(design), body_single, n_examples=n_examples, seed=shard_seed(seed, shard, salt={"random": 1, "table": 2}[design]),
          sub_check="valid")
    return col


def shard_fitted(seed: int, n_examples: int, shard: int = 0):
    env.import_leaspy()
    col = Collector(PROP, f"fitted-{shard}")
    drive(col, fitted_multi_case(3), body_multi, n_examples=n_examples, seed=shard_seed(seed, shard, salt=3), sub_check="valid")
    return col


def shard_invalid(seed: int, n_examples: int, shard: int = 0):
    env.import_leaspy()
    col = Collector(PROP, f"invalid-{shard}")
    drive(col, invalid_case(), body_single, n_examples=n_examples, seed=shard_seed(seed, shard, salt=4), sub_check="invalid")
    return col


def _m(dim, sd, noise="diag", **kw):
    p = {"tau_mean": [70.0], "tau_std": [5.0], "xi_std": [0.5], "noise_std": [0.05] * (dim if noise == "diag" else 1),
         "log_g_mean": [0.5] * dim, "log_v0_mean": [-4.0] * dim}
    if sd:
        p["betas_mean"] = [[0.1] * sd for _ in range(dim - 1)]
    return dict(src="hand", kind="logistic", dim=dim, sd=sd, noise=noise, reload=False, features=[f"f{j}" for j in range(dim)], params=p, **kw)


_RANDOM = dict(visit_type="random", patient_number=4, first_visit_mean=0.0, first_visit_std=0.4, time_follow_up_mean=3, time_follow_up_std=0.5,
               distance_visit_mean=0.5, distance_visit_std=0.1)
_TABLE = dict(visit_type="dataframe", id_kind="s", columns=["ID", "TIME"], df_as="frame", extra_col=False,
              rows=[["a", 70.0], ["a", 71.5], ["b", 65.0], ["a", 70.0004], ["b", 66.25]])


def _case(model, design, features=None, seed=0, expect="complete", **kw):
    return dict(model=model, features=list(model["features"]) if features is None else features, design=copy.deepcopy(design),
                seed=seed, pre_seed=12345, expect=expect, **kw)


def grid_bases():
    return [_case(_m(3, 2), _RANDOM, seed=0, reuse="dict"), _case(_m(2, 1), _RANDOM, seed=None, reuse="settings"),
            _case(_m(3, 2), dict(_TABLE, index=[3, 0, 4, 1, 2]), seed=7, reuse="settings"),
            _case(_m(2, 1), dict(_TABLE, index=[0, 1, 2, 0, 1]), seed=None, reuse="dict")]


def shard_invalid_grid(shard: int = 0):
    """every single-point corruption of the fixed base cases (finite: enumerated, not sampled)"""
    env.import_leaspy()
    col = Collector(PROP, "invalid-grid")
    n = 0
    for base in grid_bases():
        bk = "random" if base["design"]["visit_type"] == "random" else "table"
        body_single(col, dict(base, info={}))  # the base itself is valid and must run
        for kind, (applies, _) in INVALID_KINDS.items():
            if applies not in ("any", bk):
                continue
            for op in invalid_ops(kind, base):
                if not kind_enabled(kind):
                    col.exclude(f"{INVALID_KINDS[kind][1][8:]}:{kind}")
                    continue
                body_single(col, apply_op(base, kind, op))
                n += 1
    col.extra["invalid_grid_cases"] = n
    return col


# -- reproducers of the defects that are excluded by construction --------------------------------------
def reproducers():
    return {
        "F14": ("EXCLUDE_F14", "valid", _case(_m(2, 1), dict(_RANDOM, patient_number=1))),
        "F14-table": ("EXCLUDE_F14", "valid", _case(_m(2, 1), dict(_TABLE, rows=[["a", 70.0], ["a", 71.0]]))),
        "F18": ("EXCLUDE_F18", "valid", _case(_m(2, 1, "scalar"), _RANDOM)),
        "F20": ("EXCLUDE_F20", "invalid", _case(_m(3, 2), _RANDOM, features=["f0", "f1"], expect="refuse", invalid_kind="features-length-F20")),
        "N1": ("EXCLUDE_N1_NOSRC", "valid", _case(_m(2, 0), _RANDOM)),
        "N2": ("EXCLUDE_N2_LATE_MODEL_CHECK", "invalid", _case(nonlogistic_spec("linear", _m(2, 1)), _RANDOM, expect="refuse", invalid_kind="non-logistic-N2")),
        "N3": ("EXCLUDE_N3_TYPEERROR", "invalid", _case(_m(2, 1), dict(_RANDOM, patient_number="3"), expect="refuse", invalid_kind="type-N3")),
        "N4": ("EXCLUDE_N4_KEYERROR", "invalid", _case(_m(2, 1), {k: v for k, v in _RANDOM.items() if k != "distance_visit_std"},
                                                     expect="refuse", invalid_kind="missing-key-N4")),
    }


def shard_findings(shard: int = 0):
    """re-run the reproducer of every defect that is excluded by construction: still failing -> counted; no longer
    failing -> a note asking to flip the flag; flag already off -> ordinary regression case (failures are violations)."""
    env.import_leaspy()
    col = Collector(PROP, "findings")
    for name, (flag, sub, case) in reproducers().items():
        if globals()[flag]:
            tmp = Collector(PROP, "tmp")
            judge(tmp, case)
            if tmp.failures:
                col.case(classes=[f"finding-reproduced:{name}"])
                col.extra[f"finding_{name}_bucket"] = tmp.failures[0]["bucket"]
            else:
                col.case(classes=[f"finding-gone:{name}"])
                col.notes.append(f"{name} no longer reproduces: set {flag} = False in vf/checks/c18.py")
        else:
            body_single(col, dict(case, info={}))
    return col


def shards(tier: str, seed: int):
    # measured cost (one core): random/table case ~0.08 s, fitted multi-case (1 fit + 3 runs) ~0.6 s, invalid case ~0.03 s
    quick = tier == "quick"
    specs = []
    for s in range(2 if quick else 4):
        specs.append((MOD, "shard_fitted", dict(seed=seed, n_examples=30 if quick else 300, shard=s)))
    for s in range(6 if quick else 8):
        specs.append((MOD, "shard_valid", dict(seed=seed, n_examples=260 if quick else 3500, design="random", shard=s)))
    for s in range(4 if quick else 8):
        specs.append((MOD, "shard_valid", dict(seed=seed, n_examples=260 if quick else 3500, design="table", shard=s)))
    for s in range(2 if quick else 4):
        specs.append((MOD, "shard_invalid", dict(seed=seed, n_examples=500 if quick else 6000, shard=s)))
    specs.append((MOD, "shard_invalid_grid", dict()))
    specs.append((MOD, "shard_findings", dict()))
    return specs


def replay(sub_check: str, inp):
    env.import_leaspy()
    col = Collector(PROP, "replay")
    judge(col, inp)
    return col.failures
