"""C04 - the maximisation step is the closed-form maximiser of the sufficient statistics.

Generated cohorts x model kinds x noise structures x short seeded fits; `_maximization_step` is wrapped pass-through and every
iteration is judged: parameters after the step vs (a) an independent float64 implementation of the documented closed forms fed
with the statistics in force and the parameters held *before* the step, (b) each update rule recomputed separately on a copy of
the pre-step state ("all together from the pre-step state, never one from another's new value").
"""
from __future__ import annotations

from hypothesis import strategies as st

from vf.checks.c01 import fast_copy, fresh_state, same
from vf.core import env, gen, observe
from vf.core.harness import Collector, drive, exc_bucket, jhash, shard_seed

PROP = "C04"
MOD = "vf.checks.c04"
RULE = (
    "Hypothesis cases: model kind (logistic, linear, shared-speed, joint, mixture) x noise (scalar/diagonal) x dimension 1-3 x sources x "
    "generated cohort (4-10 individuals, 2-6 visits, complete/sparse/feature-missing patterns) x n_iter 4-30 x burn-in fraction "
    "(so that memory-less iterations, the first iteration with memory and later ones all occur) x seed x sampler kind; every iteration of every "
    "run is one evaluation. Non-trivial = cohort with >= 1 partially missing visit and >= 2 individuals, judged at a burn-in, a first-with-memory "
    "or a later iteration; distinct by (configuration, iteration)."
)
ASSUMPTIONS = [
    "float64 reference of the documented formulas; relative tolerance 1e-4 for means and noise levels; for the post-burn-in std rule the admitted error on the variance is 16*eps32*(E[x^2] + 2|m_old E[x]| + m_old^2) (float32 cancellation on tau).",
    "LeaspyConvergenceError (variance below 1e-5) is the documented outcome for collapsed variances and ends the case as a rejected input.",
    "Mixture kind: probabilities = mean responsibilities (sum to one within 1e-6) and the batched-update clause are checked; per-cluster means = responsibility-weighted means of the latent values of the pre-step state (responsibilities = softmax of minus the per-cluster regularity, floored at -100, of that state); per-cluster std rules are only checked for batch consistency.",
]
REQUIRED_CLASSES = {"iter:burn-in": 300, "iter:first-with-memory": 30, "iter:later": 200, "noise:scalar-multivariate-partial-missing": 30,
                    "noise:diagonal": 200, "nontrivial": 300, "mixture:cluster-means-judged:with-memory": 40, "mixture:outlier-state:floored": 100}

EPS32 = 1.1920929e-07


def T64(v):
    return (v.value if hasattr(v, "value") else v).detach().double().clone()


class Fail(Exception):
    def __init__(self, bucket, observed="", expected=""):
        self.bucket, self.observed, self.expected = bucket, observed, expected


def close(got, exp, rtol=1e-4, atol=1e-7):
    import torch

    g, e = got.double().reshape(-1), exp.double().reshape(-1)
    if g.shape != e.shape:
        return False
    return bool(torch.allclose(g, e, rtol=rtol, atol=atol, equal_nan=True))


def judge_iteration(model, dag, rec, classes):
    """rec: dict(k, burn_in, pre (params before), S (statistics in force), post (params after), y, w, pre_state)"""
    import torch

    from leaspy.variables.specs import IndividualLatentVariable, ModelParameter, PopulationLatentVariable

    pre, S, post, burn = rec["pre"], rec["S"], rec["post"], rec["burn_in"]
    pop = set(dag.sorted_variables_by_type.get(PopulationLatentVariable, {}))
    ind = set(dag.sorted_variables_by_type.get(IndividualLatentVariable, {}))
    mixture = "probs" in post
    for p, got in post.items():
        base = p[:-5] if p.endswith("_mean") else (p[:-4] if p.endswith("_std") else None)
        if p.endswith("_mean") and base in pop:
            exp = T64(S[base])
            if not close(got, exp.reshape(got.shape)):
                raise Fail("pop-mean-differs-from-statistic", f"{p} = {got.flatten()[:4].tolist()}", f"{exp.flatten()[:4].tolist()}")
        elif p.endswith("_mean") and base in ind and not mixture:
            exp = T64(S[base]).mean(0)
            if not close(got, exp.reshape(got.shape)):
                raise Fail("ind-mean-differs-from-average", f"{p} = {got.flatten()[:4].tolist()}", f"{exp.flatten()[:4].tolist()}")
        elif p.endswith("_mean") and base in ind and mixture:
            # per-cluster prior mean = responsibility-weighted mean of the individual latent values held in the pre-step state,
            # the responsibilities being those of the same state (models/utilities.py; coincides with the statistic in force
            # during the memory-less phase and at the first iteration with memory)
            z = T64(rec["pre_state"][base])
            nll = T64(rec["pre_state"]["nll_regul_ind_sum_ind"])
            resp = torch.softmax(torch.clamp(-nll, min=-100.0), dim=1)  # (n_ind, n_clusters)
            if z.ndim == 2 and z.shape[1] == 1 and got.ndim == 1:
                exp = (resp * z).sum(0) / resp.sum(0)
            else:  # sources: (n_ind, n_sources) -> (n_sources, n_clusters)
                exp = (z.unsqueeze(-1) * resp.unsqueeze(1)).sum(0) / resp.sum(0)
            classes.append("mixture:cluster-means-judged" + ("" if burn else ":with-memory"))
            if exp.numel() != got.numel() or not close(got, exp.reshape(got.shape), rtol=1e-4, atol=1e-6):
                raise Fail("mixture-cluster-mean-differs-from-responsibility-weighted-mean", f"{p} = {got.flatten()[:4].tolist()}", f"{exp.flatten()[:4].tolist()}")
        elif p.endswith("_std") and base in ind and not mixture:
            x = T64(S[base])
            if burn:
                exp = x.std(0, unbiased=True)
                if not close(got, exp.reshape(got.shape)):
                    raise Fail("ind-std-burn-in-differs-from-sample-std", f"{p} = {got.flatten()[:4].tolist()}", f"{exp.flatten()[:4].tolist()} (n-1 dispersion of the realisations)")
            else:
                x2 = T64(S[base + "_sqr"])
                m_old = pre[base + "_mean"].double() if (base + "_mean") in pre else T64(rec["pre_state"][base + "_mean"])
                var = x2.mean(0) - 2 * m_old * x.mean(0) + m_old ** 2
                tol_var = 16 * EPS32 * (x2.mean(0).abs() + 2 * (m_old * x.mean(0)).abs() + m_old ** 2) + 1e-12
                gv = got.double().reshape(var.shape) ** 2
                if bool(((gv - var).abs() > tol_var + 1e-4 * var.abs()).any()):
                    raise Fail("ind-std-differs-from-documented-rule", f"{p} = {got.flatten()[:4].tolist()}",
                               f"sqrt(E[x^2] - 2 m_old E[x] + m_old^2) = {var.clamp_min(0).sqrt().flatten()[:4].tolist()} with m_old = {m_old.flatten()[:2].tolist()}")
        elif p == "noise_std":
            y, w = rec["y"], rec["w"].double()
            yxm, mxm = T64(S["y_x_model"]), T64(S["model_x_model"])
            y0 = torch.where(w > 0, y, torch.zeros_like(y))
            yxm0 = torch.where(w > 0, yxm, torch.zeros_like(yxm))
            mxm0 = torch.where(w > 0, mxm, torch.zeros_like(mxm))
            if got.numel() == 1 and y.shape[-1] >= 1 and rec["scalar_noise"]:
                dims = tuple(range(y.ndim))
            else:
                dims = (0, 1)
            n_obs = w.sum(dims)
            var = ((y0 * y0).sum(dims) - 2 * yxm0.sum(dims) + mxm0.sum(dims)) / n_obs
            # y^2 - 2 y m + m^2 cancels in float32 when the fit is tight: tolerance from the conditioning of the documented formula
            tol_var = 16 * EPS32 * ((y0 * y0).sum(dims) + 2 * yxm0.abs().sum(dims) + mxm0.sum(dims)) / n_obs + 2e-4 * var.abs()
            gv = got.double().reshape(var.shape) ** 2
            if bool(((gv - var).abs() > tol_var).any()):
                raise Fail("noise-std-differs-from-rms-residual-over-observed-entries", f"noise_std = {got.flatten()[:4].tolist()}",
                           f"{var.clamp_min(0).sqrt().flatten()[:4].tolist()}")
        elif p == "probs":
            s = float(got.double().sum())
            if abs(s - 1) > 1e-6 * max(1, got.numel()):
                raise Fail("mixture-probabilities-do-not-sum-to-one", s, 1.0)
            nll = T64(rec["pre_state"]["nll_regul_ind_sum_ind"])
            resp = torch.softmax(torch.clamp(-nll, min=-100.0), dim=1)
            exp = resp.mean(0)
            if not close(got, exp.reshape(got.shape), rtol=1e-4, atol=1e-6):
                raise Fail("mixture-probabilities-differ-from-mean-responsibilities", got.tolist(), exp.tolist())
    if mixture and "tau" in ind:
        judge_outlier_state(dag, rec, classes)
    # batched update: each rule recomputed alone on a copy of the pre-step state must give the value that was assigned
    ps = rec["pre_state_obj"]
    for p, var in dag.sorted_variables_by_type[ModelParameter].items():
        exp = var.compute_update(state=ps, suff_stats=rec["S_raw"], burn_in=burn)
        if not same(post_raw(rec, p), exp) and not close(post_raw(rec, p), T64(exp).reshape(post_raw(rec, p).shape), rtol=0, atol=0):
            raise Fail("parameter-not-updated-from-pre-step-state", f"{p} = {post_raw(rec, p).flatten()[:4].tolist()}",
                       f"{T64(exp).flatten()[:4].tolist()} (rule evaluated on the pre-step state)")


def judge_outlier_state(dag, rec, classes):
    """Mixture rules evaluated on the pre-step state with ONE individual moved far from every cluster (a subject followed
    decades before the others reaches such a state at the first iterations): responsibilities are the softmax of the per-cluster
    log-densities floored at -100, so this subject is shared between the clusters relative to that floor."""
    import torch

    from leaspy.variables.specs import ModelParameter

    ps2 = fresh_state(rec["pre_state_obj"])
    shift = (-100.0, 90.0, -60.0)[rec["k"] % 3]
    with ps2.auto_fork(None):
        tau = ps2._values["tau"].clone()
        tau[0] = tau[0] + shift
        ps2["tau"] = tau
    nll = T64(ps2["nll_regul_ind_sum_ind"])
    resp = torch.softmax(torch.clamp(-nll, min=-100.0), dim=1)
    floored = bool((-nll[0] < -100.0).any())
    classes.append("mixture:outlier-state" + (":floored" if floored else ""))
    params = dag.sorted_variables_by_type[ModelParameter]
    for p in ("probs", "tau_mean", "xi_mean", "sources_mean"):
        if p not in params:
            continue
        got = params[p].compute_update(state=ps2, suff_stats=rec["S_raw"], burn_in=rec["burn_in"])
        if p == "probs":
            exp = resp.mean(0)
        else:
            z = T64(ps2[p[:-5]])
            exp = (resp * z).sum(0) / resp.sum(0) if (z.ndim == 2 and z.shape[1] == 1) else (z.unsqueeze(-1) * resp.unsqueeze(1)).sum(0) / resp.sum(0)
        if exp.numel() != got.numel() or not close(got, exp.reshape(got.shape), rtol=1e-4, atol=1e-6):
            raise Fail("mixture-rule-on-outlier-state-differs-from-floored-responsibilities:" + p, f"{p} = {T64(got).flatten()[:4].tolist()}",
                       f"{exp.flatten()[:4].tolist()} (tau of individual 0 shifted by {shift})")


def post_raw(rec, p):
    return rec["post"][p]


def body(col: Collector, case):
    import torch

    from leaspy.algo import AlgorithmSettings
    from leaspy.algo.fit.mcmc_saem import TensorMcmcSaemAlgorithm as A
    from leaspy.exceptions import LeaspyConvergenceError

    cfg, cohort, akw = case["cfg"], case["cohort"], case["algo"]
    stats = gen.cohort_stats(cohort)
    recs = []

    def before_max(self, model, state):
        pre_state = fresh_state(state)
        recs.append(dict(k=self.current_iteration, burn_in=self._is_burn_in(), pre={k: state[k].clone() for k in model.parameters_names},
                         pre_state_obj=pre_state))

    def after_max(out, self, model, state):
        r = recs[-1]
        r["S_raw"] = dict(self.sufficient_statistics)
        r["S"] = {k: v for k, v in self.sufficient_statistics.items()}
        r["post"] = {k: state[k].clone() for k in model.parameters_names}
        # the step re-centres xi before computing the statistics: the "pre-step state" the rules see is the state at that point
        if "y" in state.dag:
            r["y"], r["w"] = T64(state["y"]), state["y"].weight.clone()

    # the statistics are computed (and xi re-centred) inside the step: snapshot the state the rules actually see
    def after_css(out, st_):
        recs[-1]["pre_state_obj"] = fresh_state(st_)

    df, data, ds = gen.dataset_from_case(cohort)
    model = gen.build_model(cfg)
    scalar_noise = cfg["kwargs"].get("obs_models") == "gaussian-scalar"
    try:
        ocs = type(model).compute_sufficient_statistics

        with observe.wrap_method(A, "_maximization_step", before=before_max, after=after_max):
            orig = model.compute_sufficient_statistics

            def wcs(st_):
                out = orig(st_)
                after_css(out, st_)
                return out

            model.compute_sufficient_statistics = wcs
            try:
                model.fit(data, algorithm_settings=AlgorithmSettings("mcmc_saem", progress_bar=False, **akw))
            finally:
                del model.compute_sufficient_statistics
    except LeaspyConvergenceError:
        col.exclude("fit-collapsed-variance(LeaspyConvergenceError)")
        if not recs:
            return
        recs = [r for r in recs if "post" in r]
    except Exception as e:
        if type(e).__name__ == "ConvergenceError":
            col.exclude("joint-init-weibull-fit-not-converged")
            return
        if gen.is_zero_scale_refusal(e):
            col.exclude("sampler-refused:zero-initial-scale")
            return
        col.fail("fit", "unexpected-exception:" + exc_bucket(e), case, observed=repr(e), expected="fit runs")
        return
    nb = int(akw["n_burn_in_iter_frac"] * akw["n_iter"])
    dag = model.dag
    multiv = len(cohort["features"]) > 1
    for r in recs:
        if "post" not in r:
            continue
        k = r["k"]
        r["scalar_noise"] = scalar_noise
        r["pre_state"] = {n: v for n, v in r["pre_state_obj"]._values.items() if v is not None}
        regime = "burn-in" if k <= nb else ("first-with-memory" if k == nb + 1 else "later")
        classes = ["iter:" + regime, "kind:" + cfg["kind"]]
        if "noise_std" in r["post"]:
            classes.append("noise:scalar" if scalar_noise else "noise:diagonal")
            if scalar_noise and multiv and stats["partial_visits"] > 0:
                classes.append("noise:scalar-multivariate-partial-missing")
        try:
            judge_iteration(model, dag, r, classes)
        except Fail as f:
            inp = dict(case, iteration=k)
            col.fail("m-step", f.bucket, inp, observed=f"iteration {k} ({regime}): {f.observed}", expected=f.expected)
            col.case(classes=classes)
            break
        except LeaspyConvergenceError:
            col.exclude("rule-recomputation-collapsed-variance")
            continue
        nt = stats["partial_visits"] >= 1 and stats["n_ind"] >= 2
        if nt:
            classes.append("nontrivial")
        col.case(classes=classes, nontrivial=jhash([cfg, akw, cohort["rows"][:4], k]) if nt else None,
                 sample=dict(model=cfg, algo=akw, iteration=k, regime=regime, n_ind=stats["n_ind"], partial_visits=stats["partial_visits"],
                             params_after={p: v.flatten()[:3].tolist() for p, v in list(r["post"].items())[:4]}))


@st.composite
def fit_case(draw, kinds):
    cfg = draw(gen.model_cfg(kinds=kinds, dim=(1, 3)))
    feats = [f"f{j}" for j in range(cfg["kwargs"]["dimension"])]
    cohort = draw(gen.cohort(kind=gen.data_kind_for(cfg), n_ind=(max(4, gen.min_ind_for(cfg)), 10), n_visits=(2, 6), features=feats,
                             event=cfg["kind"] == "joint", id_kinds=("s", "int"), shuffle=False))
    n_iter = draw(st.integers(4, 30))
    akw = dict(n_iter=n_iter, seed=draw(st.integers(0, 9999)), n_burn_in_iter_frac=draw(st.sampled_from([0.0, 0.25, 0.5, 0.5, 0.75, 0.9, 1.0])))
    if draw(st.booleans()):
        akw["sampler_pop"] = draw(st.sampled_from(["Gibbs", "FastGibbs", "Metropolis-Hastings"]))
    return dict(cfg=cfg, cohort=cohort, algo=akw)


def shard_run(kinds, seed: int, n_examples: int, shard: int = 0):
    env.import_leaspy()
    col = Collector(PROP, f"fit-{'+'.join(kinds)}-{shard}")
    drive(col, fit_case(tuple(kinds)), body, n_examples=n_examples, seed=shard_seed(seed, shard, 4))
    return col


def shards(tier: str, seed: int):
    n = dict(quick=40, thorough=450)[tier]
    ksets = [("logistic",), ("linear",), ("shared_speed_logistic",), ("joint",), ("mixture_logistic",), ("logistic", "linear"), ("logistic",), ("joint", "logistic")]
    return [(MOD, "shard_run", dict(kinds=ksets[k % len(ksets)], seed=seed, n_examples=n, shard=k)) for k in range(16)]


def replay(sub_check: str, inp):
    env.import_leaspy()
    col = Collector(PROP, "replay")
    body(col, {k: v for k, v in inp.items() if k != "iteration"})
    return col.failures
