"""C16 - individual-parameter containers convert losslessly.

Engines: (R) Hypothesis-generated containers (ids x parameter names x shapes x scalar types x values), each pushed
through the five forms dict / table / tensor / csv / json and back; (G) a bounded-exhaustive grid over
(container form x scalar type x parameter name x identifier alphabet) and over pairs of forms; (X) malformed
additions (duplicate / non-string id, unsupported value type, inconsistent shape, non-dict, from_pytorch length
mismatch) on generated base containers.
Oracle: an independent reference model of the container (ordered ids, name -> (is_scalar, size, flat float64
values)) built from the plain-JSON case, compared with what each form / round trip yields.
"""
from __future__ import annotations

import copy
import itertools
import os

from hypothesis import strategies as st

from vf.core import env
from vf.core.harness import Collector, drive, exc_bucket, jhash, shard_seed

PROP = "C16"
MOD = "vf.checks.c16"

# ------------------------------------------------------------------------------------------------
# input classes excluded by construction because of genuine defects (flip to False once repaired)
# ------------------------------------------------------------------------------------------------
# F10: a value added as np.float32 / np.int32 / np.int64 scalar (accepted types) makes the JSON `save` raise TypeError.
#      While True, the json form is not exercised for cases holding such a scalar (counted as excluded "F10:...").
EXCLUDE_F10 = False
# F12: a parameter name containing "_" is truncated at the first "_" by from_dataframe (`my_p` -> `my`).
#      While True, the table forms (df, csv) are not exercised for cases with such a name (counted as excluded "F12:...").
EXCLUDE_F12 = True
# NEW (csv float text): `_load_csv` uses pandas' default (fast, not round-trip) float parser, so float64 values come back
#      with a relative error up to ~1e-12. While True, csv values that are not "short decimals" (see `csv_safe`) are
#      compared with CSV_RTOL instead of exactly (counted as excluded "csv-float-parse:...").
EXCLUDE_CSV_FLOAT_PARSE = False
CSV_RTOL = 1e-9       # looser than the observed parser error (<= 1e-12), tighter than single precision (6e-8)
CSV_ATOL = 1e-321     # a few denormal ulps

RULE = (
    "R: Hypothesis containers: 1-10 unique ids from one of 10 alphabets (words, digits-only, leading zeros, numeric-looking "
    "'1e5'/'1.0'/'-0'/'True', spaces/tabs/newline, unicode incl. NBSP/U+2028/BOM, all 19 pandas NA sentinels incl. '', csv specials "
    "(comma, quotes), free text without control characters, a mix of all pools); 1-4 parameter names (plain, 'source'-like, with '_'); per parameter a shape in "
    "{scalar, length-1, length 2-5, length 11-13}; per individual a container form in {python scalar, 0-d ndarray, list, "
    "1-d ndarray}, a key order, and values from {short decimals, float32-exact floats, any finite float64 incl. denormals "
    "and 1e308, ints |v|<=2^53, np.int32/int64/float32/float64 scalars, per-element mixes}. Every case goes through "
    "dict, to_dataframe/from_dataframe, to_pytorch/from_pytorch, save/load csv and save/load json (minus the forms excluded "
    "for F10/F12). About a third of the cases with >= 2 ids are multi-step: the container is built incrementally, all forms "
    "are produced and judged after the first j individuals at 1-2 drawn points j, then individuals keep being added to the "
    "same object and every form is judged again at the end (class roundtrip:interleaved-conversions). About a quarter of the cases use build mode 'reused-dict': one caller-side dict "
    "object is overwritten and passed to add_individual_parameters for every individual and overwritten once more after the "
    "last addition (half of them without any ndarray value). G: every (form x scalar type x name x id alphabet) single-parameter container and every ordered pair of "
    "forms x scalar type x id alphabet. X: generated base container + one malformed addition of each kind. "
    "Non-trivial (R, G) = >= 2 ids, >= 1 scalar-valued and >= 1 length-n (n >= 2) parameter; distinct by the whole case. "
    "Non-trivial (X) = rejection on a non-empty base container; distinct by the whole case."
)
ASSUMPTIONS = [
    "Reference model: ids in insertion order, per parameter (scalar?, size, flat values); the shape is compared exactly in the dict and json forms and modulo scalar == length-1 in the table, csv and tensor forms (to_pytorch is documented 'always 2D', table columns are `name` or `name_i`). Parameter names are compared as a set (their order is not part of the statement).",
    "Values: exact float64 equality (int 3 == 3.0) for dict/table/csv/json, float32(value) equality for the tensor form; a value that was added as an np.float32 scalar is compared at single precision in the table/csv forms (pandas keeps such a column in float32). Overflow to inf beyond the float32 range is what 'to single precision' means and is accepted.",
    "Domain restrictions (observed, not judged): >= 1 individual (an empty container has no names/shapes; to_dataframe/to_pytorch raise AttributeError on it, save refuses it as documented); integers within +-2^53 (np.int32 within its range, and within +-2^24 where np.int32 and np.float32 scalars are mixed for one parameter across individuals: pandas infers a float32 column for that pair of types); finite values only; identifiers without control characters ('\\r' and NUL break the csv form) or lone surrogates; parameter names non-empty and != 'ID' (reserved by the table layout); lists are homogeneous in python type class only where the code checks it (a list whose *first* element is valid but a later one is a str is accepted by add_individual_parameters; not generated).",
    "Rejections: LeaspyIndividualParamsInputError and an unchanged container (_indices, _individual_parameters, _parameters_shape); afterwards the repaired addition under a fresh id must be accepted. Unsupported value types generated: str, None, bool, dict, nested list, 2-d ndarray (scalar position or every list element).",
    "A conversion must reflect the container as it is when the conversion is called: converting, adding further individuals to the same object and converting again is judged against the reference model of all individuals added so far.",
    "The container owns its entries: overwriting the keys of the dict that was passed to add_individual_parameters afterwards must not change any form, and add_individual_parameters must leave the caller's dict (keys, value objects, contents) as it was. In-place mutation of a caller-side list value is not exercised (the current tree stores the caller's list objects).",
    "While EXCLUDE_F10 / EXCLUDE_F12 / EXCLUDE_CSV_FLOAT_PARSE are True the corresponding (input class x form) pairs are dropped / compared with CSV_RTOL by construction and counted under `excluded`.",
]
REQUIRED_CLASSES = {  # absolute counts, about a third of what the quick tier produces
    "nontrivial": 0.15,
    "ids:words": 500, "ids:digits": 500, "ids:zeros": 500, "ids:numeric-looking": 500, "ids:spaces": 500, "ids:unicode": 500,
    "ids:na-sentinel": 700, "ids:csv-special": 500, "ids:text": 300, "ids:mixed": 300,
    "shape:scalar": 4000, "shape:len1": 4000, "shape:lenN": 5000, "shape:len>=11": 1500,
    "form:ndarray": 4000, "form:ndarray0": 2000, "type:np-scalar": 3000, "type:int": 3000, "value:beyond-f32": 1000,
    "name:source-like": 3000, "name:underscore": 600, "key-order-permuted": 1500,
    "conv:df": 5000, "conv:csv": 5000, "conv:csv-exact": 3000, "conv:json": 4000, "conv:torch": 6000,
    "reject:dup-id": 200, "reject:nonstr-id": 200, "reject:bad-type": 200, "reject:bad-shape": 200, "reject:non-dict": 200,
    "reject:from_pytorch-length": 200, "reject:first-addition": 80, "grid": 4000, "roundtrip:interleaved-conversions": 2000,
    "build:reused-dict": 1500, "build:reused-dict:no-ndarray": 500,
}

ALL_CONVS = ["dict", "df", "torch", "csv", "json"]
NP_TAGS = ("i32", "i64", "f32", "f64")
F10_TAGS = ("i32", "i64", "f32")  # np.float64 is a python float subclass and serialises

# ------------------------------------------------------------------------------------------------
# building the real inputs from the plain-JSON case, and the reference model
# ------------------------------------------------------------------------------------------------
_NP = None


def _np():
    global _NP
    if _NP is None:
        import numpy as np

        _NP = np
    return _NP


def mk_scalar(tag, v):
    np = _np()
    if tag == "int":
        return int(v)
    if tag == "float":
        return float(v)
    if tag == "i32":
        return np.int32(v)
    if tag == "i64":
        return np.int64(v)
    if tag == "f32":
        with np.errstate(over="ignore"):
            return np.float32(v)
    if tag == "f64":
        return np.float64(v)
    # unsupported value types (rejection cases only)
    if tag == "str":
        return str(v)
    if tag == "none":
        return None
    if tag == "bool":
        return bool(v)
    if tag == "dict":
        return {"v": v}
    if tag == "nested":
        return [float(v)]
    raise ValueError(f"unknown tag {tag}")


_DT = {"f64": "float64", "f32": "float32", "i64": "int64", "i32": "int32"}


def build_value(entry):
    """entry = {name, form: scalar|ndarray0|list|ndarray|ndarray2d, dtype (ndarray*), elems: [[tag, v], ...]}"""
    np = _np()
    form = entry["form"]
    elems = entry["elems"]
    if form == "scalar":
        return mk_scalar(*elems[0])
    if form == "list":
        return [mk_scalar(t, v) for t, v in elems]
    with np.errstate(over="ignore"):
        if form == "ndarray0":
            return np.array(elems[0][1], dtype=_DT[entry["dtype"]])
        if form == "ndarray":
            return np.array([v for _, v in elems], dtype=_DT[entry["dtype"]])
        if form == "ndarray2d":
            return np.array([[v for _, v in elems]], dtype=_DT[entry["dtype"]])
    raise ValueError(f"unknown form {form}")


def model_of_value(entry, built):
    """-> (is_scalar, [(float64 value, compare-at-float32?)...]) of a *valid* entry."""
    np = _np()
    if entry["form"] in ("ndarray", "ndarray0"):
        flat = built.tolist()
        flat = flat if isinstance(flat, list) else [flat]
        return entry["form"] == "ndarray0", [(float(x), False) for x in flat]
    if entry["form"] == "scalar":
        return True, [(float(built), isinstance(built, np.float32))]
    return False, [(float(x), isinstance(x, np.float32)) for x in built]


def csv_safe(x: float) -> bool:
    """floats whose shortest decimal text has <= 2 decimals and < 2^53 as digit string: the one class pandas' fast
    parser provably reads back exactly (exact integer, one correctly rounded division by 10 or 100)."""
    return abs(x) < 1e13 and round(x, 2) == x


def analyse(case):
    """Static facts about a round-trip case (used by the strategy to fix `convs`, and by the body for classes)."""
    inds = case["inds"]
    names = [e["name"] for e in inds[0]]
    np_scalar = any(t in F10_TAGS for ind in inds for e in ind if e["form"] in ("scalar", "list") for t, _ in e["elems"])
    underscore = any("_" in n for n in names)
    safe = True
    for ind in inds:
        for e in ind:
            _, flat = model_of_value(e, build_value(e))
            if not all(c32 or csv_safe(x) for x, c32 in flat):
                safe = False
    return dict(names=names, np_scalar=np_scalar, underscore=underscore, csv_safe=safe)


def plan(case):
    """Fix the list of forms to exercise and the csv comparison mode (exclusion by construction)."""
    a = analyse(case)
    convs, excluded = list(ALL_CONVS), []
    if EXCLUDE_F10 and a["np_scalar"]:
        convs.remove("json")
        excluded.append("F10:numpy-scalar:json")
    if EXCLUDE_F12 and a["underscore"]:
        convs.remove("df")
        convs.remove("csv")
        excluded.append("F12:underscore-name:df+csv")
    csv_mode = "exact"
    if "csv" in convs and EXCLUDE_CSV_FLOAT_PARSE and not a["csv_safe"]:
        csv_mode = "approx"
        excluded.append("csv-float-parse:exact-comparison-of-long-decimals")
    case["convs"], case["csv_mode"], case["excluded"] = convs, csv_mode, excluded
    return case


# ------------------------------------------------------------------------------------------------
# oracle: round trips
# ------------------------------------------------------------------------------------------------
def _workdir():
    return str(env.enter_scratch())


def _same_value(a, b):
    """type- and value-identity of two caller-side values (scalars, lists, ndarrays)."""
    np = _np()
    if isinstance(a, np.ndarray) or isinstance(b, np.ndarray):
        return (isinstance(a, np.ndarray) and isinstance(b, np.ndarray) and a.dtype == b.dtype and a.shape == b.shape
                and bool(np.array_equal(a, b)))
    if isinstance(a, list) or isinstance(b, list):
        return isinstance(a, list) and isinstance(b, list) and len(a) == len(b) and all(_same_value(x, y) for x, y in zip(a, b))
    return type(a) is type(b) and a == b


_SENTINEL = -987654.25


def build_container(case, ip=None, model=None, start=0, stop=None):
    """Add individuals start..stop-1 of the case to `ip` (a new container by default) and to the reference model.

    build mode "reused-dict": ONE dict object per container is overwritten and handed to add_individual_parameters for
    every individual (the usual `work = {}; for idx in ids: work[...] = ...; ip.add_individual_parameters(idx, work)` loop),
    and overwritten once more after the last addition. In every mode the caller's dict must come back unmodified
    (problems are listed in model["_problems"]).
    """
    from leaspy.io.outputs import IndividualParameters

    if ip is None:
        ip = IndividualParameters()
        model = {"ids": [], "params": {}, "values": {}, "_work": {}, "_problems": []}
    model.setdefault("_work", {})
    model.setdefault("_problems", [])
    reused = case.get("build") == "reused-dict"
    n = len(case["ids"])
    stop = n if stop is None else stop
    for id_, ind in zip(case["ids"][start:stop], case["inds"][start:stop]):
        d = model["_work"] if reused else {}
        for e in ind:
            built = build_value(e)
            d[e["name"]] = built
            is_scalar, flat = model_of_value(e, built)
            model["params"].setdefault(e["name"], (is_scalar, len(flat)))
            model["values"][(id_, e["name"])] = flat
        keys, objs, snap = list(d), dict(d), copy.deepcopy(d)
        ip.add_individual_parameters(id_, d)
        model["ids"].append(id_)
        if list(d) != keys or any(d[k] is not objs[k] for k in keys) or not all(_same_value(d[k], snap[k]) for k in keys):
            model["_problems"].append((id_, repr(d)[:400], repr(snap)[:400]))
    if reused and stop == n and n:
        # the caller goes on using its dict after the last addition
        for name, (is_scalar, size) in model["params"].items():
            model["_work"][name] = _SENTINEL if is_scalar else [_SENTINEL] * size
    return ip, model


def _flat(v):
    return v if isinstance(v, list) else [v]


def _num_ok(x):
    np = _np()
    return isinstance(x, (int, float, np.integer, np.floating)) and not isinstance(x, (bool, np.bool_))


def compare_container(ip2, model, *, conv, csv_mode="exact"):
    """Compare a container obtained through form `conv` with the reference model. Returns (oracle, observed, expected) or None."""
    np = _np()
    ids2 = list(ip2._indices)
    if ids2 != model["ids"] or not all(type(i) is str for i in ids2):
        return "ids-differ", ids2, model["ids"]
    if list(ip2._individual_parameters.keys()) != model["ids"]:
        return "ids-differ", list(ip2._individual_parameters.keys()), model["ids"]
    shapes2 = ip2._parameters_shape
    if not isinstance(shapes2, dict) or set(shapes2) != set(model["params"]):
        return "names-differ", sorted(shapes2) if isinstance(shapes2, dict) else repr(shapes2), sorted(model["params"])
    exact_shape = conv in ("dict", "json")
    for name, (is_scalar, size) in model["params"].items():
        s2 = shapes2[name]
        ok = (s2 == (() if is_scalar else (size,))) if exact_shape else (s2 == (size,) or (size == 1 and s2 == ()))
        if not ok or not isinstance(s2, tuple):
            return "shapes-differ", {name: repr(s2)}, {name: ("()" if is_scalar else f"({size},)") + ("" if exact_shape else " (scalar == length-1)")}
    for id_ in model["ids"]:
        got_d = ip2[id_]
        if set(got_d) != set(model["params"]):
            return "names-differ", {id_: sorted(got_d)}, sorted(model["params"])
        for name, (is_scalar, size) in model["params"].items():
            got = got_d[name]
            # structure of the stored value must agree with the declared shape
            if isinstance(got, list) != (shapes2[name] != ()):
                return "shapes-differ", {id_: {name: repr(got)}}, f"value structure consistent with shape {shapes2[name]}"
            gf = _flat(got)
            exp = model["values"][(id_, name)]
            if len(gf) != len(exp) or not all(_num_ok(x) for x in gf):
                return "values-differ", {id_: {name: repr(got)}}, [x for x, _ in exp]
            for g, (x, c32) in zip(gf, exp):
                g = float(g)
                if conv == "torch":
                    with np.errstate(over="ignore"):
                        good = g == float(np.float32(x))
                elif c32 and conv in ("df", "csv"):
                    with np.errstate(over="ignore"):
                        good = float(np.float32(g)) == float(np.float32(x))
                    if not good and conv == "csv" and csv_mode == "approx":
                        good = abs(g - x) <= CSV_RTOL * abs(x) + CSV_ATOL
                elif conv == "csv" and csv_mode == "approx":
                    good = abs(g - x) <= CSV_RTOL * abs(x) + CSV_ATOL
                else:
                    good = g == x
                if not good:
                    oracle = "values-differ"
                    if conv == "csv" and abs(g - x) <= 1e-11 * abs(x) + CSV_ATOL:
                        oracle = "values-differ:float-text-parse"  # root cause: decimal text re-read inexactly
                    return oracle, {id_: {name: repr(got)}}, [repr(v) for v, _ in exp] + (["(float32)"] if conv == "torch" else [])
    return None


def check_table(df, model):
    """Direct look at the table form: index = ids in order (named ID), columns `name` or `name_i`, cells = values."""
    np = _np()
    if df.index.name != "ID" or list(df.index) != model["ids"]:
        return "table-layout:index", [df.index.name, list(df.index)], ["ID", model["ids"]]
    cols = list(df.columns)
    expected_cols = []
    for name, (is_scalar, size) in model["params"].items():
        indexed = [f"{name}_{i}" for i in range(size)]
        if size == 1 and name in cols:
            mine = [name]
        else:
            mine = indexed
        if is_scalar and mine != [name]:
            return "table-layout:columns", cols, f"column {name!r} for the scalar parameter"
        if not all(c in cols for c in mine):
            return "table-layout:columns", cols, f"{name!r} or {indexed}"
        expected_cols += mine
        for r, id_ in enumerate(model["ids"]):
            for c, (x, c32) in zip(mine, model["values"][(id_, name)]):
                g = float(df[c].iloc[r])
                with np.errstate(over="ignore"):
                    good = (float(np.float32(g)) == float(np.float32(x))) if c32 else g == x
                if not good:
                    return "table-layout:cells", {id_: {c: g}}, x
    if sorted(cols) != sorted(expected_cols):
        return "table-layout:columns", cols, expected_cols
    return None


def check_tensors(ids_t, tensors, model):
    import torch

    np = _np()
    if list(ids_t) != model["ids"]:
        return "tensor-layout:ids", list(ids_t), model["ids"]
    if not isinstance(tensors, dict) or set(tensors) != set(model["params"]):
        return "tensor-layout:names", sorted(tensors), sorted(model["params"])
    n = len(model["ids"])
    for name, (_, size) in model["params"].items():
        t = tensors[name]
        if not isinstance(t, torch.Tensor) or t.dtype != torch.float32 or tuple(t.shape) != (n, size):
            return "tensor-layout:shape-dtype", {name: [str(getattr(t, "dtype", type(t))), list(getattr(t, "shape", []))]}, ["torch.float32", [n, size]]
        got = t.tolist()
        for r, id_ in enumerate(model["ids"]):
            for g, (x, _) in zip(got[r], model["values"][(id_, name)]):
                with np.errstate(over="ignore"):
                    if g != float(np.float32(x)):
                        return "tensor-layout:values", {id_: {name: got[r]}}, [float(np.float32(v)) for v, _ in model["values"][(id_, name)]]
    return None


def _judge_forms(ip, model, convs, csv_mode, wd, fail):
    """Every requested form of `ip` (and back) against the reference model; `fail(conv, oracle, observed, expected)`."""
    from leaspy.io.outputs import IndividualParameters as IP

    for conv in convs:
        if conv not in ALL_CONVS:
            raise ValueError(f"unknown form {conv}")
        try:
            if conv == "dict":
                ip2 = ip
            elif conv == "df":
                df = ip.to_dataframe()
                bad = check_table(df, model)
                if bad:
                    fail(conv, *bad)
                    continue
                ip2 = IP.from_dataframe(df)
            elif conv == "torch":
                ids_t, tensors = ip.to_pytorch()
                bad = check_tensors(ids_t, tensors, model)
                if bad:
                    fail(conv, *bad)
                    continue
                ip2 = IP.from_pytorch(list(ids_t), tensors)
            else:
                path = os.path.join(wd, f"c16_ip.{conv}")
                if os.path.exists(path):
                    os.remove(path)
                ip.save(path)
                ip2 = IP.load(path)
        except Exception as e:
            fail(conv, "unexpected-exception:" + exc_bucket(e), repr(e)[:500], "conversion and back succeeds")
            continue
        bad = compare_container(ip2, model, conv=conv, csv_mode=csv_mode)
        if bad:
            fail(conv, *bad)
        # the source container must not have been altered by the conversion
        if conv != "dict":
            bad = compare_container(ip, model, conv="dict")
            if bad:
                fail(conv, "source-altered:" + bad[0], bad[1], bad[2])


def run_roundtrip(col: Collector, case, sub_check="roundtrip"):
    """All requested forms for one container. Failures are recorded per (form, oracle, input class)."""
    convs = case.get("convs") or ALL_CONVS
    csv_mode = case.get("csv_mode", "exact")
    a = analyse(case)

    def suffix(conv):
        s = ""
        if conv in ("df", "csv") and a["underscore"]:
            s += ":underscore-name"
        if conv == "json" and a["np_scalar"]:
            s += ":numpy-scalar"
        return s

    def fail(conv, oracle, observed, expected):
        col.fail(sub_check, f"{conv}:{oracle}{suffix(conv)}", case, observed=observed, expected=expected)

    # multi-step variant: the container is built incrementally and converted at the intermediate points `stops`
    # (after the first j individuals, judged against the reference model of those j), then extended on the SAME object
    # and judged in full at the end
    n = len(case["ids"])
    stops = [j for j in (case.get("stops") or []) if 0 < j < n]
    wd = _workdir()
    ip = model = None
    start = 0
    for stop in stops + [n]:
        try:
            ip, model = build_container(case, ip, model, start, stop)
        except Exception as e:
            col.fail(sub_check, "add:unexpected-exception:" + exc_bucket(e), case, observed=repr(e), expected="valid additions accepted")
            return a
        for id_, now, before in model["_problems"]:
            col.fail(sub_check, "add:caller-dict-modified", case, observed={id_: now}, expected=before)
        model["_problems"] = []
        start = stop
        stage = "" if not stops else (":after-intermediate-conversions" if stop == n else ":intermediate")
        _judge_forms(ip, model, convs, csv_mode, wd, lambda conv, oracle, obs, exp: fail(conv, oracle + stage, obs, exp))
    return a


def classes_of(case, a):
    np = _np()
    cl = ["ids:" + case.get("id_class", "?")]
    sizes = {}
    for e in case["inds"][0]:
        sizes[e["name"]] = (e["form"] in ("scalar", "ndarray0"), len(e["elems"]))
    for name, (sc, n) in sizes.items():
        cl.append("shape:scalar" if sc else "shape:len1" if n == 1 else "shape:lenN")
        if n >= 11:
            cl.append("shape:len>=11")
        if "source" in name:
            cl.append("name:source-like")
    if a["underscore"]:
        cl.append("name:underscore")
    forms = {e["form"] for ind in case["inds"] for e in ind}
    cl += ["form:" + f for f in sorted(forms)]
    tags = {t for ind in case["inds"] for e in ind if e["form"] in ("scalar", "list") for t, _ in e["elems"]}
    if tags & set(NP_TAGS):
        cl.append("type:np-scalar")
    if "int" in tags or tags & {"i32", "i64"}:
        cl.append("type:int")
    if any(abs(float(v)) > 3.4028235e38 for ind in case["inds"] for e in ind for _, v in e["elems"]):
        cl.append("value:beyond-f32")
    first = [e["name"] for e in case["inds"][0]]
    reused = case.get("build") == "reused-dict"
    if not reused and any([e["name"] for e in ind] != first for ind in case["inds"]):
        cl.append("key-order-permuted")
    if reused:
        cl.append("build:reused-dict")
        if not any(f.startswith("ndarray") for f in forms):
            cl.append("build:reused-dict:no-ndarray")
    if [j for j in (case.get("stops") or []) if 0 < j < len(case["ids"])]:
        cl.append("roundtrip:interleaved-conversions")
    for c in case.get("convs") or ALL_CONVS:
        cl.append("conv:" + c)
    if "csv" in (case.get("convs") or ALL_CONVS) and case.get("csv_mode", "exact") == "exact":
        cl.append("conv:csv-exact")
    nt = len(case["ids"]) >= 2 and any(sc for sc, _ in sizes.values()) and any((not sc) and n >= 2 for sc, n in sizes.values())
    if nt:
        cl.append("nontrivial")
    return cl, nt


def body_roundtrip(col: Collector, case):
    a = run_roundtrip(col, case)
    for x in case.get("excluded", []):
        col.exclude(x)
    cl, nt = classes_of(case, a)
    col.case(classes=cl, nontrivial=jhash(case) if nt else None, sample=case)


# ------------------------------------------------------------------------------------------------
# generators
# ------------------------------------------------------------------------------------------------
NA_SENTINELS = ["", "#N/A", "#N/A N/A", "#NA", "-1.#IND", "-1.#QNAN", "-NaN", "-nan", "1.#IND", "1.#QNAN", "<NA>", "N/A",
                "NA", "NULL", "NaN", "None", "n/a", "nan", "null"]
ID_POOLS = {
    "words": ["alpha", "Beta", "gamma-x", "d", "E5", "zulu", "mike", "Kilo", "idx", "i", "h0", "G", "sub-01", "ID", "index-1"],
    "digits": ["0", "1", "7", "12", "116", "2047", "99999", "4294967296", "18446744073709551616", "123456789012345678901234567890", "42", "1000"],
    "zeros": ["007", "00", "000", "01", "0012", "00000001", "0x10", "010", "0e0", "00.5", "0_1", "0007"],
    "numeric-looking": ["1e5", "1E-3", "1.0", "-0", ".5", "5.", "+3", "-7", "1_000", "inf", "-inf", "Infinity", "True", "False", "0.1", "1e400", "2.50"],
    "spaces": [" b ", " ", "a b", "  ", "\t", "a\nb", " lead", "trail ", "\n", "a\tb", " 7", "7 ", "x  y"],
    "unicode": ["p\u00e4tient-\u00b5", "\u60a3\u80051", "\U0001f600", "\u00df", "\u0130", "\u00e9", "e\u0301", "\u00a0", "\u03a97",
                "\u00f1and\u00fa", "\u2028", "\u01c5", "\u0661\u0662\u0663", "\U0001d7d9\U0001d7da", "\ufeff", "\u200b"],
    "na-sentinel": NA_SENTINELS,
    "csv-special": ["a,b", 'q"q', "'", '""', ",", '"', "a;b", "x,\"y\"", "#c", "a|b", ",,", "\"a\"", "=1+1", "\\", "\\n"],
}
ID_CLASSES = list(ID_POOLS) + ["text", "mixed"]
_ALL_IDS = sorted({x for p in ID_POOLS.values() for x in p})

PLAIN_NAMES = ["xi", "tau", "w", "p1", "Xi", "\u03be", "a b", "0", "x.y", "a-b", "b", "rate"]
SOURCE_NAMES = ["sources", "source", "mysources", "resource"]
UNDERSCORE_NAMES = ["my_p", "sources_x", "a_0", "_", "x_", "tau_2", "_w"]


def _f32_round(x):
    np = _np()
    with np.errstate(over="ignore"):
        y = float(np.float32(x))
    if abs(y) == float("inf"):
        y = float(np.float32(3.0e38 if y > 0 else -3.0e38))
    return y


# strategies are built once (building/validating them inside the composite dominated the run time)
_DEC2 = st.tuples(st.one_of(st.integers(-1000, 1000), st.integers(-10**13 + 1, 10**13 - 1), st.integers(-10**6, 10**6)),
                  st.sampled_from([1, 10, 100])).map(lambda mk: mk[0] / mk[1])
_F32X = st.one_of(st.floats(-100, 100, width=32), st.floats(width=32, allow_nan=False, allow_infinity=False))
_F64W = st.one_of(st.floats(-100, 100), st.floats(allow_nan=False, allow_infinity=False),
                  st.floats(min_value=3.5e38, max_value=1.7e308), st.floats(-1e-300, 1e-300))
_ANYF = st.one_of(_DEC2, _F32X, _F64W)
_I53 = st.one_of(st.integers(-100, 100), st.integers(-(2**53), 2**53))
_I31 = st.one_of(st.integers(-100, 100), st.integers(-(2**31), 2**31 - 1))
_I24 = st.one_of(st.integers(-100, 100), st.integers(-(2**24), 2**24))


def _tagged(tag, strat):
    return st.tuples(st.just(tag), strat).map(list)


def _elem_table(safe_only):
    fl = _DEC2 if safe_only else _ANYF
    fl32 = _DEC2.map(_f32_round) if safe_only else _F32X
    t = {
        "dec2": _tagged("float", _DEC2), "f32x": _tagged("float", _F32X), "f64w": _tagged("float", _F64W),
        "int": _tagged("int", _I53), "i32": _tagged("i32", _I31), "i64": _tagged("i64", _I53),
        "f32": _tagged("f32", fl32), "f64": _tagged("f64", fl),
    }
    # per-element mix of all accepted scalar types. np.int32 is kept within +-2^24 there: pandas infers a float32 column
    # for a parameter given as np.float32 for one individual and np.int32 for another (observed quirk, outside the domain)
    keys = ["dec2", "int", "i64", "f32", "f64"] if safe_only else ["dec2", "f32x", "f64w", "int", "i64", "f32", "f64"]
    t["mixed"] = st.one_of(*[t[k] for k in keys], _tagged("i32", _I24))
    # per-element mix of the types that are JSON-serialisable as they are (python int/float, np.float64)
    t["pymix"] = st.one_of(*[t[k] for k in (["dec2", "int", "f64"] if safe_only else ["dec2", "f32x", "f64w", "int", "f64"])])
    return t


_ELEM = {True: _elem_table(True), False: _elem_table(False)}
# ndarray element strategies: (kind, safe_only) -> (dtype, strategy of numbers)
_ARR = {}
for _safe in (True, False):
    for _kind in ("dec2", "f32x", "f64w", "int", "i32", "i64", "f32", "f64", "mixed", "pymix"):
        if _kind in ("int", "i64"):
            _ARR[(_kind, _safe)] = ("i64", _I53)
        elif _kind == "i32":
            _ARR[(_kind, _safe)] = ("i32", _I31)
        elif _kind in ("f32", "f32x"):
            _ARR[(_kind, _safe)] = ("f32", (_DEC2 if _safe else _F32X).map(_f32_round))
        else:
            _ARR[(_kind, _safe)] = ("f64", {"dec2": _DEC2, "f32x": _F32X, "f64w": _F64W}.get(_kind, _DEC2 if _safe else _ANYF))
_LISTS = {}


def _k_of(strat_key, strat, k):
    key = (strat_key, k)
    if key not in _LISTS:
        _LISTS[key] = st.lists(strat, min_size=k, max_size=k)
    return _LISTS[key]


# (safe_only, numpy scalars allowed) -> value kinds of a parameter; numpy scalars are a per-case decision so that
# the json form (excluded for them while F10 is open) keeps a large share of the cases
VALUE_KINDS = {
    (False, False): st.sampled_from(["dec2", "f32x", "f64w", "int", "f64", "pymix"]),
    (False, True): st.sampled_from(["dec2", "f32x", "f64w", "int", "f64", "i32", "i64", "f32", "f32", "mixed", "mixed", "mixed"]),
    (True, False): st.sampled_from(["dec2", "dec2", "int", "f64", "pymix"]),
    (True, True): st.sampled_from(["dec2", "int", "f64", "i32", "i64", "f32", "mixed", "mixed"]),
}
_ID_STRATS = {c: (st.text(alphabet=st.characters(exclude_categories=("Cc", "Cs")), min_size=0, max_size=8) if c == "text"
                  else st.sampled_from(_ALL_IDS) if c == "mixed" else st.sampled_from(ID_POOLS[c])) for c in ID_CLASSES}
_D10, _D4, _BOOL = st.integers(0, 9), st.integers(0, 3), st.booleans()
_LAYOUT = st.sampled_from(["free", "free", "scalar+vector", "scalar+vector", "leaspy"])
_SHAPE_VEC = st.sampled_from(["lenN", "lenN", "long"])
_SHAPE_ANY = st.sampled_from(["scalar", "scalar", "len1", "len1", "lenN", "lenN", "long"])
_LEN_N, _LEN_LONG, _LEN_SRC = st.integers(2, 5), st.integers(11, 13), st.integers(1, 4)
_NAMES_PLAIN = st.sampled_from(PLAIN_NAMES + SOURCE_NAMES)
_NAMES_ALL = st.sampled_from(PLAIN_NAMES + SOURCE_NAMES + UNDERSCORE_NAMES + UNDERSCORE_NAMES)
_CACHE = {}


def _cached(key, make):
    if key not in _CACHE:
        _CACHE[key] = make()
    return _CACHE[key]


@st.composite
def container(draw, *, max_ids=10, min_ids=1, id_classes=None, allow_underscore=True, max_params=4):
    id_classes = tuple(id_classes or ID_CLASSES)
    id_class = draw(_cached(("idc", id_classes), lambda: st.sampled_from(id_classes)))
    n_ids = draw(_cached(("n", min_ids, max_ids), lambda: st.integers(min_ids, max_ids)))
    ids = draw(_cached(("ids", id_class, n_ids), lambda: st.lists(_ID_STRATS[id_class], min_size=n_ids, max_size=n_ids, unique=True))) if n_ids else []
    safe_only = draw(_D10) < 4
    layout = draw(_LAYOUT)
    if layout == "leaspy":  # what personalisation produces: xi, tau (+ sources) as length-1 / length-n vectors
        specs = [("xi", 1), ("tau", 1)] + ([("sources", draw(_LEN_SRC))] if draw(_BOOL) else [])
        specs = [(n, "vec", k) for n, k in specs]
    else:
        n_params = draw(_cached(("np", layout, max_params), lambda: st.integers(2 if layout == "scalar+vector" else 1, max_params)))
        under = allow_underscore and draw(_D10) < 2
        names = draw(_cached(("names", under, n_params), lambda: st.lists(_NAMES_ALL if under else _NAMES_PLAIN, min_size=n_params, max_size=n_params, unique=True)))
        specs = []
        for j, nm in enumerate(names):
            if layout == "scalar+vector" and j == 0:
                shp = "scalar"
            elif layout == "scalar+vector" and j == 1:
                shp = draw(_SHAPE_VEC)
            else:
                shp = draw(_SHAPE_ANY)
            k = 1 if shp in ("scalar", "len1") else draw(_LEN_N) if shp == "lenN" else draw(_LEN_LONG)
            specs.append((nm, "scalar" if shp == "scalar" else "vec", k))
    with_np = draw(_D10) < 4
    kinds = [draw(VALUE_KINDS[(safe_only, with_np)]) for _ in specs]
    inds = []
    for _ in ids:
        entries = []
        for (nm, shp, k), kind in zip(specs, kinds):
            if draw(_D4) == 0:
                dtype, es = _ARR[(kind, safe_only)]
                vals = draw(_k_of(("arr", kind, safe_only), es, k))
                e = {"name": nm, "form": "ndarray0" if shp == "scalar" else "ndarray", "dtype": dtype, "elems": [[dtype, v] for v in vals]}
            else:
                e = {"name": nm, "form": "scalar" if shp == "scalar" else "list",
                     "elems": draw(_k_of(("el", kind, safe_only), _ELEM[safe_only][kind], k))}
            entries.append(e)
        if len(entries) > 1 and draw(_D4) == 0:
            entries = list(draw(st.permutations(entries)))
        inds.append(entries)
    return {"ids": ids, "id_class": id_class, "inds": inds}


_D3 = st.integers(0, 2)
_PY_TAG = {"f64": "float", "f32": "float", "i64": "int", "i32": "int"}


def _dearray(case):
    """Replace every ndarray value by the equivalent python scalar / list (what ndarray.tolist() gives)."""
    for ind in case["inds"]:
        for e in ind:
            if e["form"] in ("ndarray", "ndarray0"):
                tag = _PY_TAG[e.pop("dtype")]
                e["elems"] = [[tag, v] for _, v in e["elems"]]
                e["form"] = "list" if e["form"] == "ndarray" else "scalar"
    return case


@st.composite
def _roundtrip_case(draw, max_ids):
    case = draw(_cached(("container", max_ids), lambda: container(max_ids=max_ids)))
    n = len(case["ids"])
    if n >= 2 and draw(_D3) == 0:  # about a third: conversions interleaved with additions on the same object
        pts = _cached(("stops", n), lambda: st.lists(st.integers(1, n - 1), min_size=1, max_size=2, unique=True))
        case["stops"] = sorted(draw(pts))
    if draw(_D4) == 0:  # about a quarter: one caller-side dict object reused for every individual
        case["build"] = "reused-dict"
        if draw(_BOOL):  # ... holding python scalars / lists only
            _dearray(case)
    return plan(case)


def roundtrip_strategy(max_ids=10):
    return _roundtrip_case(max_ids)


def shard_roundtrip(seed: int, n_examples: int, shard: int = 0, max_ids: int = 10):
    env.import_leaspy()
    col = Collector(PROP, f"roundtrip-{shard}")
    drive(col, roundtrip_strategy(max_ids), body_roundtrip, n_examples=n_examples, seed=shard_seed(seed, shard), sub_check="roundtrip")
    return col


# ------------------------------------------------------------------------------------------------
# engine G: bounded-exhaustive grid
# ------------------------------------------------------------------------------------------------
GRID_FORMS = [("scalar", 1), ("ndarray0", 1), ("list", 1), ("list", 2), ("list", 12), ("ndarray", 1), ("ndarray", 3)]
GRID_TAGS = ["float", "int", "i32", "i64", "f32", "f64"]
GRID_NAMES = ["xi", "sources", "w2", "my_p"]
GRID_IDS = {
    "words": ["alpha", "Beta", "idx"], "digits": ["116", "7", "2047"], "zeros": ["007", "00", "0012"],
    "numeric-looking": ["1e5", "1.0", "-0"], "spaces": [" b ", " ", "a\nb"], "unicode": ["p\u00e4tient-\u00b5", "\u60a3\u80051", "\U0001f600"],
    "na-sentinel": ["NA", "null", ""], "na-sentinel2": ["nan", "None", "N/A"], "csv-special": ["a,b", 'q"q', ","],
}
_GRID_FLOATS = [0.1, -1.5, 70.25, 3.0, 1234567.89, -0.07, 0.3, 99.99, -2.5, 0.0, 12.5, 64.0, 1e-2]
_GRID_INTS = [0, 1, -7, 100000, 3, 70, -1, 2, 16777217, 5, 8, 13, 21]


def _grid_entry(name, form, n, tag, row, salt):
    vals = _GRID_INTS if tag in ("int", "i32", "i64") else _GRID_FLOATS
    elems = [[tag, vals[(row * 5 + j + salt) % len(vals)]] for j in range(n)]
    e = {"name": name, "form": form, "elems": elems}
    if form.startswith("ndarray"):
        e["dtype"] = {"float": "f64", "int": "i64"}.get(tag, tag)
        if e["dtype"] == "f32":
            np = _np()
            e["elems"] = [[t, float(np.float32(v))] for t, v in elems]
    return e


def grid_cases():
    for idc, ids in GRID_IDS.items():
        for tag in GRID_TAGS:
            for (form, n) in GRID_FORMS:
                for name in GRID_NAMES:
                    yield {"ids": ids, "id_class": idc.rstrip("2"),
                           "inds": [[_grid_entry(name, form, n, tag, r, 0)] for r in range(len(ids))]}
            for (f1, n1), (f2, n2) in itertools.product(GRID_FORMS, GRID_FORMS):
                yield {"ids": ids, "id_class": idc.rstrip("2"),
                       "inds": [[_grid_entry("xi", f1, n1, tag, r, 0), _grid_entry("sources", f2, n2, tag, r, 3)] for r in range(len(ids))]}


def shard_grid(part: int, n_parts: int, shard: int = 0):
    env.import_leaspy()
    col = Collector(PROP, f"grid-{part}/{n_parts}")
    n = 0
    for i, case in enumerate(grid_cases()):
        if i % n_parts != part:
            continue
        if n % 3 == 0:
            case["stops"] = [1, 2] if n % 2 else [2]
        if n % 4 == 1:
            case["build"] = "reused-dict"
        case = plan(case)
        a = run_roundtrip(col, case)
        for x in case["excluded"]:
            col.exclude(x)
        cl, nt = classes_of(case, a)
        col.case(classes=cl + ["grid"], nontrivial=None)
        if nt:
            col.nontrivial_bulk += 1
            if len(col.samples) < 1:
                col.samples.append(case)
        n += 1
    col.extra["exhaustive_grid_cases"] = n
    return col


# ------------------------------------------------------------------------------------------------
# engine X: rejections
# ------------------------------------------------------------------------------------------------
REJECT_KINDS = ["dup-id", "nonstr-id", "bad-type", "bad-shape", "non-dict", "from_pytorch-length"]


def mk_id(spec):
    t, v = spec["t"], spec.get("v")
    if t == "str":
        return v
    if t == "int":
        return int(v)
    if t == "float":
        return float(v)
    if t == "none":
        return None
    if t == "bytes":
        return str(v).encode()
    if t == "bool":
        return bool(v)
    if t == "tuple":
        return (str(v),)
    if t == "list":
        return [str(v)]
    raise ValueError(t)


@st.composite
def reject_case(draw):
    kind = draw(st.sampled_from(REJECT_KINDS))
    min_ids = 1 if kind in ("dup-id", "bad-shape", "from_pytorch-length") else 0
    base = draw(container(max_ids=4, min_ids=min_ids, id_classes=["words", "digits", "zeros", "na-sentinel", "unicode", "numeric-looking"], max_params=3))
    if base["ids"]:
        template = copy.deepcopy(base["inds"][draw(st.integers(0, len(base["ids"]) - 1))])
    else:
        template = draw(container(max_ids=1, min_ids=1, id_classes=["words"], max_params=3))["inds"][0]
    fresh = draw(st.sampled_from(["new-1", "zz", "0099", "\u03a9mega", "NA "]).filter(lambda s: s not in base["ids"]))
    bad = {"kind": kind, "id": {"t": "str", "v": fresh}, "entry": template, "fresh_id": fresh + "'"}
    if kind == "dup-id":
        bad["id"] = {"t": "str", "v": draw(st.sampled_from(base["ids"]))}
    elif kind == "nonstr-id":
        t = draw(st.sampled_from(["int", "float", "none", "bytes", "bool", "tuple", "list"]))
        v = {"int": draw(st.integers(0, 1000)), "float": draw(st.sampled_from([1.0, 0.5, 70.0])), "none": None,
             "bytes": draw(st.sampled_from(base["ids"] or ["a"])), "bool": draw(st.booleans()),
             "tuple": draw(st.sampled_from(base["ids"] or ["a"])), "list": "a"}[t]
        if t == "int" and base["ids"] and base["id_class"] == "digits" and draw(st.booleans()):
            v = int(draw(st.sampled_from(base["ids"])))  # the int twin of an existing id
        bad["id"] = {"t": t, "v": v}
    elif kind == "bad-type":
        j = draw(st.integers(0, len(template) - 1))
        e = template[j]
        t = draw(st.sampled_from(["str", "none", "bool", "dict", "nested", "ndarray2d"]))
        if t == "ndarray2d":
            e["form"], e["dtype"] = "ndarray2d", "f64"
            e["elems"] = [["float", 0.5] for _ in e["elems"]]
        else:
            v = {"str": draw(st.sampled_from(["0.5", "x", "", "nan"])), "none": None, "bool": draw(st.booleans()), "dict": 0.5, "nested": 0.5}[t]
            if t == "nested" and e["form"] in ("scalar", "ndarray0"):
                # a scalar-position nested list would just be a valid length-1 list: use a list of lists
                e["form"] = "list"
            if e["form"] in ("ndarray", "ndarray0"):
                e["form"] = "list" if e["form"] == "ndarray" else "scalar"
            e["elems"] = [[t, v] for _ in e["elems"]]
            e.pop("dtype", None)
        bad["bad_param"] = e["name"]
    elif kind == "bad-shape":
        how = draw(st.sampled_from(["length", "length", "scalar<->list", "missing", "extra", "renamed"]))
        j = draw(st.integers(0, len(template) - 1))
        e = template[j]
        if how == "missing" and len(template) == 1:
            how = "extra"
        if how == "length":
            if e["form"] in ("scalar", "ndarray0"):
                how = "scalar<->list"
            else:
                n = len(e["elems"])
                m = draw(st.integers(1, n + 3).filter(lambda m: m != n))
                e["elems"] = [e["elems"][i % n] for i in range(m)]
        if how == "scalar<->list":
            if e["form"] in ("scalar", "ndarray0"):
                e["form"] = "list" if e["form"] == "scalar" else "ndarray"
                if draw(st.booleans()):
                    e["elems"] = e["elems"] * 2
            else:
                e["form"] = "scalar" if e["form"] == "list" else "ndarray0"
                e["elems"] = e["elems"][:1]
        if how == "missing":
            template.pop(j)
        if how == "extra":
            template.append({"name": "extra", "form": "scalar", "elems": [["float", 1.5]]})
        if how == "renamed":
            e["name"] = e["name"] + "2"
        bad["how"] = how
    elif kind == "non-dict":
        bad["as"] = draw(st.sampled_from(["list-of-pairs", "list-of-values", "none", "str", "float"]))
    elif kind == "from_pytorch-length":
        n = len(base["ids"])
        bad["n_indices"] = draw(st.integers(0, n + 2).filter(lambda m: m != n))
        bad["which"] = draw(st.integers(0, len(base["inds"][0]) - 1))
        bad["all_params"] = draw(st.booleans())
    base.pop("id_class", None)
    return {"base": base, "bad": bad}


def _snapshot(ip):
    return (list(ip._indices), copy.deepcopy(ip._individual_parameters), copy.deepcopy(ip._parameters_shape))


def body_reject(col: Collector, case, sub_check="reject"):
    from leaspy.exceptions import LeaspyIndividualParamsInputError
    from leaspy.io.outputs import IndividualParameters as IP

    base, bad = case["base"], case["bad"]
    kind = bad["kind"]
    try:
        ip, model = build_container(base) if base["ids"] else (IP(), {"ids": [], "params": {}, "values": {}})
    except Exception as e:
        col.fail(sub_check, "add:unexpected-exception:" + exc_bucket(e), case, observed=repr(e), expected="valid additions accepted")
        return
    before = _snapshot(ip)
    classes = ["reject:" + kind] + (["reject:first-addition"] if not base["ids"] else [])
    expected = "LeaspyIndividualParamsInputError, container unchanged"

    if kind == "from_pytorch-length":
        ids_t, tensors = ip.to_pytorch()
        names = list(tensors)
        n_idx = bad["n_indices"]
        indices = [f"n{i}" for i in range(n_idx)]
        if bad["all_params"]:
            tens = dict(tensors)  # every tensor has len(base ids) != len(indices)
        else:
            import torch

            # one parameter keeps the wrong length, the others are resized to the number of indices
            tens = {}
            for j, nm in enumerate(names):
                t = tensors[nm]
                if j == bad["which"] % len(names):
                    tens[nm] = t
                else:
                    tens[nm] = torch.zeros((n_idx, t.shape[1]), dtype=torch.float32)
        try:
            IP.from_pytorch(indices, tens)
            col.fail(sub_check, "accepted:" + kind, case, observed="container returned", expected="LeaspyIndividualParamsInputError")
        except LeaspyIndividualParamsInputError:
            pass
        except Exception as e:
            col.fail(sub_check, f"wrong-exception:{kind}:" + exc_bucket(e), case, observed=repr(e), expected="LeaspyIndividualParamsInputError")
        col.case(classes=classes, nontrivial=jhash(case), sample=case)
        return

    id_ = mk_id(bad["id"])
    if kind == "non-dict":
        valid = {e["name"]: build_value(e) for e in bad["entry"]}
        payload = {"list-of-pairs": [[k, v] for k, v in valid.items()], "list-of-values": list(valid.values()), "none": None,
                   "str": "xi", "float": 0.5}[bad["as"]]
    else:
        payload = {e["name"]: build_value(e) for e in bad["entry"]}
    try:
        ip.add_individual_parameters(id_, payload)
        col.fail(sub_check, "accepted:" + kind + (":" + bad["how"] if "how" in bad else ""), case,
                 observed=f"accepted; ids now {ip._indices!r}"[:500], expected=expected)
    except LeaspyIndividualParamsInputError:
        after = _snapshot(ip)
        if after != before:
            col.fail(sub_check, "container-changed-by-refused-addition:" + kind, case, observed=repr(after)[:800], expected=repr(before)[:800])
    except Exception as e:
        col.fail(sub_check, f"wrong-exception:{kind}:" + exc_bucket(e), case, observed=repr(e), expected=expected)
        after = _snapshot(ip)
        if after != before:
            col.fail(sub_check, "container-changed-by-refused-addition:" + kind, case, observed=repr(after)[:800], expected=repr(before)[:800])
    # positive control: the well-formed twin of the refused addition is accepted under a fresh id, and the container
    # still equals the reference model plus that entry
    if base["ids"]:
        twin = copy.deepcopy(base["inds"][0])
        fresh = bad["fresh_id"]
        while fresh in base["ids"]:
            fresh += "'"
        try:
            ip.add_individual_parameters(fresh, {e["name"]: build_value(e) for e in twin})
            model2 = copy.deepcopy(model)
            model2["ids"].append(fresh)
            for e in twin:
                model2["values"][(fresh, e["name"])] = model_of_value(e, build_value(e))[1]
            badc = compare_container(ip, model2, conv="dict")
            if badc:
                col.fail(sub_check, "after-refusal:" + badc[0], case, observed=badc[1], expected=badc[2])
        except Exception as e:
            col.fail(sub_check, "valid-addition-refused:" + exc_bucket(e), case, observed=repr(e), expected="accepted")
    col.case(classes=classes, nontrivial=jhash(case) if base["ids"] else None, sample=case)


def shard_reject(seed: int, n_examples: int, shard: int = 0):
    env.import_leaspy()
    col = Collector(PROP, f"reject-{shard}")
    drive(col, reject_case(), body_reject, n_examples=n_examples, seed=shard_seed(seed, 100 + shard), sub_check="reject")
    return col


# ------------------------------------------------------------------------------------------------
# reproducers of the recorded / excluded defect classes (plain-JSON inputs for replay("roundtrip", ...))
# ------------------------------------------------------------------------------------------------
REPRO_F10 = {  # bucket "json:unexpected-exception:TypeError@individual_parameters.py:_save_json:numpy-scalar"
    "ids": ["a"], "inds": [[{"name": "xi", "form": "scalar", "elems": [["f32", 0.5]]}]], "convs": ["json"]}
REPRO_F12 = {  # bucket "df:names-differ:underscore-name"
    "ids": ["a"], "inds": [[{"name": "my_p", "form": "scalar", "elems": [["float", 0.5]]}]], "convs": ["df"]}
REPRO_CSV_FLOAT = {  # bucket "csv:values-differ:float-text-parse"
    "ids": ["a"], "inds": [[{"name": "xi", "form": "scalar", "elems": [["float", 0.0010067179846714933]]}]], "convs": ["csv"], "csv_mode": "exact"}
REPRO_F9 = {  # fixed by c520593; bucket was "df:unexpected-exception:IndexError@individual_parameters.py:<listcomp>"
    "ids": ["a"], "inds": [[{"name": "xi", "form": "scalar", "elems": [["float", 0.5]]}]], "convs": ["df", "csv"]}
REPRO_F11 = {  # fixed by e72858f; bucket was "csv:unexpected-exception:LeaspyIndividualParamsInputError@individual_parameters.py:add_individual_parameters"
    "ids": ["NA", "null"], "inds": [[{"name": "xi", "form": "list", "elems": [["float", 0.5]]}]] * 2, "convs": ["csv"]}


REPRO_STALE_TENSOR = {  # seeded regression (tensor cache not invalidated by a later addition); bucket on that tree:
    # "torch:tensor-layout:shape-dtype:after-intermediate-conversions"
    "ids": ["a", "b"], "stops": [1], "convs": ["torch"],
    "inds": [[{"name": "xi", "form": "list", "elems": [["float", 0.5]]}], [{"name": "xi", "form": "list", "elems": [["float", 1.5]]}]]}


REPRO_ALIASED_DICT = {  # seeded regression (container keeps the caller's dict object when no value is an ndarray);
    # bucket on that tree: "dict:values-differ"
    "ids": ["a", "b"], "build": "reused-dict", "convs": ["dict"],
    "inds": [[{"name": "xi", "form": "scalar", "elems": [["float", 0.5]]}], [{"name": "xi", "form": "scalar", "elems": [["float", 1.5]]}]]}


def reproducers():
    """Run the dedicated reproducers; returns {name: [buckets]} (used by the author's own sanity runs, not by the tiers)."""
    out = {}
    for name, inp in (("F9", REPRO_F9), ("F10", REPRO_F10), ("F11", REPRO_F11), ("F12", REPRO_F12), ("csv-float", REPRO_CSV_FLOAT),
                      ("stale-tensor", REPRO_STALE_TENSOR),
                      ("aliased-dict", REPRO_ALIASED_DICT)):
        out[name] = [f["bucket"] for f in replay("roundtrip", copy.deepcopy(inp))]
    return out


def shard_regressions(shard: int = 0):
    """The repaired findings F9/F11 as fixed regression cases (every tier)."""
    env.import_leaspy()
    col = Collector(PROP, "regressions")
    for inp in (REPRO_F9, REPRO_F11):
        case = copy.deepcopy(inp)
        a = run_roundtrip(col, case)
        cl, _ = classes_of(case, a)
        col.case(classes=["regression"], nontrivial=None)
    return col


# ------------------------------------------------------------------------------------------------
def shards(tier: str, seed: int):
    specs = []
    # measured cpu cost per case: roundtrip max_ids=10 ~24 ms, max_ids=5 ~14 ms, reject ~6 ms, grid ~5 ms (4158 cases)
    if tier == "quick":
        n10, n5, k_rt, n_rj, k_grid = 900, 1500, 12, 2000, 2
    else:
        n10, n5, k_rt, n_rj, k_grid = 18000, 30000, 13, 50000, 1
    for s in range(k_rt):
        big = s % 2 == 0
        specs.append((MOD, "shard_roundtrip", dict(seed=seed, n_examples=n10 if big else n5, shard=s, max_ids=10 if big else 5)))
    for s in range(2):
        specs.append((MOD, "shard_reject", dict(seed=seed, n_examples=n_rj, shard=s)))
    for p in range(k_grid):
        specs.append((MOD, "shard_grid", dict(part=p, n_parts=k_grid)))
    specs.append((MOD, "shard_regressions", dict()))
    return specs


def replay(sub_check: str, inp):
    env.import_leaspy()
    col = Collector(PROP, "replay")
    if sub_check == "roundtrip":
        run_roundtrip(col, inp)
    elif sub_check == "reject":
        body_reject(col, inp)
    else:
        raise ValueError(f"unknown sub_check {sub_check}")
    return col.failures
