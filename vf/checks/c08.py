"""C08 - likelihood terms are the negative log-densities of the documented distributions.

Engine D (distribution level): direct calls of `SymbolicDistribution.get_func_nll / get_func_regularization`
  (and `get_func_nll_and_jacobian` for the Normal family, which carries a second hard-coded copy of the formula)
  for Normal, Bernoulli, Weibull right-censored (+/- sources) in every broadcasting layout the shipped models use,
  followed by the same `sum_dim` reductions the models chain behind them.
Engine M (model level): live states of logistic / linear / shared-speed / joint models (Gaussian scalar / diagonal,
  Bernoulli, Weibull +/- sources) whose parameters and latent variables are overwritten with generated values;
  `nll_attach*_ind`, `nll_attach*`, `nll_regul_<var>_ind`, `nll_regul_<var>`, `nll_regul_ind_sum(_ind)` are compared
  with the oracle evaluated on the distribution parameters the state itself reports.
Oracle: scipy.stats `norm.logpdf`, `bernoulli.logpmf`, `weibull_min.logsf / logpdf` in float64 (never leaspy/torch code).
"""
from __future__ import annotations

import math

from hypothesis import strategies as st

from vf.core import env, gen
from vf.core.harness import Collector, drive, exc_bucket, jhash, leaspy_frame, shard_seed

PROP = "C08"
MOD = "vf.checks.c08"
RULE = (
    "Engine D: Hypothesis cases per family. Normal: 9 layouts (scalar; (k,) vs (k,) loc/() scale; (a,b) matrix; (n,1) with () or (1,) "
    "loc and (1,) scale; (n,s) with (s,) loc and () scale; (n,k) with per-feature loc and scale; (n,t,k) weighted or unweighted values "
    "with full-shape loc and (1,)/(k,) scale), values/locs in unit or age range, scale in [0.01, 15], masked entries holding junk "
    "(nan, 1e30, ...), routes nll / regularization / nll_and_jacobian. Bernoulli: (n,t,k) weighted values in {0,1}, p in (1e-6, 1-1e-6), "
    "masked entries holding numbers outside the support, saturated probabilities (exactly 0 / 1, 1-2^-24, denormal-small, the bounds). Weibull right-censored +/- sources: 2-8 rows x 1-3 competing events, float64 "
    "event times placed after / exactly at / before the reference time tau, censoring drawn (one-hot per row for several events), "
    "nu in [0.5, 100], rho in [0.3, 6] (incl. exactly 1), xi in [-2, 2], shifts in [-2, 2], float32 parameters. "
    "Engine M: model configuration x generated cohort x 5 generated parameter/latent assignments per cohort (joint models: tau of "
    "some individuals moved behind their event time; Bernoulli models: xi boosted by up to 9 and tau shifted by +-30 so that the float32 "
    "logistic curve saturates). Non-trivial = Normal/Bernoulli: non-scalar layout and some scale != 1 "
    "(Bernoulli: both outcomes present among unmasked entries); Weibull: rho != 1 and both censored and observed rows after the "
    "reference time; model level: >= 2 individuals (joint: plus the Weibull rule). Distinct by the generated case."
)
ASSUMPTIONS = [
    "Oracle = scipy.stats norm / bernoulli / weibull_min evaluated in float64 on the float32 (event times: float64) values handed to leaspy; "
    "scipy is trusted.",
    "Equality means |got - ref| <= 2e-5 * (sum of magnitudes of the summed terms) + 2e-6 (float32 parameters); Weibull adds the conditioning "
    "term 4*rho*(|xi + shift/rho| + 3)*2^-23*(survival + 1) because the reparametrized scale is computed in float32; sums add 1e-5 * sum|terms|.",
    "Event tensors are float64 and event indicators boolean, as the data loader produces them (float32 event tensors are refused by "
    "torch.where against the 1e307 constant: outside the domain). Parameter ranges keep (s/nu)^(rho-1) inside the float64 normal range; "
    "hazard underflow to exactly 0 is outside the generated domain.",
    "Observed event strictly before the reference time: the entry, the per-individual sums and the totals (<= 8 individuals) must be finite, "
    ">= 1e300 and not NaN. Event exactly at the reference time: only finiteness is asserted for observed rows (the density there is 0, "
    "finite or infinite depending on rho; the statement speaks about 'before'); censored rows at/before the reference contribute 0.",
    "Masked entries of weighted values are meaningless: they may hold any number (also outside the support); only unmasked entries and the "
    "masked sums are judged. Model level: the distribution parameters (model values, noise_std, <var>_mean, <var>_std, nu, rho, "
    "survival_shifts) are read from the state - how they are derived is the business of other properties.",
    "Saturated Bernoulli probabilities (p <= 1e-6 or p >= 1-1e-6 at an observed entry, including exactly 0 / 1 as the float32 logistic "
    "curve produces them) are judged with a weaker interval oracle at both levels: the term is never NaN; an agreeing outcome gives a "
    "value in [0, 2e-6]; a disagreeing outcome gives a value >= -log(1e-6) - 1e-3 (finite or +inf accepted, never negative); sums of "
    "acceptable terms are non-NaN and lie inside the summed bounds.",
    "MixtureNormalFamily / MultivariateNormalFamily and the jacobian outputs are outside the statement; not checked.",
]
REQUIRED_CLASSES = {
    "nontrivial": 0.3,
    "normal:attach-diag": 150, "normal:attach-scalar": 150, "normal:ind-col": 150, "normal:ind-src": 150, "normal:pop-mat": 150,
    "normal:masked-junk": 150, "normal:via-nll_and_jacobian": 150, "normal:via-regularization": 300,
    "bernoulli:masked-junk": 150, "bernoulli:both-outcomes": 200, "bernoulli:saturated": 150, "bernoulli:p-exactly-0-or-1": 100,
    "bernoulli:saturated-agreeing": 100, "bernoulli:saturated-disagreeing": 100,
    "M:bernoulli:saturated": 60, "M:bernoulli:p-exactly-0-or-1": 30, "M:bernoulli:saturated-disagreeing": 20,
    "weibull:sources": 500, "weibull:no-sources": 500, "weibull:multi-event": 300,
    "weibull:row:obs-after": 1000, "weibull:row:cens-after": 1000, "weibull:row:obs-before": 300, "weibull:row:cens-before": 150,
    "weibull:row:obs-at": 100, "weibull:row:cens-at": 50, "weibull:rho-eq-1": 50, "weibull:rho-lt-1": 150,
    "M:kind:logistic": 40, "M:kind:linear": 40, "M:kind:shared_speed_logistic": 40, "M:kind:joint": 40,
    "M:obs:gaussian-scalar": 40, "M:obs:gaussian-diagonal": 40, "M:obs:bernoulli": 40,
    "M:weibull-with-sources": 20, "M:weibull-no-sources": 20, "M:event-before-ref": 20, "M:missing-values": 40, "M:sources": 40,
}

RTOL = 2e-5
ATOL = 2e-6
EPS32 = 2.0 ** -23
PENALTY_MIN = 1e300
HALF_LOG_2PI = 0.5 * math.log(2 * math.pi)
LVL_IND = 0


# ------------------------------------------------------------------------------------------------
# oracles (numpy / scipy, float64)
# ------------------------------------------------------------------------------------------------
def to_np(t):
    import numpy as np
    import torch

    from leaspy.utils.weighted_tensor import WeightedTensor

    if isinstance(t, WeightedTensor):
        t = t.value
    if isinstance(t, torch.Tensor):
        return t.detach().to(torch.float64).numpy() if t.dtype != torch.bool else t.detach().numpy()
    return np.asarray(t, dtype=np.float64)


def ref_normal(x, loc, scale):
    """entries of -log N(x; loc, scale^2) and their tolerance (broadcast)."""
    import numpy as np
    from scipy import stats

    with np.errstate(all="ignore"):
        ref = -stats.norm.logpdf(x, loc=loc, scale=scale)
        z = (x - loc) / scale
        mag = 0.5 * z * z + np.abs(np.log(scale)) + HALF_LOG_2PI
    return ref, RTOL * mag + ATOL


P_SAT = 1e-6
SAT_AGREE_MAX = 2e-6
SAT_DISAGREE_MIN = -math.log(P_SAT) - 1e-3


def ref_bernoulli(y, p):
    """Interval oracle, entry by entry: [lo, hi] widened by tol.
    p strictly inside (1e-6, 1-1e-6): lo = hi = -bernoulli.logpmf(y, p) (scipy).
    Saturated probability (p <= 1e-6 or p >= 1-1e-6, incl. exactly 0 / 1), weaker but sound: agreeing outcome -> [0, 2e-6];
    disagreeing outcome -> [-log(1e-6) - 1e-3, +inf] (finite or +inf accepted). NaN is never accepted."""
    import numpy as np
    from scipy import stats

    y, p = np.broadcast_arrays(np.asarray(y, dtype=np.float64), np.asarray(p, dtype=np.float64))
    inside = (p > P_SAT) & (p < 1 - P_SAT)
    agree = ~inside & (((y == 1) & (p >= 1 - P_SAT)) | ((y == 0) & (p <= P_SAT)))
    disagree = ~inside & ~agree
    with np.errstate(all="ignore"):
        ref = -stats.bernoulli.logpmf(y, np.where(inside, p, 0.5))
    lo = np.where(inside, ref, np.where(agree, 0.0, SAT_DISAGREE_MIN))
    hi = np.where(inside, ref, np.where(agree, SAT_AGREE_MAX, np.inf))
    tol = np.where(inside, RTOL * np.abs(ref) + ATOL, 0.0)
    return dict(lo=lo, hi=hi, tol=tol, inside=inside, agree=agree, disagree=disagree, exact=(p == 0) | (p == 1))


def interval_sum(B, mask=None, axis=None):
    """bounds of the masked sum of interval-valued entries and its tolerance"""
    import numpy as np

    if mask is None:
        mask = np.ones(B["lo"].shape, dtype=bool)
    lo = np.where(mask, B["lo"], 0.0).sum(axis=axis)
    hi = np.where(mask, B["hi"], 0.0).sum(axis=axis)
    tol = np.where(mask, B["tol"], 0.0).sum(axis=axis) + 1e-5 * np.abs(lo) + ATOL
    return lo, hi, tol


def judge_interval(col, sub_check, bucket, inp, what, got, lo, hi, tol, mask=None):
    """got must not be NaN and lie in [lo - tol, hi + tol] (hi may be +inf: then +inf is accepted)."""
    import numpy as np

    got = np.asarray(got, dtype=np.float64)
    lo = np.asarray(lo, dtype=np.float64)
    if got.shape != lo.shape:
        col.fail(sub_check, bucket + ":shape", inp, observed=f"{what}: shape {got.shape}", expected=f"shape {lo.shape}")
        return False
    hi, tol = np.broadcast_to(hi, got.shape), np.broadcast_to(tol, got.shape)
    with np.errstate(all="ignore"):
        bad = np.isnan(got) | ~(got >= lo - tol) | ~(got <= hi + tol)
    if mask is not None:
        bad = bad & np.broadcast_to(mask, got.shape)
    if not bad.any():
        return True
    idx = tuple(int(i) for i in np.argwhere(bad)[0])
    g = got[idx]
    kind = "nan" if np.isnan(g) else ("mismatch" if lo[idx] == hi[idx] else "outside-saturated-bounds")
    exp = f"{lo[idx]!r} +- {tol[idx]:.3g} (scipy)" if lo[idx] == hi[idx] else f"value in [{lo[idx]!r}, {hi[idx]!r}] (saturated probability), never NaN"
    col.fail(sub_check, f"{bucket}:{kind}", inp, observed=f"{what}{list(idx)} = {g!r}", expected=exp)
    return False


def ref_weibull(et, eb, nu, rho, xi, tau, shifts=None):
    """Right-censored Weibull on the reparametrized time s = event_time - tau with scale nu*exp(-xi) resp.
    nu*exp(-(xi + shifts/rho)): -(logsf(max(s,0)) + delta*(logpdf - logsf)(s)).
    Returns dict of (n,e) arrays: nll, tol, surv, loghaz, pos (s>0), zero (s==0), penalty (observed & s<=0)."""
    import numpy as np
    from scipy import stats

    s = et - tau
    a = xi + (shifts / rho if shifts is not None else 0.0)
    shape = np.broadcast_shapes(s.shape, np.shape(a), np.shape(nu), np.shape(rho))
    s = np.broadcast_to(s, shape)
    a = np.broadcast_to(a, shape)
    c = np.broadcast_to(rho, shape)
    scale = np.broadcast_to(nu * np.exp(-a), shape)
    eb = np.broadcast_to(eb, shape).astype(bool)
    pos = s > 0
    s_cl = np.maximum(s, 0.0)
    s_safe = np.where(pos, s, 1.0)
    with np.errstate(all="ignore"):
        surv = -stats.weibull_min.logsf(s_cl, c, scale=scale) + 0.0
        loghaz = stats.weibull_min.logpdf(s_safe, c, scale=scale) - stats.weibull_min.logsf(s_safe, c, scale=scale)
        lr = np.log(s_safe / scale)
        mag_h = np.abs(np.log(c / scale)) + np.abs((c - 1.0) * lr)
    obs = eb & pos
    nll = surv - np.where(obs, loghaz, 0.0)
    eps_nu = (np.abs(a) + 3.0) * EPS32
    cond = 4.0 * c * eps_nu * (surv + 1.0) + 4.0 * EPS32 * (1.0 + np.abs(lr))
    tol_surv = RTOL * surv + cond + ATOL
    tol_h = RTOL * (surv + mag_h) + cond + ATOL
    tol = np.where(obs, tol_h, tol_surv)
    return dict(nll=nll, tol=tol, surv=surv, tol_surv=tol_surv, loghaz=loghaz, tol_h=tol_h, pos=pos, zero=(s == 0), neg=(s < 0),
                penalty=eb & ~pos, s=s, scale=scale)


def sum_tol(ref, tol, mask=None, axis=None):
    """reference masked sum and its tolerance (float32 accumulation of <= a few dozen terms)."""
    import numpy as np

    if mask is None:
        mask = np.ones(np.shape(ref), dtype=bool)
    r = np.where(mask, ref, 0.0)
    t = np.where(mask, tol, 0.0)
    return r.sum(axis=axis), t.sum(axis=axis) + 1e-5 * np.abs(r).sum(axis=axis) + ATOL


def first_bad(got, ref, tol, mask=None):
    """index of the first entry (numpy arrays of equal shape) with non-finite got or |got-ref| > tol; None if all fine."""
    import numpy as np

    got = np.asarray(got, dtype=np.float64)
    ref = np.broadcast_to(np.asarray(ref, dtype=np.float64), got.shape)
    tol = np.broadcast_to(np.asarray(tol, dtype=np.float64), got.shape)
    with np.errstate(all="ignore"):
        bad = ~np.isfinite(got) | ~(np.abs(got - ref) <= tol)
    if mask is not None:
        bad = bad & np.broadcast_to(mask, got.shape)
    if not bad.any():
        return None
    idx = tuple(int(i) for i in np.argwhere(bad)[0])
    return idx


def judge(col, sub_check, bucket, inp, what, got, ref, tol, mask=None):
    """compare arrays; record one failure for the first bad entry. Returns True if fine."""
    import numpy as np

    got = np.asarray(got, dtype=np.float64)
    ref_b = np.asarray(ref, dtype=np.float64)
    if got.shape != ref_b.shape:
        col.fail(sub_check, bucket + ":shape", inp, observed=f"{what}: shape {got.shape}", expected=f"shape {ref_b.shape}")
        return False
    idx = first_bad(got, ref_b, tol, mask)
    if idx is None:
        return True
    g = got[idx]
    r = np.broadcast_to(ref_b, got.shape)[idx]
    t = np.broadcast_to(np.asarray(tol, dtype=np.float64), got.shape)[idx]
    kind = "nonfinite" if not np.isfinite(g) else "mismatch"
    col.fail(sub_check, f"{bucket}:{kind}", inp, observed=f"{what}{list(idx)} = {g!r}", expected=f"{r!r} +- {t:.3g} (scipy)")
    return False


def judge_penalty(col, sub_check, bucket, inp, what, got, mask):
    """entries selected by `mask` must be finite, >= 1e300, not NaN."""
    import numpy as np

    got = np.asarray(got, dtype=np.float64)
    mask = np.broadcast_to(mask, got.shape)
    with np.errstate(all="ignore"):
        bad = mask & ~(np.isfinite(got) & (got >= PENALTY_MIN))
    if not bad.any():
        return True
    idx = tuple(int(i) for i in np.argwhere(bad)[0])
    col.fail(sub_check, f"{bucket}:penalty-not-finite-prohibitive", inp, observed=f"{what}{list(idx)} = {got[idx]!r}",
             expected="finite value >= 1e300 (event before the reference time)")
    return False


# ------------------------------------------------------------------------------------------------
# engine D: distribution level
# ------------------------------------------------------------------------------------------------
NORMAL_LAYOUTS = ("scalar", "pop-vec", "pop-mat", "ind-col", "ind-col-loc0", "ind-src", "ind-feat", "attach-scalar", "attach-diag")
JUNK = [float("nan"), 1e30, -5.0, 0.5, float("inf"), 2.0, -1.0]


def normal_shapes(layout, n, t, k, s):
    """value shape, loc shape, scale shape, default route, summed-out axes (None = all)"""
    return {
        "scalar": ((), (), (), "regularization", None),
        "pop-vec": ((k,), (k,), (), "regularization", None),
        "pop-mat": ((k, s), (k, s), (), "regularization", None),
        "ind-col": ((n, 1), (1,), (1,), "regularization", (1,)),
        "ind-col-loc0": ((n, 1), (), (1,), "regularization", (1,)),
        "ind-src": ((n, s), (s,), (), "regularization", (1,)),
        "ind-feat": ((n, k), (k,), (k,), "regularization", (1,)),
        "attach-scalar": ((n, t, k), (n, t, k), (1,), "nll", (1, 2)),
        "attach-diag": ((n, t, k), (n, t, k), (k,), "nll", (1, 2)),
    }[layout]


@st.composite
def normal_case(draw):
    layout = draw(st.sampled_from(NORMAL_LAYOUTS))
    n, t, k, s = draw(st.integers(1, 8)), draw(st.integers(1, 5)), draw(st.integers(1, 4)), draw(st.integers(1, 3))
    rng = draw(st.sampled_from(["unit", "unit", "age"]))
    lo, hi = (-3.0, 3.0) if rng == "unit" else (30.0, 100.0)
    x = draw(st.lists(gen.f32(lo, hi), min_size=1, max_size=7))
    loc = draw(st.lists(gen.f32(lo, hi), min_size=1, max_size=5))
    scale = draw(st.lists(st.one_of(gen.f32(0.01, 1.0), gen.f32(0.01, 15.0), st.just(1.0)), min_size=1, max_size=4))
    route = draw(st.sampled_from(["default", "default", "nll", "nll_and_jacobian"]))
    if route == "default":
        route = normal_shapes(layout, n, t, k, s)[3]
    case = dict(family="normal", layout=layout, n=n, t=t, k=k, s=s, x=x, loc=loc, scale=scale, route=route)
    if route != "regularization":  # the nll routes take a WeightedTensor: no weight / boolean weight / boolean weight over junk
        wmode = draw(st.sampled_from(["none", "bool", "junk", "junk"]))
        if wmode != "none":
            case["w"] = draw(st.lists(st.integers(0, 1), min_size=2, max_size=11))
            if wmode == "junk":
                case["junk"] = draw(st.lists(st.integers(0, len(JUNK) - 1), min_size=1, max_size=4))
    return case


def _weighted(vals_t, case):
    """WeightedTensor from a value tensor and the case's weight / junk lists. Returns (wt, mask ndarray or None)."""
    import torch

    from leaspy.utils.weighted_tensor import WeightedTensor

    if "w" not in case:
        return WeightedTensor(vals_t), None
    w = gen.tensor_from([float(b) for b in case["w"]], tuple(vals_t.shape)).to(torch.bool)
    if "junk" in case:
        junk = gen.tensor_from([JUNK[j] for j in case["junk"]], tuple(vals_t.shape), like=vals_t)
        vals_t = torch.where(w, vals_t, junk)
    return WeightedTensor(vals_t, w), w.numpy()


def body_normal(col: Collector, case):
    import numpy as np
    import torch

    from leaspy.utils.weighted_tensor import WeightedTensor, sum_dim
    from leaspy.variables.distributions import Normal

    layout = case["layout"]
    xs, ls, ss, _, axes = normal_shapes(layout, case["n"], case["t"], case["k"], case["s"])
    route = case["route"]
    x_t = gen.tensor_from(case["x"], xs)
    loc_t = gen.tensor_from(case["loc"], ls)
    scale_t = gen.tensor_from(case["scale"], ss)
    sub, bucket = "dist-normal", "normal"
    classes = ["normal", f"normal:{layout}", f"normal:via-{route}"]
    dist = Normal("loc", "scale")
    mask = None
    try:
        if route == "regularization":
            f = dist.get_func_regularization("x")
            r = f(x=x_t, loc=loc_t, scale=scale_t)
            tot = f.then(sum_dim)(x=x_t, loc=loc_t, scale=scale_t)
            per = f.then(sum_dim, but_dim=LVL_IND)(x=x_t, loc=loc_t, scale=scale_t) if axes else None
        else:
            xw, mask = _weighted(x_t, case)
            if route == "nll":
                f = dist.get_func_nll("x")
                r = f(x=xw, loc=loc_t, scale=scale_t)
                tot = f.then(sum_dim)(x=xw, loc=loc_t, scale=scale_t)
                per = f.then(sum_dim, but_dim=LVL_IND)(x=xw, loc=loc_t, scale=scale_t) if axes else None
            else:
                r = dist.get_func_nll_and_jacobian("x")(x=xw, loc=loc_t, scale=scale_t)[0]
                tot = sum_dim(r)
                per = sum_dim(r, but_dim=LVL_IND) if axes else None
    except Exception as e:  # the call must succeed on documented inputs
        col.fail(sub, f"{bucket}:unexpected-exception:{exc_bucket(e)}", case, observed=repr(e), expected="negative log-density returned")
        col.case(classes=classes)
        return
    ref, tol = ref_normal(to_np(x_t), to_np(loc_t), to_np(scale_t))
    ok = True
    if not isinstance(r, WeightedTensor):
        col.fail(sub, f"{bucket}:not-a-weighted-tensor", case, observed=type(r).__name__, expected="WeightedTensor")
        ok = False
    else:
        if mask is not None:
            classes.append("normal:weighted")
            if "junk" in case and not mask.all():
                classes.append("normal:masked-junk")
            if r.weight is None or not np.array_equal(r.weight.numpy().astype(bool), mask):
                col.fail(sub, f"{bucket}:weight-lost", case, observed=f"weight {None if r.weight is None else r.weight.tolist()}",
                         expected=f"the weight of the value {mask.tolist()}")
                ok = False
        ok = ok and judge(col, sub, bucket + ":entry", case, "nll", to_np(r.value), ref, tol, mask)
        if ok:
            sr, stol = sum_tol(ref, tol, mask)
            ok = judge(col, sub, bucket + ":total-sum", case, "sum_dim(nll)", to_np(tot), sr, stol) and ok
            if per is not None:
                sr, stol = sum_tol(ref, tol, mask, axis=axes)
                ok = judge(col, sub, bucket + ":per-individual-sum", case, "sum_dim(nll, but_dim=0)", to_np(per), sr, stol) and ok
        if ok and mask is None:
            # metamorphic extras (tolerance-based): symmetry around loc = 0 and the scale law for c = 2
            try:
                zero = torch.zeros_like(loc_t)
                a = dist.get_func_regularization("x")(x=x_t, loc=zero, scale=scale_t).value
                b = dist.get_func_regularization("x")(x=-x_t, loc=zero, scale=scale_t).value
                r0, t0 = ref_normal(to_np(x_t), 0.0, to_np(scale_t))
                judge(col, sub, bucket + ":symmetry", case, "nll(-x; 0, s) vs nll(x; 0, s)", to_np(b), to_np(a), t0)
                c2 = dist.get_func_regularization("x")(x=x_t, loc=loc_t, scale=2.0 * scale_t).value
                z = (to_np(x_t) - to_np(loc_t)) / to_np(scale_t)
                law = math.log(2.0) + 0.5 * z * z * (0.25 - 1.0)
                judge(col, sub, bucket + ":scale-law", case, "nll(scale*2) - nll(scale)", to_np(c2) - to_np(r.value), law, 2.0 * tol)
            except Exception as e:
                col.fail(sub, f"{bucket}:unexpected-exception:{exc_bucket(e)}", case, observed=repr(e), expected="negative log-density returned")
    sc = to_np(scale_t)
    nontrivial = layout != "scalar" and bool((sc != 1.0).any()) and int(np.prod(xs)) > 1
    if nontrivial:
        classes.append("nontrivial")
    col.case(classes=classes, nontrivial=jhash(case) if nontrivial else None, sample=case)


@st.composite
def bernoulli_case(draw):
    n, t, k = draw(st.integers(1, 8)), draw(st.integers(1, 5)), draw(st.integers(1, 4))
    pcls = draw(st.sampled_from(["mid", "mid", "edge", "sat", "sat"]))
    if pcls == "mid":
        p_el = gen.f32(0.02, 0.98)
    elif pcls == "edge":
        p_el = st.one_of(gen.f32(1.1e-6, 1e-3), gen.f32(0.999, 1 - 1.1e-6), gen.f32(0.02, 0.98))
    else:  # saturated probabilities as a float32 logistic curve produces them: exactly 0 / 1, one ulp below 1, denormal-small, the bounds
        p_el = st.one_of(st.sampled_from(SAT_P), st.sampled_from([0.0, 1.0]), gen.f32(0.0, 1e-6), gen.f32(1 - 1e-6, 1.0), gen.f32(0.02, 0.98))
    case = dict(family="bernoulli", n=n, t=t, k=k, p=draw(st.lists(p_el, min_size=1, max_size=7)),
                y=draw(st.lists(st.integers(0, 1), min_size=1, max_size=9)))
    wmode = draw(st.sampled_from(["none", "bool", "junk", "junk"]))
    if wmode != "none":
        case["w"] = draw(st.lists(st.integers(0, 1), min_size=2, max_size=11))
        if wmode == "junk":
            case["junk"] = draw(st.lists(st.sampled_from([0, 2, 3, 5, 6]), min_size=1, max_size=4))  # nan, -5, 0.5, 2, -1: outside {0,1}
    return case


def body_bernoulli(col: Collector, case):
    import numpy as np

    from leaspy.utils.weighted_tensor import WeightedTensor, sum_dim
    from leaspy.variables.distributions import Bernoulli

    shape = (case["n"], case["t"], case["k"])
    y_t = gen.tensor_from([float(v) for v in case["y"]], shape)
    p_t = gen.tensor_from(case["p"], shape)
    yw, mask = _weighted(y_t, case)
    sub, bucket = "dist-bernoulli", "bernoulli"
    classes = ["bernoulli"]
    f = Bernoulli("p").get_func_nll("y")
    try:
        r = f(y=yw, p=p_t)
        per = f.then(sum_dim, but_dim=LVL_IND)(y=yw, p=p_t)
        tot = f.then(sum_dim)(y=yw, p=p_t)
    except Exception as e:
        cls = ":masked-junk" if ("junk" in case and mask is not None and not mask.all()) else ""
        col.fail(sub, f"{bucket}:unexpected-exception{cls}:{exc_bucket(e)}", case, observed=repr(e), expected="negative log-mass returned")
        col.case(classes=classes)
        return
    B = ref_bernoulli(to_np(y_t), to_np(p_t))
    seen = np.ones(shape, dtype=bool) if mask is None else mask
    if (seen & ~B["inside"]).any():
        classes.append("bernoulli:saturated")
        if (seen & B["agree"]).any():
            classes.append("bernoulli:saturated-agreeing")
        if (seen & B["disagree"]).any():
            classes.append("bernoulli:saturated-disagreeing")
        if (seen & B["exact"]).any():
            classes.append("bernoulli:p-exactly-0-or-1")
    ok = True
    if not isinstance(r, WeightedTensor):
        col.fail(sub, f"{bucket}:not-a-weighted-tensor", case, observed=type(r).__name__, expected="WeightedTensor")
        ok = False
    if ok and mask is not None:
        classes.append("bernoulli:weighted")
        if "junk" in case and not mask.all():
            classes.append("bernoulli:masked-junk")
        if r.weight is None or not np.array_equal(r.weight.numpy().astype(bool), mask):
            col.fail(sub, f"{bucket}:weight-lost", case, observed=f"weight {None if r.weight is None else r.weight.tolist()}", expected=str(mask.tolist()))
            ok = False
    if ok:
        ok = judge_interval(col, sub, bucket + ":entry", case, "nll", to_np(r.value), B["lo"], B["hi"], B["tol"], mask)
    if ok:  # every term is acceptable (hence non-NaN): the sums must be non-NaN and inside the summed bounds
        lo, hi, stol = interval_sum(B, mask, axis=(1, 2))
        judge_interval(col, sub, bucket + ":per-individual-sum", case, "sum_dim(nll, but_dim=0)", to_np(per), lo, hi, stol)
        lo, hi, stol = interval_sum(B, mask)
        judge_interval(col, sub, bucket + ":total-sum", case, "sum_dim(nll)", to_np(tot), lo, hi, stol)
    yv = to_np(y_t)[mask] if mask is not None else to_np(y_t).ravel()
    both = bool((yv == 0).any() and (yv == 1).any())
    if both:
        classes.append("bernoulli:both-outcomes")
    nontrivial = both and yv.size > 1
    if nontrivial:
        classes.append("nontrivial")
    col.case(classes=classes, nontrivial=jhash(case) if nontrivial else None, sample=case)


SAT_P = [0.0, 1.0, 1 - 2.0 ** -24, 1 - 2.0 ** -23, 1 - 2.0 ** -20, 2.0 ** -24, 1e-7, 1e-10, 1e-30, 1e-45, 1e-6, 1 - 1e-6]


TIME_CLASSES = ("after", "after", "after", "after", "before", "at")


@st.composite
def weibull_case(draw):
    n = draw(st.integers(2, 8))
    e = draw(st.sampled_from([1, 1, 1, 2, 3]))
    sources = draw(st.booleans())
    rho_el = st.one_of(gen.f32(0.3, 1.0), gen.f32(1.0, 6.0), gen.f32(1.0, 6.0), st.just(1.0))
    tau_rng = draw(st.sampled_from(["age", "age", "zero"]))
    tau_el = gen.f32(30.0, 90.0) if tau_rng == "age" else gen.f32(-2.0, 2.0)
    rows = []
    for _ in range(n):
        tc = draw(st.sampled_from(TIME_CLASSES))
        d = 0.0 if tc == "at" else draw(st.one_of(st.floats(1e-3, 40.0, allow_nan=False), st.floats(1e-6, 1.0, allow_nan=False)))
        which = draw(st.integers(0, e))  # 0 = censored for every event, j = event j observed (one-hot, as the loader produces)
        rows.append(dict(tau=draw(tau_el), xi=draw(gen.f32(-2.0, 2.0)), tc=tc, d=d, which=which,
                         shifts=[draw(gen.f32(-2.0, 2.0)) for _ in range(e)] if sources else None))
    return dict(family="weibull", e=e, sources=sources, nu=[draw(gen.f32(0.5, 100.0)) for _ in range(e)],
                rho=[draw(rho_el) for _ in range(e)], rows=rows)


def weibull_tensors(case):
    import numpy as np
    import torch

    e, rows = case["e"], case["rows"]
    n = len(rows)
    tau = torch.tensor([[r["tau"]] for r in rows], dtype=torch.float32)
    xi = torch.tensor([[r["xi"]] for r in rows], dtype=torch.float32)
    nu = torch.tensor(case["nu"], dtype=torch.float32)
    rho = torch.tensor(case["rho"], dtype=torch.float32)
    tau64 = tau.to(torch.float64)[:, 0].tolist()
    et = []
    for r, t0 in zip(rows, tau64):
        if r["tc"] == "after":
            v = t0 + r["d"]
            if not v > t0:  # |tau| large, d tiny: keep the class by construction
                v = float(np.nextafter(t0, np.inf))
        elif r["tc"] == "before":
            v = t0 - r["d"]
            if not v < t0:
                v = float(np.nextafter(t0, -np.inf))
        else:
            v = t0
        et.append([v] * e)  # one event time per subject, repeated per competing event (as the loader produces)
    et = torch.tensor(et, dtype=torch.float64)
    eb = torch.tensor([[r["which"] == j + 1 for j in range(e)] for r in rows], dtype=torch.bool)
    shifts = torch.tensor([r["shifts"] for r in rows], dtype=torch.float32) if case["sources"] else None
    return et, eb, nu, rho, xi, tau, shifts


def check_weibull_values(col, sub, bucket, inp, what, got, R):
    """entries of a Weibull nll tensor against the reference dict R (non-penalty: value; penalty: finite prohibitive / finite)."""
    import numpy as np

    got = np.asarray(got, dtype=np.float64)
    if got.shape != R["nll"].shape:
        col.fail(sub, f"{bucket}:shape", inp, observed=f"{what}: shape {got.shape}", expected=f"shape {R['nll'].shape}")
        return False
    ok = judge(col, sub, bucket + ":entry", inp, what, got, R["nll"], R["tol"], ~R["penalty"])
    ok = judge_penalty(col, sub, bucket, inp, what, got, R["penalty"] & R["neg"]) and ok
    at = R["penalty"] & R["zero"]
    if at.any() and not np.isfinite(got[at]).all():
        col.fail(sub, f"{bucket}:event-at-reference-nonfinite", inp, observed=f"{what} = {got[at].tolist()}", expected="finite values")
        ok = False
    return ok


def body_weibull(col: Collector, case):
    import numpy as np
    import torch

    from leaspy.utils.weighted_tensor import WeightedTensor, sum_dim
    from leaspy.variables.distributions import WeibullRightCensored, WeibullRightCensoredWithSources

    et, eb, nu, rho, xi, tau, shifts = weibull_tensors(case)
    sub, bucket = "dist-weibull", "weibull-src" if case["sources"] else "weibull"
    if case["sources"]:
        dist = WeibullRightCensoredWithSources("nu", "rho", "xi", "tau", "survival_shifts")
        kw = dict(nu=nu, rho=rho, xi=xi, tau=tau, survival_shifts=shifts)
    else:
        dist = WeibullRightCensored("nu", "rho", "xi", "tau")
        kw = dict(nu=nu, rho=rho, xi=xi, tau=tau)
    f = dist.get_func_nll("event")
    classes = ["weibull", "weibull:sources" if case["sources"] else "weibull:no-sources"]
    if case["e"] > 1:
        classes.append("weibull:multi-event")
    R = ref_weibull(to_np(et), eb.numpy(), to_np(nu), to_np(rho), to_np(xi), to_np(tau), None if shifts is None else to_np(shifts))
    for name, m in (("obs-after", R["pos"] & eb.numpy()), ("cens-after", R["pos"] & ~eb.numpy()), ("obs-before", R["neg"] & eb.numpy()),
                    ("cens-before", R["neg"] & ~eb.numpy()), ("obs-at", R["zero"] & eb.numpy()), ("cens-at", R["zero"] & ~eb.numpy())):
        if m.any():
            col.cls("weibull:row:" + name, int(m.sum()))
    rho_np = to_np(rho)
    if (rho_np == 1.0).any():
        classes.append("weibull:rho-eq-1")
    if (rho_np < 1.0).any():
        classes.append("weibull:rho-lt-1")
    try:
        r = f(event=WeightedTensor(et, eb), **kw)
        r0 = f(event=WeightedTensor(et, torch.zeros_like(eb)), **kw)
        r1 = f(event=WeightedTensor(et, torch.ones_like(eb)), **kw)
        per = f.then(sum_dim, but_dim=LVL_IND)(event=WeightedTensor(et, eb), **kw)
    except Exception as e:
        col.fail(sub, f"{bucket}:unexpected-exception:{exc_bucket(e)}", case, observed=repr(e), expected="negative log-likelihood returned")
        col.case(classes=classes)
        return
    if not isinstance(r, WeightedTensor):
        col.fail(sub, f"{bucket}:not-a-weighted-tensor", case, observed=type(r).__name__, expected="WeightedTensor")
    else:
        if r.weight is not None and not bool((r.weight != 0).all()):
            col.fail(sub, f"{bucket}:censoring-indicator-used-as-mask", case, observed=f"weight {r.weight.tolist()}",
                     expected="every row contributes (censored rows: survival term)")
        ok = check_weibull_values(col, sub, bucket, case, "nll", to_np(r.value), R)
        if ok:
            # censoring flipped: all-censored = survival only; all-observed minus all-censored = -log-hazard; mixed = row-wise selection
            g0, g1, g = to_np(r0.value), to_np(r1.value), to_np(r.value)
            judge(col, sub, bucket + ":censored-rows-not-survival-only", case, "nll(all censored)", g0, R["surv"], R["tol_surv"])
            judge(col, sub, bucket + ":flip-difference-not-log-hazard", case, "nll(all observed) - nll(all censored)", g1 - g0, -R["loghaz"],
                  R["tol_h"], R["pos"])
            sel = np.where(eb.numpy(), g1, g0)
            if not np.array_equal(g, sel, equal_nan=True):
                col.fail(sub, f"{bucket}:row-depends-on-other-rows-censoring", case, observed=g.tolist(), expected=sel.tolist())
            # per-individual sum over competing events
            pen_row = R["penalty"].any(axis=1)
            sr, stol = sum_tol(R["nll"], R["tol"], ~R["penalty"], axis=1)
            judge(col, sub, bucket + ":per-individual-sum", case, "sum_dim(nll, but_dim=0)", to_np(per), sr, stol, ~pen_row)
            judge_penalty(col, sub, bucket + ":per-individual-sum", case, "sum_dim(nll, but_dim=0)", to_np(per), (R["penalty"] & R["neg"]).any(axis=1))
    ebn = eb.numpy()
    nontrivial = bool((rho_np != 1.0).any() and (R["pos"] & ebn).any() and (R["pos"] & ~ebn).any())
    if nontrivial:
        classes.append("nontrivial")
    col.case(classes=classes, nontrivial=jhash(case) if nontrivial else None, sample=case)


BODIES = {"normal": body_normal, "bernoulli": body_bernoulli, "weibull": body_weibull}
STRATS = {"normal": normal_case, "bernoulli": bernoulli_case, "weibull": weibull_case}


def shard_dist(family: str, seed: int, n_examples: int, shard: int = 0):
    env.import_leaspy()
    col = Collector(PROP, f"D-{family}-{shard}")
    drive(col, STRATS[family](), BODIES[family], n_examples=n_examples, seed=shard_seed(seed, shard, 1), sub_check="dist-" + family)
    return col


# ------------------------------------------------------------------------------------------------
# engine M: model level
# ------------------------------------------------------------------------------------------------
K_SETS = 5
POP_RANGES = {
    "log_g": (-3.0, 3.0), "g": (-1.0, 1.0), "log_v0": (-6.0, -1.0), "betas": (-1.0, 1.0), "deltas": (-1.0, 1.0),
    "n_log_nu": (-math.log(50.0), 0.0), "log_rho": (math.log(0.5), math.log(5.0)), "zeta": (-0.5, 0.5),
}
PARAM_RANGES = {"tau_mean": (40.0, 90.0), "tau_std": (1.0, 15.0), "xi_std": (0.05, 1.5), "xi_mean": (-1.0, 1.0), "noise_std": (0.01, 0.5)}


@st.composite
def model_case(draw, kinds, bernoulli=False):
    if bernoulli:
        d = draw(st.integers(1, 3))
        cfg = dict(kind="logistic", kwargs=dict(dimension=d, source_dimension=draw(st.integers(0, d - 1)), obs_models="bernoulli"))
    else:
        cfg = draw(gen.model_cfg(kinds=tuple(kinds), dim=(1, 4)))
    feats = [f"f{j}" for j in range(cfg["kwargs"]["dimension"])]
    cohort = draw(gen.cohort(kind=gen.data_kind_for(cfg), n_ind=(2, 8), n_visits=(1, 5), features=feats, event=cfg["kind"] == "joint",
                             id_kinds=("s",), shuffle=False))
    u = st.floats(-1.0, 1.0, allow_nan=False, width=32)
    sets = [dict(u=draw(st.lists(u, min_size=11, max_size=17)),
                 tau_mode=draw(st.lists(st.sampled_from([0, 0, 0, 1, 2]), min_size=3, max_size=8)) if cfg["kind"] == "joint" else None)
            for _ in range(K_SETS)]
    if bernoulli:  # large xi / onset long before or after the visits: the float32 logistic curve saturates (also to exactly 0 / 1)
        for oset in sets:
            if draw(st.booleans()):
                oset["xi_boost"] = draw(st.lists(st.sampled_from([0.0, 0.0, 3.0, 6.0, 9.0]), min_size=2, max_size=5))
                oset["tau_shift"] = draw(st.lists(st.sampled_from([0.0, -30.0, 30.0]), min_size=2, max_size=5))
    return dict(engine="model", cfg=cfg, cohort=cohort, sets=sets)


def _rot(u, i):
    i %= len(u)
    return u[i:] + u[:i]


def apply_overrides(s, oset):
    """Overwrite every model parameter and latent variable of the live state with generated values (plain assignments,
    auto-fork off - what loading parameters / sampler steps do)."""
    import torch

    from leaspy.utils.weighted_tensor import WeightedTensor

    dag = s.dag
    names = list(dag.sorted_variables_names)
    tname = {n: type(dag[n]).__name__ for n in names}
    u = [float(v) for v in oset["u"]]

    def unit(i, shape):
        return gen.tensor_from(_rot(u, 3 * i + 1), tuple(shape))

    def scaled(U, lo, hi):
        return (lo + (hi - lo) * (U + 1.0) / 2.0).to(torch.float32)

    order = sorted(names)
    idx = {n: i for i, n in enumerate(order)}
    with s.auto_fork(None):
        for n in order:
            if tname[n] == "PopulationLatentVariable":
                lo, hi = POP_RANGES.get(n, (-1.0, 1.0))
                s[n] = scaled(unit(idx[n], s[n].shape), lo, hi)
        for n in order:
            if tname[n] != "ModelParameter":
                continue
            shape = s[n].shape
            if n.endswith("_mean") and tname.get(n[: -len("_mean")]) == "PopulationLatentVariable":
                s[n] = (s[n[: -len("_mean")]] + 0.03 * unit(idx[n] + 7, shape)).to(torch.float32)
            else:
                lo, hi = PARAM_RANGES.get(n, (0.05, 1.5) if n.endswith("_std") else (-1.0, 1.0))
                s[n] = scaled(unit(idx[n], shape), lo, hi)
        for n in order:
            if tname[n] != "IndividualLatentVariable":
                continue
            U = unit(idx[n], s[n].shape)
            if n == "tau":
                v = s["tau_mean"] + 3.0 * s["tau_std"] * U
                if oset.get("tau_mode") and "event" in tname:
                    ev = s["event"]
                    et = (ev.value if isinstance(ev, WeightedTensor) else ev)[:, :1].to(torch.float32)
                    modes = gen.tensor_from([float(m) for m in oset["tau_mode"]], tuple(v.shape))
                    d = 0.05 + 5.0 * (U.abs())
                    v = torch.where(modes == 1, et + d, torch.where(modes == 2, et - d, v))
                if oset.get("tau_shift"):
                    v = v + gen.tensor_from(oset["tau_shift"], tuple(v.shape))
                s[n] = v.to(torch.float32)
            elif n == "xi":
                v = s["xi_mean"] + 2.0 * U
                if oset.get("xi_boost"):
                    v = v + gen.tensor_from(oset["xi_boost"], tuple(v.shape))
                s[n] = v.to(torch.float32)
            else:
                s[n] = (3.0 * U).to(torch.float32)


def check_model_state(col, s, cfg, inp):
    """All likelihood terms of the state against the oracle. Returns dict of flags for classification."""
    import numpy as np

    from leaspy.utils.weighted_tensor import WeightedTensor

    sub = "model"
    dag = s.dag
    names = set(dag.sorted_variables_names)
    tname = {n: type(dag[n]).__name__ for n in names}
    flags = dict(before=False, cens=False, obs=False, rho1=False, judged=0)
    obs_kind = cfg["kwargs"].get("obs_models", "gaussian")
    y = s["y"]
    yv, w = to_np(y.value), y.weight.numpy().astype(bool)
    n_ind = yv.shape[0]
    model = to_np(s["model"])
    attach_y = "nll_attach_y" if "nll_attach_y_ind" in names else "nll_attach"
    ind_ok = np.ones(n_ind, dtype=bool)  # individuals that satisfy the preconditions of the oracle
    fin = np.isfinite(np.where(w, model, 0.0)).all(axis=(1, 2))
    if not fin.all():
        col.exclude("individual-with-nonfinite-model-value", int((~fin).sum()))
        ind_ok &= fin
    if obs_kind == "bernoulli":
        B = ref_bernoulli(yv, np.nan_to_num(model, nan=0.5))
        flags.update(sat=bool((w & ~B["inside"])[ind_ok].any()), exact=bool((w & B["exact"])[ind_ok].any()),
                     sat_disagree=bool((w & B["disagree"])[ind_ok].any()))
        lo, hi, itol = interval_sum(B, w, axis=(1, 2))
        judge_interval(col, sub, "M:bernoulli-attach-ind", inp, attach_y + "_ind", to_np(s[attach_y + "_ind"]), lo, hi, itol, ind_ok)
        if ind_ok.all():
            judge_interval(col, sub, "M:bernoulli-attach-total", inp, attach_y, to_np(s[attach_y]), lo.sum(), hi.sum(),
                           itol.sum() + 1e-5 * np.abs(lo).sum())
        ref, tol, bucket = None, None, None
    else:
        sig = to_np(s["noise_std"])
        ref, tol = ref_normal(yv, np.nan_to_num(model), sig)
        bucket = "M:gaussian-attach"
    total_ok = bool(ind_ok.all())
    if ref is not None:
        y_ind, y_tol = sum_tol(ref, tol, w, axis=(1, 2))
        got_y_ind = to_np(s[attach_y + "_ind"])
        judge(col, sub, bucket + "-ind", inp, attach_y + "_ind", got_y_ind, y_ind, y_tol, ind_ok)
        if total_ok:
            judge(col, sub, bucket + "-total", inp, attach_y, to_np(s[attach_y]), y_ind.sum(), y_tol.sum() + 1e-5 * np.abs(y_ind).sum())
    # events
    if "event" in names:
        ev = s["event"]
        et, eb = to_np(ev.value), ev.weight.numpy().astype(bool)
        shifts = to_np(s["survival_shifts"]) if "survival_shifts" in names else None
        R = ref_weibull(et, eb, to_np(s["nu"]), to_np(s["rho"]), to_np(s["xi"]), to_np(s["tau"]), shifts)
        bucket = "M:weibull-src" if shifts is not None else "M:weibull"
        pen_row = R["penalty"].any(axis=1)
        e_ind, e_tol = sum_tol(R["nll"], R["tol"], ~R["penalty"], axis=1)
        got_e = to_np(s["nll_attach_event_ind"])
        judge(col, sub, bucket + "-attach-ind", inp, "nll_attach_event_ind", got_e, e_ind, e_tol, ~pen_row)
        judge_penalty(col, sub, bucket + "-attach-ind", inp, "nll_attach_event_ind", got_e, (R["penalty"] & R["neg"]).any(axis=1))
        got_a = to_np(s["nll_attach_ind"])
        judge(col, sub, "M:joint-attach-ind", inp, "nll_attach_ind", got_a, y_ind + e_ind, y_tol + e_tol, ~pen_row & ind_ok)
        judge_penalty(col, sub, "M:joint-attach-ind", inp, "nll_attach_ind", got_a, (R["penalty"] & R["neg"]).any(axis=1) & ind_ok)
        if total_ok:
            got_te, got_t = to_np(s["nll_attach_event"]), to_np(s["nll_attach"])
            if pen_row.any():
                if (R["penalty"] & R["neg"]).any():
                    judge_penalty(col, sub, bucket + "-attach-total", inp, "nll_attach_event", got_te, np.array(True))
                    judge_penalty(col, sub, "M:joint-attach-total", inp, "nll_attach", got_t, np.array(True))
            else:
                judge(col, sub, bucket + "-attach-total", inp, "nll_attach_event", got_te, e_ind.sum(), e_tol.sum() + 1e-5 * np.abs(e_ind).sum())
                judge(col, sub, "M:joint-attach-total", inp, "nll_attach", got_t, (y_ind + e_ind).sum(),
                      (y_tol + e_tol).sum() + 1e-5 * (np.abs(y_ind) + np.abs(e_ind)).sum())
        flags.update(before=bool((R["penalty"] & R["neg"]).any()), cens=bool((R["pos"] & ~eb).any()), obs=bool((R["pos"] & eb).any()),
                     rho1=bool((to_np(s["rho"]) == 1.0).any()), with_sources=shifts is not None)
    # regularity of latent variables: Gaussian prior N(<var>_mean, <var>_std)
    ind_sum, ind_sum_tol = np.zeros(n_ind), np.zeros(n_ind)
    for n in sorted(names):
        if tname[n] not in ("PopulationLatentVariable", "IndividualLatentVariable"):
            continue
        if dag[n].prior.dist_family.__name__ != "NormalFamily":
            col.exclude(f"latent-with-non-normal-prior:{n}")
            continue
        x, loc, scale = to_np(s[n]), to_np(s[n + "_mean"]), to_np(s[n + "_std"])
        ref, tol = ref_normal(x, loc, scale)
        if tname[n] == "PopulationLatentVariable":
            sr, stol = sum_tol(ref, tol)
            judge(col, sub, "M:regul-pop", inp, f"nll_regul_{n}", to_np(s[f"nll_regul_{n}"]), sr, stol)
        else:
            axes = tuple(range(1, ref.ndim))
            sr, stol = sum_tol(ref, tol, axis=axes)
            judge(col, sub, "M:regul-ind", inp, f"nll_regul_{n}_ind", to_np(s[f"nll_regul_{n}_ind"]), sr, stol)
            judge(col, sub, "M:regul-ind-total", inp, f"nll_regul_{n}", to_np(s[f"nll_regul_{n}"]), sr.sum(), stol.sum() + 1e-5 * np.abs(sr).sum())
            ind_sum += sr
            ind_sum_tol += stol
    judge(col, sub, "M:regul-ind-sum", inp, "nll_regul_ind_sum_ind", to_np(s["nll_regul_ind_sum_ind"]), ind_sum, ind_sum_tol + 1e-5 * np.abs(ind_sum))
    judge(col, sub, "M:regul-ind-sum-total", inp, "nll_regul_ind_sum", to_np(s["nll_regul_ind_sum"]), ind_sum.sum(),
          ind_sum_tol.sum() + 2e-5 * np.abs(ind_sum).sum())
    flags["judged"] = int(ind_ok.sum())
    flags["n_ind"] = n_ind
    real_visit = s["t"].weight.numpy().astype(bool)  # padding visits are not "missing values"
    flags["missing"] = bool((~w & real_visit[:, :, None]).any())
    return flags


_LIVE = {}


def _live(cfg, cohort):
    key = jhash([cfg, cohort])
    if key not in _LIVE:
        _LIVE.clear()
        try:
            _LIVE[key] = gen.live_state(cfg, cohort, latents="prior", seed=0)
        except gen.InitRejected as e:
            _LIVE[key] = str(e)
    return _LIVE[key]


def body_model(col: Collector, case):
    cfg = case["cfg"]
    live = _live(cfg, case["cohort"])
    if isinstance(live, str):
        col.exclude(live)
        return
    m, ds, s = live
    for k, oset in enumerate(case["sets"]):
        inp = dict(engine="model", cfg=cfg, cohort=case["cohort"], sets=[oset])
        try:
            apply_overrides(s, oset)
            flags = check_model_state(col, s, cfg, inp)
        except Exception as e:
            if leaspy_frame(e) == "outside-leaspy":
                raise  # harness error
            col.fail("model", "M:unexpected-exception:" + exc_bucket(e), inp, observed=repr(e), expected="likelihood terms computed")
            col.case(classes=["M"])
            continue
        kw = cfg["kwargs"]
        obs = kw.get("obs_models", "gaussian-scalar" if kw["dimension"] == 1 else "gaussian-diagonal")
        classes = ["M", "M:kind:" + cfg["kind"], "M:obs:" + obs, "M:sources" if kw.get("source_dimension", 0) > 0 else "M:no-sources"]
        if flags.get("missing"):
            classes.append("M:missing-values")
        if flags.get("sat"):
            classes.append("M:bernoulli:saturated")
        if flags.get("exact"):
            classes.append("M:bernoulli:p-exactly-0-or-1")
        if flags.get("sat_disagree"):
            classes.append("M:bernoulli:saturated-disagreeing")
        nontrivial = flags["n_ind"] >= 2 and flags["judged"] >= 1
        if cfg["kind"] == "joint":
            classes.append("M:weibull-with-sources" if flags.get("with_sources") else "M:weibull-no-sources")
            if flags["before"]:
                classes.append("M:event-before-ref")
            if flags["cens"] and flags["obs"]:
                classes.append("M:event-censored-and-observed")
            nontrivial = nontrivial and flags["cens"] and flags["obs"] and not flags["rho1"]
        if nontrivial:
            classes.append("nontrivial")
        col.case(classes=classes, nontrivial=jhash(inp) if nontrivial else None,
                 sample=dict(engine="model", cfg=cfg, n_ind=flags["n_ind"], n_rows=len(case["cohort"]["rows"]), set=oset))


def shard_model(seed: int, n_examples: int, kinds, bernoulli: bool = False, shard: int = 0):
    env.import_leaspy()
    col = Collector(PROP, f"M-{'bernoulli' if bernoulli else '+'.join(kinds)}-{shard}")
    drive(col, model_case(tuple(kinds), bernoulli=bernoulli), body_model, n_examples=n_examples, seed=shard_seed(seed, shard, 2), sub_check="model")
    return col


# ------------------------------------------------------------------------------------------------
def shards(tier: str, seed: int):
    quick = tier == "quick"
    specs = []
    n_joint, n_other = (36, 100) if quick else (500, 2000)
    for s_ in range(3 if quick else 5):
        specs.append((MOD, "shard_model", dict(seed=seed, n_examples=n_joint, kinds=["joint"], shard=s_)))
    other = [["logistic"], ["linear"], ["shared_speed_logistic"], ["logistic", "linear", "shared_speed_logistic"]]
    for i, ks in enumerate(other):
        specs.append((MOD, "shard_model", dict(seed=seed, n_examples=n_other, kinds=ks, shard=10 + i)))
    specs.append((MOD, "shard_model", dict(seed=seed, n_examples=n_other, kinds=["logistic"], bernoulli=True, shard=20)))
    n_d = 1200 if quick else 20000
    fams = ["weibull"] * 4 + ["normal"] * 3 + ["bernoulli"] if quick else ["weibull"] * 7 + ["normal"] * 5 + ["bernoulli"] * 3
    for i, fam in enumerate(fams):
        specs.append((MOD, "shard_dist", dict(family=fam, seed=seed, n_examples=n_d, shard=30 + i)))
    return specs


def replay(sub_check: str, inp):
    env.import_leaspy()
    col = Collector(PROP, "replay")
    if inp.get("engine") == "model":
        body_model(col, inp)
    else:
        BODIES[inp["family"]](col, inp)
    return col.failures
