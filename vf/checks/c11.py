"""C11 - seeded runs are reproducible and independent of logging and process history.

Differential oracle. Reference = the seeded call (fit / personalize / simulate) with no logging, run first after the
global generators were put in a drawn state. Every variant = a generated list of prior activities (consume numbers from
random / numpy / torch, re-seed them, another seeded or unseeded fit / personalize / simulate on other models, the very
same call once more, an open matplotlib figure) followed by the same seeded call under a generated valid logging
configuration. The variant must complete and return bit-identical parameters / individual parameters / simulated table.

Engines: (grid) every on/off combination of print / save / plot / patient-plot x path given or not x sourcewise on a fixed
cohort per model kind, invalid combinations must be refused; (fit / perso / simulate) Hypothesis cases; (invalid)
refusal of undocumented logging combinations at settings time; (fresh) reference computed in a brand-new interpreter.
"""
from __future__ import annotations

import contextlib
import io
import itertools
import json
import math
import os
import shutil
import subprocess
import sys

from hypothesis import strategies as st

from vf.core import env, gen
from vf.core.harness import Collector, drive, exc_bucket, jhash, shard_seed

PROP = "C11"
MOD = "vf.checks.c11"
RULE = (
    "reference = seeded call without logging after the global generators were set to a drawn state; variant = generated prior "
    "activity (consume k numbers from random/numpy/torch, re-seed them, seeded/unseeded fit, personalize or simulate of another "
    "model, the same call again, an open figure) + generated valid logging configuration (print/save/plot/patient-plot "
    "periodicities, plot multiple of save, sourcewise, number of patients, relative/absolute/nested/default path, overwrite of a "
    "stale folder, progress bar, kwargs or AlgorithmSettings.set_logs form); grid engine enumerates every on/off combination of the "
    "four periodicities x path x sourcewise per model kind; fresh engine takes the reference from a new interpreter. "
    "re-use variant (fit, personalize; Hypothesis cases + exhaustive kind x sampler x annealing grid): ONE algorithm object from "
    "algorithm_factory(AlgorithmSettings(...)) run twice (fit: identical fresh models; personalize: same fitted model and data), both runs "
    "bit-identical to the model.fit / model.personalize reference. "
    "n_jobs engine: seeded scipy_minimize with n_jobs in {2,3} (joblib workers), twice in a row after prior activity, bit-identical to the "
    "same seeded call with n_jobs=1 (non-trivial when both repetitions completed and agree). "
    "settings-route variant (fit, personalize; Hypothesis cases + grid rows kind x route x seed in {0,1,2**31-1}): AlgorithmSettings.save(path) then "
    "AlgorithmSettings.load(path) or algorithm_settings_path=path, run twice after prior activity: loaded seed == saved seed, both runs bit-identical to "
    "the in-memory reference with the same seed (non-trivial when both completed and agree). "
    "Non-trivial = (re-use variant: both runs completed and identical) OR prior activity non-empty AND (fit: the logging variant really printed statistics or wrote a CSV/PDF, checked "
    "in captured stdout / on disk; personalize, simulate: always, they have no output manager); distinct by (call, variant)."
)
ASSUMPTIONS = [
    "Bit-identical = same keys, dtypes, shapes and bytes of model.parameters (+ fit_metrics) / IndividualParameters.to_pytorch() / "
    "Result.data.to_dataframe() and Result.individual_parameters.",
    "Valid logging configurations: periodicities are integers >= 1 or None, plot_periodicity only with save_periodicity and a multiple "
    "of it, booleans for plot_sourcewise / overwrite_logs_folder, path a string or None, an existing non-empty folder only with "
    "overwrite_logs_folder=True. Everything else in the invalid engine must raise LeaspyAlgoInputError before the run starts "
    "(no ' ==> Setting seed' line). Non-positive periodicities are ignored with a warning by leaspy (not refused): not generated.",
    "Logging configurations are applied to fit only (the only family with an output manager); personalize and simulate variants vary "
    "prior activity and the progress bar.",
    "A reference run that raises (e.g. LeaspyConvergenceError on a collapsed variance) must raise the same exception type in every variant; "
    "such cases are counted but are not non-trivial.",
    "Re-using one algorithm object for several runs is allowed by the API (BaseModel.fit / personalize do `algorithm_factory(settings)` then "
    "`algorithm.run(self, dataset)`; run() re-seeds itself), so every run of the same object with the same seed on identical inputs must return "
    "the same result as a fresh call.",
    "Exceptions raised by the prior activities themselves (unseeded runs on auxiliary models) are not judged.",
    "Known defects excluded by construction (reproducers kept, see REPRO_*): D1 joint model with sources + plot_periodicity + "
    "plot_sourcewise=False (TypeError in _set_title_for_parameter); D2 mixture_logistic + plot_patient_periodicity with an "
    "output folder (float64 timepoints in compute_mean_traj).",
    "simulate cases use a fitted LogisticModel with source_dimension >= 1, diagonal noise, >= 2 patients (other classes crash for "
    "reasons recorded under C18).",
]
REQUIRED_CLASSES = {
    "target:fit": 60, "target:mean_posterior": 8, "target:mode_posterior": 8, "target:scipy_minimize": 4, "target:simulate": 10,
    "kind:logistic": 30, "kind:linear": 15, "kind:joint": 15,
    "sampler:Gibbs": 10, "sampler:FastGibbs": 10, "sampler:Metropolis-Hastings": 10, "annealing": 10,
    "printed": 25, "wrote-csv": 25, "wrote-convergence-pdf": 10, "wrote-patient-pdf": 10, "default-path": 5, "no-path": 10,
    "prior:consume": 30, "prior:fit": 10, "prior:personalize": 5, "prior:same": 10, "prior:unseeded": 8,
    "refused-invalid": 40, "fresh-process-reference": 4, "nontrivial": 60,
    "reused-algorithm-object": 30, "reused-algorithm-object:annealing": 10, "perso:n_jobs>1": 3,
    "route:file": 30, "route:file:seed=0": 8,
}

LOG_KEYS = ("print_periodicity", "save_periodicity", "plot_periodicity", "plot_patient_periodicity", "plot_sourcewise",
            "nb_of_patients_to_plot", "path", "overwrite_logs_folder")

_COUNTER = [0]


# ------------------------------------------------------------------------------------------------
# fixed small cohorts (auxiliary models of the prior activities, grid engine)
# ------------------------------------------------------------------------------------------------
def fixed_cohort(kind="logistic", nf=2, event=False, n=6, phase=0.0):
    rows = []
    for i in range(n):
        k = 3 + (i % 3)
        for j in range(k):
            a = round(60 + 2.5 * i + 1.7 * j, 4)
            vals = []
            for f in range(nf):
                x = 0.18 * (a - 68 - i) + 0.4 * f - 0.3 + 0.11 * math.sin(3.1 * i + 1.3 * j + f + phase)
                v = 1 / (1 + math.exp(-x)) if kind != "linear" else 0.3 * x
                vals.append(round(min(0.97, max(0.03, v)) if kind != "linear" else v, 5))
            if nf > 1 and (i + j) % 4 == 3:
                vals[(i + j) % nf] = None
            rows.append([f"s{i}", a] + vals)
    case = dict(kind=kind, features=[f"f{j}" for j in range(nf)], rows=rows, id_kind="s", miss_mode="sparse")
    if event:
        evs = {}
        for i in range(n):
            last = max(r[1] for r in rows if r[0] == f"s{i}")
            evs[str(i)] = [round(last + 0.5 + 0.7 * i, 4), 0 if i in (1, 4) else 1]
        case["events"] = evs
        case["rows"] = [r + evs[r[0][1:]] for r in rows]
    return case


AUX_CFG = {
    "logistic": dict(kind="logistic", kwargs=dict(dimension=2, source_dimension=1, obs_models="gaussian-diagonal")),
    "linear": dict(kind="linear", kwargs=dict(dimension=2, source_dimension=1, obs_models="gaussian-scalar")),
    "joint": dict(kind="joint", kwargs=dict(dimension=1, source_dimension=0, nb_events=1)),
}
_AUX = {}


def _data_for(cfg, cohort):
    from leaspy.io.data import Data

    df = gen.cohort_df(cohort)
    return Data.from_dataframe(df, "joint") if cfg["kind"] == "joint" else Data.from_dataframe(df)


def aux_cohort(kind):
    return fixed_cohort("linear" if kind == "linear" else "logistic", AUX_CFG[kind]["kwargs"]["dimension"], event=kind == "joint", n=5, phase=0.7)


def aux_model(kind):
    """fitted auxiliary model (seeded fit, cached per process) for prior personalize / simulate activities"""
    if kind not in _AUX:
        m = gen.build_model(AUX_CFG[kind])
        with quiet():
            m.fit(_data_for(AUX_CFG[kind], aux_cohort(kind)), "mcmc_saem", n_iter=6, seed=11, progress_bar=False)
        _AUX[kind] = m
    return _AUX[kind]


@contextlib.contextmanager
def quiet():
    with contextlib.redirect_stdout(io.StringIO()):
        yield


def seed_all(s):
    import random

    import numpy as np
    import torch

    random.seed(s)
    np.random.seed(s % (2**32))
    torch.manual_seed(s)


# ------------------------------------------------------------------------------------------------
# canonical (bit-exact, plain JSON) form of results
# ------------------------------------------------------------------------------------------------
def canon_array(a):
    import numpy as np

    a = np.ascontiguousarray(a)
    return dict(dtype=str(a.dtype), shape=list(a.shape), hex=a.tobytes().hex())


def canon_tensor(t):
    return canon_array(t.detach().cpu().contiguous().numpy())


def decode(c):
    import numpy as np

    try:
        return np.frombuffer(bytes.fromhex(c["hex"]), dtype=c["dtype"]).reshape(c["shape"]).tolist()
    except Exception:
        return c


def canon_fit(model):
    out = {"param:" + k: canon_tensor(v) for k, v in model.parameters.items()}
    fm = getattr(model, "fit_metrics", None) or {}
    for k, v in fm.items():
        out["metric:" + k] = repr(float(v))
    return out


def canon_ip(ip):
    ids, d = ip.to_pytorch()
    out = {"ids": [str(i) for i in ids]}
    for k, v in d.items():
        out["ip:" + k] = canon_tensor(v)
    return out


def canon_sim(res):
    import numpy as np

    df = res.data.to_dataframe()
    out = {"columns": [str(c) for c in df.columns], "ID": [str(i) for i in df["ID"]]}
    for c in df.columns:
        if c != "ID":
            out["data:" + str(c)] = canon_array(df[c].to_numpy(dtype=np.float64))
    ipdf = res.individual_parameters
    out["ip-index"] = [str(i) for i in ipdf.index]
    for c in ipdf.columns:
        out["ip:" + str(c)] = canon_array(np.array([float(x) for x in ipdf[c].values], dtype=np.float64))
    return out


def first_diff(ref, got):
    """None if identical, else a short description of the first difference"""
    if ref == got:
        return None
    ka, kb = sorted(ref), sorted(got)
    if ka != kb:
        return f"keys differ: only-ref={sorted(set(ka) - set(kb))} only-variant={sorted(set(kb) - set(ka))}"
    for k in ka:
        if ref[k] != got[k]:
            a, b = ref[k], got[k]
            if isinstance(a, dict) and "hex" in a and isinstance(b, dict) and "hex" in b:
                if a["dtype"] != b["dtype"] or a["shape"] != b["shape"]:
                    return f"{k}: dtype/shape {a['dtype']}{a['shape']} vs {b['dtype']}{b['shape']}"
                return f"{k}: ref={str(decode(a))[:300]} variant={str(decode(b))[:300]}"
            return f"{k}: ref={str(a)[:300]} variant={str(b)[:300]}"
    return "differ"


# ------------------------------------------------------------------------------------------------
# the call under test
# ------------------------------------------------------------------------------------------------
class Ctx:
    """per-case objects: table, data, base model for personalize / simulate"""

    def __init__(self, case):
        self.case = case
        self.cfg = case["cfg"]
        self.cohort = case["cohort"]
        self.df = gen.cohort_df(self.cohort)
        self.base = None

    def data(self):
        from leaspy.io.data import Data

        return Data.from_dataframe(self.df.copy(), "joint") if self.cfg["kind"] == "joint" else Data.from_dataframe(self.df.copy())

    def build_base(self):
        """fitted model on which personalize / simulate are called (its own seeded fit is part of the set-up)"""
        m = gen.build_model(self.cfg)
        with quiet():
            m.fit(self.data(), "mcmc_saem", n_iter=self.case.get("base_n_iter", 8), seed=self.case.get("base_seed", 0), progress_bar=False)
        self.base = m


def resolve_logging(lg, tag):
    """plain-JSON logging description -> (kwargs for leaspy, root folder to inspect / remove or None)"""
    if not lg:
        return {}, None, False
    kw = {k: lg[k] for k in LOG_KEYS if k in lg and k != "path"}
    form = lg.get("path_form")
    _COUNTER[0] += 1
    name = f"c11_{os.getpid()}_{_COUNTER[0]}_{tag}"
    root = None
    top = None
    if form == "rel":
        kw["path"] = name
        root = top = os.path.join(os.getcwd(), name)
    elif form == "abs":
        root = top = os.path.join(os.getcwd(), name)
        kw["path"] = root
    elif form == "nested":
        kw["path"] = os.path.join(name, "a", "b c")
        top = os.path.join(os.getcwd(), name)
        root = os.path.join(os.getcwd(), kw["path"])
    elif form == "none-explicit":
        kw["path"] = None
    default = False
    if root is None and lg.get("save_periodicity"):
        root = top = os.path.join(os.getcwd(), "_outputs")
        default = True
    if lg.get("preexisting") and root is not None and not default:
        os.makedirs(os.path.join(root, "parameter_convergence"), exist_ok=True)
        with open(os.path.join(root, "parameter_convergence", "stale.csv"), "w") as f:
            f.write("0,1.0\n")
    return kw, (root, top), default


def inspect_outputs(root):
    """what the run left on disk"""
    out = dict(csv=0, conv_pdf=0, patient_pdf=0)
    if root is None or not os.path.isdir(root):
        return out
    pc = os.path.join(root, "parameter_convergence")
    if os.path.isdir(pc):
        out["csv"] = sum(1 for f in os.listdir(pc) if f.endswith(".csv") and f != "stale.csv" and os.path.getsize(os.path.join(pc, f)) > 0)
    p = os.path.join(root, "plots", "convergence_parameters.pdf")
    out["conv_pdf"] = int(os.path.isfile(p) and os.path.getsize(p) > 0)
    pp = os.path.join(root, "plots", "patients")
    if os.path.isdir(pp):
        out["patient_pdf"] = sum(1 for f in os.listdir(pp) if f.endswith(".pdf") and os.path.getsize(os.path.join(pp, f)) > 0)
    return out


def build_visit_parameters(d):
    import pandas as pd

    if d["visit_type"] == "dataframe":
        return dict(visit_type="dataframe", df_visits=pd.DataFrame(d["rows"], columns=["ID", "TIME"]))
    return dict(d)


def call_target(ctx: Ctx, lg=None, tag="v", extra_kw=None):
    """Run the call under test. Returns dict(result=canonical|None, exc=exception|None, stdout, disk, default_path)."""
    from leaspy.algo import AlgorithmSettings

    case = ctx.case
    target = case["target"]
    kw_log, roots, default = resolve_logging(lg, tag)
    root, top = roots if roots else (None, None)
    akw = dict(case.get("algo_kw") or {})
    akw.update(extra_kw or {})
    pb = bool(lg.get("progress_bar")) if lg else False
    buf = io.StringIO()
    res = exc = None
    try:
        with contextlib.redirect_stdout(buf):
            if target == "fit":
                m = gen.build_model(ctx.cfg)
                if lg and lg.get("api") == "settings":
                    s = AlgorithmSettings("mcmc_saem", seed=case["seed"], progress_bar=pb, **akw)
                    if kw_log:
                        s.set_logs(**kw_log)
                    m.fit(ctx.data(), algorithm_settings=s)
                else:
                    m.fit(ctx.data(), "mcmc_saem", seed=case["seed"], progress_bar=pb, **akw, **kw_log)
                res = canon_fit(m)
            elif target in ("mean_posterior", "mode_posterior", "scipy_minimize"):
                ip = ctx.base.personalize(ctx.data(), target, seed=case["seed"], progress_bar=pb, **akw)
                res = canon_ip(ip)
            elif target == "simulate":
                r = ctx.base.simulate(algorithm="simulate", features=list(ctx.base.features), seed=case["seed"],
                                      visit_parameters=build_visit_parameters(case["design"]))
                res = canon_sim(r)
            else:
                raise RuntimeError(f"unknown target {target}")
    except RuntimeError as e:
        if "unknown target" in str(e):
            raise
        exc = e
    except Exception as e:  # judged by the caller
        exc = e
    disk = inspect_outputs(root)
    if top is not None:
        shutil.rmtree(top, ignore_errors=True)
    try:
        import matplotlib.pyplot as plt

        if exc is not None:
            plt.close("all")
    except Exception:
        pass
    return dict(result=res, exc=exc, stdout=buf.getvalue(), disk=disk, default_path=default)


# ------------------------------------------------------------------------------------------------
# prior activity
# ------------------------------------------------------------------------------------------------
def do_prior(op, ctx: Ctx, classes):
    import random

    import numpy as np
    import torch

    k = op[0]
    classes.add("prior:" + k)
    try:
        if k == "consume":
            _, lib, n = op
            classes.add("prior:consume:" + lib)
            if lib == "random":
                for _ in range(n):
                    random.random()
            elif lib == "numpy":
                np.random.rand(n)
            else:
                torch.randn(n)
        elif k == "reseed":
            _, lib, v = op
            if lib in ("random", "all"):
                random.seed(v)
            if lib in ("numpy", "all"):
                np.random.seed(v)
            if lib in ("torch", "all"):
                torch.manual_seed(v)
        elif k == "fit":
            _, kind, s, sampler, n_iter, log = op
            if s is None:
                classes.add("prior:unseeded")
            m = gen.build_model(AUX_CFG[kind])
            kw = dict(print_periodicity=2) if log else {}
            with quiet():
                m.fit(_data_for(AUX_CFG[kind], aux_cohort(kind)), "mcmc_saem", n_iter=n_iter, seed=s, sampler_pop=sampler, progress_bar=False, **kw)
        elif k == "personalize":
            _, kind, algo, s = op
            if s is None:
                classes.add("prior:unseeded")
            m = aux_model(kind)
            kw = dict(n_iter=8) if algo != "scipy_minimize" else {}
            with quiet():
                m.personalize(_data_for(AUX_CFG[kind], aux_cohort(kind)), algo, seed=s, progress_bar=False, **kw)
        elif k == "simulate":
            _, s = op
            if s is None:
                classes.add("prior:unseeded")
            m = aux_model("logistic")
            with quiet():
                m.simulate(algorithm="simulate", features=list(m.features), seed=s,
                           visit_parameters=dict(visit_type="random", patient_number=3, first_visit_mean=0.0, first_visit_std=0.4,
                                                 time_follow_up_mean=2.0, time_follow_up_std=0.3, distance_visit_mean=1.0, distance_visit_std=0.2))
        elif k == "same":
            call_target(ctx, None, tag="same")
        elif k == "figure":
            import matplotlib.pyplot as plt

            fig = plt.figure()
            fig.add_subplot(1, 1, 1).plot([0, 1], [1, 0])
        else:
            raise RuntimeError(f"unknown prior op {op}")
    except RuntimeError as e:
        if "unknown prior op" in str(e):
            raise
        classes.add("prior-op-raised")
    except Exception:
        classes.add("prior-op-raised")  # not under test here


# ------------------------------------------------------------------------------------------------
# judging one case: reference + variants
# ------------------------------------------------------------------------------------------------
def case_key(case):
    return [case["target"], case["cfg"], case["seed"], case.get("algo_kw"), case.get("design"), case["cohort"]["rows"][:3]]


def judge_variant(col, sub_check, case, variant, ref, out, classes, prior_nonempty):
    """compare one variant outcome with the reference outcome; returns True if non-trivial"""
    lg = variant.get("logging") or {}
    inp = dict(case, variants=[variant])
    cls_in = f"{case['target']}:{case['cfg']['kind']}"
    if ref["exc"] is not None:
        classes.add("ref-raised")
        if out["exc"] is None:
            col.fail(sub_check, "reference-raised-variant-completed:" + cls_in, inp, observed="variant completed",
                     expected=f"same outcome as the reference: {type(ref['exc']).__name__}")
        elif type(out["exc"]) is not type(ref["exc"]):
            col.fail(sub_check, "unexpected-exception:" + exc_bucket(out["exc"]), inp, observed=repr(out["exc"])[:500],
                     expected=f"same outcome as the reference: {type(ref['exc']).__name__}")
        return False
    if out["exc"] is not None:
        col.fail(sub_check, "unexpected-exception:" + exc_bucket(out["exc"]), inp, observed=repr(out["exc"])[:600],
                 expected="the run completes like the reference run (no logging, no prior activity)")
        return False
    d = first_diff(ref["result"], out["result"])
    if d is not None:
        what = "prior+logging" if (prior_nonempty and lg) else ("prior" if prior_nonempty else ("logging" if lg else "plain-repeat"))
        col.fail(sub_check, f"result-differs:{case['target']}:{what}", inp, observed=d, expected="bit-identical to the reference run")
        return False
    printed = "Duration since last print" in out["stdout"]
    wrote = out["disk"]
    if printed:
        classes.add("printed")
    if wrote["csv"]:
        classes.add("wrote-csv")
    if wrote["conv_pdf"]:
        classes.add("wrote-convergence-pdf")
    if wrote["patient_pdf"]:
        classes.add("wrote-patient-pdf")
    if out["default_path"] and wrote["csv"]:
        classes.add("default-path")
    if lg and any(lg.get(k) for k in LOG_KEYS[:4]) and not lg.get("path_form") in ("rel", "abs", "nested"):
        classes.add("no-path")
    if lg.get("progress_bar"):
        classes.add("progress-bar")
    if lg.get("preexisting"):
        classes.add("overwrite-stale-folder")
    if lg.get("api") == "settings":
        classes.add("api:set_logs")
    active = printed or wrote["csv"] or wrote["conv_pdf"] or wrote["patient_pdf"]
    if case["target"] == "fit":
        return bool(prior_nonempty and active)
    return bool(prior_nonempty)


def call_reused(ctx: Ctx, n_runs=2):
    """ONE algorithm object built the way BaseModel.fit / personalize build it (AlgorithmSettings -> algorithm_factory), then
    `algorithm.run(model, dataset)` several times: fit on identical fresh models, personalize on the same fitted model and data."""
    from leaspy.algo import AlgorithmSettings, algorithm_factory
    from leaspy.models import BaseModel

    case = ctx.case
    target = case["target"]
    akw = dict(case.get("algo_kw") or {})
    outs = []
    algo = dataset = None
    buf0 = io.StringIO()
    try:
        with contextlib.redirect_stdout(buf0):
            settings = AlgorithmSettings("mcmc_saem" if target == "fit" else target, seed=case["seed"], progress_bar=False, **akw)
            algo = algorithm_factory(settings)
            dataset = BaseModel._get_dataset(ctx.data())
    except Exception as e:
        return [dict(result=None, exc=e, stdout=buf0.getvalue(), disk={}, default_path=False)]
    for _ in range(n_runs):
        buf = io.StringIO()
        res = exc = None
        try:
            with contextlib.redirect_stdout(buf):
                if target == "fit":
                    m = gen.build_model(ctx.cfg)
                    if not m.is_initialized:
                        m.initialize(dataset)
                    algo.run(m, dataset)
                    res = canon_fit(m)
                else:
                    res = canon_ip(algo.run(ctx.base, dataset))
        except Exception as e:  # judged by the caller
            exc = e
        outs.append(dict(result=res, exc=exc, stdout=buf.getvalue(), disk={}, default_path=False))
    return outs


def judge_reused(col, sub_check, case, variant, ref, outs, classes):
    """every run of the re-used algorithm object must equal the reference obtained through model.fit / model.personalize"""
    inp = dict(case, variants=[variant])
    ann = bool(((case.get("algo_kw") or {}).get("annealing") or {}).get("do_annealing"))
    classes.add("reused-algorithm-object")
    if ann:
        classes.add("reused-algorithm-object:annealing")
    tag = case["target"] + (":annealing" if ann else "")
    ok = True
    for i, out in enumerate(outs):
        if ref["exc"] is not None:
            classes.add("ref-raised")
            ok = False
            if out["exc"] is None:
                col.fail(sub_check, f"reused-algorithm-object:reference-raised-run{i + 1}-completed:{tag}", inp, observed="completed",
                         expected=f"same outcome as the reference: {type(ref['exc']).__name__}")
            elif type(out["exc"]) is not type(ref["exc"]):
                col.fail(sub_check, "unexpected-exception:" + exc_bucket(out["exc"]), inp, observed=repr(out["exc"])[:500],
                         expected=f"same outcome as the reference: {type(ref['exc']).__name__}")
            continue
        if out["exc"] is not None:
            ok = False
            col.fail(sub_check, f"reused-algorithm-object:run{i + 1}:unexpected-exception:" + exc_bucket(out["exc"]), inp, observed=repr(out["exc"])[:600],
                     expected="run of a re-used algorithm object completes like the reference call")
            continue
        d = first_diff(ref["result"], out["result"])
        if d is not None:
            ok = False
            col.fail(sub_check, f"reused-algorithm-object:run{i + 1}-differs:{tag}", inp, observed=d,
                     expected="bit-identical to the reference (same seed, same data, fresh identical model) obtained through model.fit / model.personalize")
    return ok and len(outs) >= 2


def call_route(ctx: Ctx, route, n_runs=2):
    """Settings travel through a JSON file: AlgorithmSettings(...).save(path), then either `AlgorithmSettings.load(path)` passed as
    `algorithm_settings=` (route 'file-load') or `algorithm_settings_path=path` (route 'file-path'). Returns (outs, loaded seed or '<n/a>')."""
    from leaspy.algo import AlgorithmSettings

    case = ctx.case
    target = case["target"]
    akw = dict(case.get("algo_kw") or {})
    _COUNTER[0] += 1
    path = os.path.join(os.getcwd(), f"c11_settings_{os.getpid()}_{_COUNTER[0]}.json")
    outs = []
    loaded_seed = "<n/a>"
    try:
        for _ in range(n_runs):
            buf = io.StringIO()
            res = exc = None
            try:
                with contextlib.redirect_stdout(buf):
                    AlgorithmSettings("mcmc_saem" if target == "fit" else target, seed=case["seed"], progress_bar=False, **akw).save(path)
                    if route == "file-load":
                        loaded = AlgorithmSettings.load(path)
                        loaded_seed = loaded.seed
                        kw = dict(algorithm_settings=loaded)
                    else:
                        kw = dict(algorithm_settings_path=path)
                    if target == "fit":
                        m = gen.build_model(ctx.cfg)
                        m.fit(ctx.data(), **kw)
                        res = canon_fit(m)
                    else:
                        res = canon_ip(ctx.base.personalize(ctx.data(), **kw))
            except Exception as e:  # judged by the caller
                exc = e
            outs.append(dict(result=res, exc=exc, stdout=buf.getvalue(), disk={}, default_path=False))
    finally:
        if os.path.exists(path):
            os.remove(path)
    return outs, loaded_seed


def judge_route(col, sub_check, case, variant, ref, outs, loaded_seed, classes):
    inp = dict(case, variants=[variant])
    route = variant["route"]
    classes.update({"route:file", "route:" + route})
    sd = case["seed"]
    if sd == 0:
        classes.add("route:file:seed=0")
    elif sd == 2**31 - 1:
        classes.add("route:file:seed=2**31-1")
    sclass = "seed=0" if sd == 0 else "seed!=0"
    ok = True
    if route == "file-load" and loaded_seed != "<n/a>" and loaded_seed != sd:
        ok = False
        col.fail(sub_check, f"settings-file:loaded-seed-differs:{sclass}", inp, observed=f"loaded seed {loaded_seed!r}", expected=f"saved seed {sd!r}")
    for i, out in enumerate(outs):
        if ref["exc"] is not None:
            classes.add("ref-raised")
            ok = False
            if out["exc"] is None or type(out["exc"]) is not type(ref["exc"]):
                col.fail(sub_check, f"settings-file:outcome-differs:{route}:" + ("completed" if out["exc"] is None else exc_bucket(out["exc"])), inp,
                         observed=repr(out["exc"])[:400], expected=f"same outcome as the in-memory reference: {type(ref['exc']).__name__}")
            continue
        if out["exc"] is not None:
            ok = False
            col.fail(sub_check, f"settings-file:{route}:unexpected-exception:" + exc_bucket(out["exc"]), inp, observed=repr(out["exc"])[:600],
                     expected="the run configured through a settings file completes like the in-memory one")
            continue
        d = first_diff(ref["result"], out["result"])
        if d is not None:
            ok = False
            col.fail(sub_check, f"settings-file:result-differs:{case['target']}:{sclass}", inp, observed=f"run {i + 1} via {route}: {d}",
                     expected="bit-identical to the run configured in memory with the same seed (and to its own repetition)")
    return ok and len(outs) >= 2


def body(col: Collector, case, sub_check=None):
    sub_check = sub_check or ("fit" if case["target"] == "fit" else ("simulate" if case["target"] == "simulate" else "perso"))
    for e in case.get("excluded", []):
        col.exclude(e)
    ctx = Ctx(case)
    base_classes = ["target:" + case["target"], "kind:" + case["cfg"]["kind"]]
    akw = case.get("algo_kw") or {}
    if case["target"] == "fit":
        base_classes.append("sampler:" + akw.get("sampler_pop", "Gibbs"))
    if (akw.get("annealing") or {}).get("do_annealing"):
        base_classes.append("annealing")
    if "sampler_ind_params" in akw or "sampler_pop_params" in akw:
        base_classes.append("short-adaptation-window")
    if case["target"] != "fit":
        try:
            ctx.build_base()
        except Exception as e:
            col.exclude(f"base-fit-raised:{type(e).__name__}")
            return
    seed_all(case.get("pre_seed", 0))
    ref = call_target(ctx, None, tag="ref")
    try:
        for variant in case["variants"]:
            classes = set(base_classes)
            prior = variant.get("prior") or []
            for op in prior:
                do_prior(op, ctx, classes)
            if variant.get("reuse"):
                outs = call_reused(ctx)
                nt = judge_reused(col, sub_check, case, variant, ref, outs, classes)
                out = outs[-1]
            elif variant.get("route"):
                outs, loaded_seed = call_route(ctx, variant["route"])
                nt = judge_route(col, sub_check, case, variant, ref, outs, loaded_seed, classes)
                out = outs[-1]
            else:
                out = call_target(ctx, variant.get("logging"), tag="var")
                nt = judge_variant(col, sub_check, case, variant, ref, out, classes, bool(prior))
            if nt:
                classes.add("nontrivial")
            col.case(classes=sorted(classes), nontrivial=jhash([case_key(case), variant]) if nt else None,
                     sample=dict(target=case["target"], model=case["cfg"], seed=case["seed"], algo=akw, prior=prior, reuse=bool(variant.get("reuse")),
                                 logging=variant.get("logging"), stdout_chars=len(out["stdout"]), disk=out["disk"],
                                 first_result_key=(sorted(ref["result"])[0] if ref["result"] else None)))
    finally:
        try:
            import matplotlib.pyplot as plt

            plt.close("all")
        except Exception:
            pass


# ------------------------------------------------------------------------------------------------
# strategies
# ------------------------------------------------------------------------------------------------
SAMPLERS = ["Gibbs", "FastGibbs", "Metropolis-Hastings"]


@st.composite
def prior_ops(draw, min_size=0, max_size=3, allow_same=True):
    n = draw(st.integers(min_size, max_size))
    ops = []
    for _ in range(n):
        k = draw(st.sampled_from(["consume", "consume", "consume", "reseed", "fit", "fit", "personalize", "simulate", "figure"]
                                 + (["same", "same"] if allow_same else [])))
        if k == "consume":
            ops.append(["consume", draw(st.sampled_from(["random", "numpy", "torch"])), draw(st.integers(1, 64))])
        elif k == "reseed":
            ops.append(["reseed", draw(st.sampled_from(["random", "numpy", "torch", "all"])), draw(st.integers(0, 2**31 - 1))])
        elif k == "fit":
            ops.append(["fit", draw(st.sampled_from(["logistic", "linear", "joint"])), draw(st.one_of(st.none(), st.integers(0, 99))),
                        draw(st.sampled_from(SAMPLERS)), draw(st.integers(3, 6)), draw(st.booleans())])
        elif k == "personalize":
            ops.append(["personalize", draw(st.sampled_from(["logistic", "linear"])), draw(st.sampled_from(["mode_posterior", "mean_posterior", "scipy_minimize"])),
                        draw(st.one_of(st.none(), st.integers(0, 99)))])
        elif k == "simulate":
            ops.append(["simulate", draw(st.one_of(st.none(), st.integers(0, 99)))])
        else:
            ops.append([k])
    return ops


@st.composite
def logging_cfg(draw, n_iter, cfg, heavy=True, excluded=None):
    """a valid logging configuration for a fit of n_iter iterations (plain JSON)"""
    lg = {}
    on = [draw(st.booleans()) for _ in range(4)]
    if not any(on):
        on[draw(st.integers(0, 3))] = True
    p_print, p_save, p_plot, p_pat = on
    if p_plot and not p_save:
        p_save = True  # plotting requires saving (documented)
    if p_print:
        lg["print_periodicity"] = draw(st.integers(1, n_iter + 2))
    if p_save:
        lg["save_periodicity"] = draw(st.integers(1, n_iter))
        if p_plot and heavy:
            s = lg["save_periodicity"]
            # a multiple of save_periodicity that fires once or twice (a plot costs ~1.5 s)
            lo = max(1, -(-((n_iter + 1) // 2) // s))
            hi = max(lo, n_iter // s)
            lg["plot_periodicity"] = s * draw(st.integers(lo, hi + 1))
    if p_pat:
        lg["plot_patient_periodicity"] = draw(st.integers(max(1, n_iter // 3), n_iter + 1))
    if draw(st.booleans()):
        lg["plot_sourcewise"] = draw(st.booleans())
    if draw(st.integers(0, 2)) == 0:
        lg["nb_of_patients_to_plot"] = draw(st.integers(1, 9))
    lg["path_form"] = draw(st.sampled_from(["rel", "abs", "nested", "rel", "abs", "none", "none", "none-explicit"]))
    if lg["path_form"] in ("rel", "abs", "nested"):
        if draw(st.integers(0, 3)) == 0:
            lg["preexisting"] = True
            lg["overwrite_logs_folder"] = True
        elif draw(st.booleans()):
            lg["overwrite_logs_folder"] = draw(st.booleans())
    lg["progress_bar"] = draw(st.integers(0, 4)) == 0
    lg["api"] = draw(st.sampled_from(["kwargs", "kwargs", "settings"]))
    apply_known_exclusions(lg, cfg, excluded)
    return lg


EXCLUDE_D1 = False  # repaired in /repo (fix: convergence plot of a joint model with sources and a single event); regression case kept
EXCLUDE_D2 = True   # open: fitted mixture models hold float64 parameters (see known_findings.json, F64)


def apply_known_exclusions(lg, cfg, excluded):
    """exclude the input classes of the known defects D1 / D2 by construction (counted)"""
    kw = cfg["kwargs"]
    if EXCLUDE_D1 and cfg["kind"] == "joint" and kw.get("source_dimension", 0) >= 1 and lg.get("plot_periodicity") and not lg.get("plot_sourcewise"):
        lg["plot_sourcewise"] = True
        if excluded is not None:
            excluded.append("D1:joint+sources+plot_periodicity+not-sourcewise(remapped to sourcewise)")
    if cfg["kind"] == "mixture_logistic" and lg.get("plot_patient_periodicity") and (
            lg.get("path_form") in ("rel", "abs", "nested") or lg.get("save_periodicity")):
        del lg["plot_patient_periodicity"]
        if excluded is not None:
            excluded.append("D2:mixture+plot_patient_periodicity+output-folder(option dropped)")


def seeds():
    return st.one_of(st.sampled_from([0, 0, 1, 2**31 - 1]), st.integers(0, 2**31 - 1), st.integers(0, 50))


@st.composite
def fit_case(draw, kinds, tier="quick", n_variants=2):
    cfg = draw(gen.model_cfg(kinds=kinds, dim=(1, 3)))
    feats = [f"f{j}" for j in range(cfg["kwargs"]["dimension"])]
    cohort = draw(gen.cohort(kind=gen.data_kind_for(cfg), n_ind=(max(4, gen.min_ind_for(cfg)), 7), n_visits=(2, 5), features=feats,
                             event=cfg["kind"] == "joint", id_kinds=("s",), shuffle=False))
    n_iter = draw(st.integers(5, 12 if tier == "quick" else 30))
    akw = dict(n_iter=n_iter)
    akw["sampler_pop"] = draw(st.sampled_from(SAMPLERS))
    if draw(st.integers(0, 2)) == 0:
        akw["annealing"] = dict(do_annealing=True, n_plateau=draw(st.sampled_from([2, 3])), initial_temperature=draw(st.sampled_from([2.0, 4.0, 10]))
                                )
    if draw(st.booleans()):
        akw["n_burn_in_iter_frac"] = draw(st.sampled_from([0.0, 0.5, 0.9, 1.0]))
    if draw(st.integers(0, 2)) == 0:
        h = draw(st.integers(2, 4))
        akw["sampler_ind_params"] = dict(acceptation_history_length=h)
        akw["sampler_pop_params"] = dict(acceptation_history_length=h)
    if draw(st.integers(0, 4)) == 0:
        akw["random_order_variables"] = False
    excluded = []
    variants = []
    for i in range(n_variants):
        with_log = i == 0 or draw(st.booleans())
        prior = draw(prior_ops(min_size=0 if (with_log and draw(st.integers(0, 3)) == 0) else 1, max_size=3))
        lg = draw(logging_cfg(n_iter, cfg, heavy=(i == 0 or tier != "quick"), excluded=excluded)) if with_log else None
        variants.append(dict(prior=prior, logging=lg))
    if draw(st.booleans()):  # settings travel through a JSON file
        variants.append(dict(prior=draw(prior_ops(min_size=1, max_size=2, allow_same=False)), logging=None, route=draw(st.sampled_from(["file-load", "file-path"]))))
    if draw(st.booleans()):  # the same algorithm object run twice (prior activity optional)
        variants.append(dict(prior=draw(prior_ops(min_size=0, max_size=1, allow_same=False)), logging=None, reuse=True))
    return dict(target="fit", cfg=cfg, cohort=cohort, seed=draw(seeds()), pre_seed=draw(st.integers(0, 2**31 - 1)), algo_kw=akw,
                variants=variants, excluded=excluded)


@st.composite
def perso_case(draw, algos, kinds, tier="quick", n_variants=2):
    algo = draw(st.sampled_from(list(algos)))
    cfg = draw(gen.model_cfg(kinds=kinds, dim=(1, 3)))
    feats = [f"f{j}" for j in range(cfg["kwargs"]["dimension"])]
    n_hi = 4 if algo == "scipy_minimize" else 7
    cohort = draw(gen.cohort(kind=gen.data_kind_for(cfg), n_ind=(max(3, min(n_hi, gen.min_ind_for(cfg))), max(n_hi, gen.min_ind_for(cfg))), n_visits=(2, 5),
                             features=feats, event=cfg["kind"] == "joint", id_kinds=("s",), shuffle=False))
    akw = {}
    if algo != "scipy_minimize":
        akw["n_iter"] = draw(st.integers(6, 20 if tier == "quick" else 60))
        if draw(st.integers(0, 2)) == 0:
            akw["annealing"] = dict(do_annealing=True, n_plateau=draw(st.sampled_from([2, 3])), initial_temperature=draw(st.sampled_from([2.0, 4.0])))
        if draw(st.booleans()):
            akw["sampler_ind_params"] = dict(acceptation_history_length=draw(st.integers(2, 4)))
    else:
        if draw(st.booleans()):
            akw["use_jacobian"] = draw(st.booleans())
    variants = []
    for i in range(n_variants):
        prior = draw(prior_ops(min_size=1, max_size=3))
        lg = dict(progress_bar=True) if draw(st.integers(0, 3)) == 0 else None
        variants.append(dict(prior=prior, logging=lg))
    if draw(st.booleans()):  # settings travel through a JSON file
        variants.append(dict(prior=draw(prior_ops(min_size=1, max_size=2, allow_same=False)), logging=None, route=draw(st.sampled_from(["file-load", "file-path"]))))
    if draw(st.booleans()):  # the same algorithm object run twice on the same fitted model and data
        variants.append(dict(prior=draw(prior_ops(min_size=0, max_size=1, allow_same=False)), logging=None, reuse=True))
    return dict(target=algo, cfg=cfg, cohort=cohort, seed=draw(seeds()), pre_seed=draw(st.integers(0, 2**31 - 1)), algo_kw=akw,
                base_seed=draw(st.integers(0, 99)), base_n_iter=draw(st.integers(5, 9)), variants=variants)


@st.composite
def simulate_case(draw, tier="quick", n_variants=3):
    d = draw(st.integers(2, 3))
    cfg = dict(kind="logistic", kwargs=dict(dimension=d, source_dimension=draw(st.integers(1, d - 1)), obs_models="gaussian-diagonal"))
    feats = [f"f{j}" for j in range(d)]
    cohort = draw(gen.cohort(kind="logistic", n_ind=(4, 7), n_visits=(2, 5), features=feats, id_kinds=("s",), shuffle=False))
    if draw(st.booleans()):
        design = dict(visit_type="random", patient_number=draw(st.integers(2, 7)), first_visit_mean=draw(st.sampled_from([0.0, -1.0, 2.0])),
                      first_visit_std=draw(st.sampled_from([0.4, 0.0, 1.0])), time_follow_up_mean=draw(st.sampled_from([2.0, 3.0, 5.0])),
                      time_follow_up_std=draw(st.sampled_from([0.5, 0.0])), distance_visit_mean=draw(st.sampled_from([1.0, 0.5])),
                      distance_visit_std=draw(st.sampled_from([0.2, 0.0])), min_spacing_between_visits=draw(st.sampled_from([1 / 365, 0.1])))
    else:
        rows = []
        for i in range(draw(st.integers(2, 5))):
            t = draw(st.integers(55, 85))
            for j in range(draw(st.integers(1, 4))):
                rows.append([f"p{i}", float(t + 1.5 * j)])
        design = dict(visit_type="dataframe", rows=rows)
    variants = [dict(prior=draw(prior_ops(min_size=1, max_size=3)), logging=None) for _ in range(n_variants)]
    return dict(target="simulate", cfg=cfg, cohort=cohort, seed=draw(seeds()), pre_seed=draw(st.integers(0, 2**31 - 1)), design=design,
                base_seed=draw(st.integers(0, 99)), base_n_iter=draw(st.integers(5, 9)), variants=variants)


# ------------------------------------------------------------------------------------------------
# shards: Hypothesis engines
# ------------------------------------------------------------------------------------------------
def shard_fit(kinds, seed: int, n_examples: int, tier: str = "quick", shard: int = 0):
    env.import_leaspy()
    col = Collector(PROP, f"fit-{'+'.join(kinds)}-{shard}")
    drive(col, fit_case(tuple(kinds), tier), body, n_examples=n_examples, seed=shard_seed(seed, shard, 11), sub_check="fit")
    return col


def shard_perso(algos, kinds, seed: int, n_examples: int, tier: str = "quick", shard: int = 0):
    env.import_leaspy()
    col = Collector(PROP, f"perso-{'+'.join(algos)}-{shard}")
    drive(col, perso_case(tuple(algos), tuple(kinds), tier), body, n_examples=n_examples, seed=shard_seed(seed, shard, 12), sub_check="perso")
    return col


def shard_simulate(seed: int, n_examples: int, tier: str = "quick", shard: int = 0):
    env.import_leaspy()
    col = Collector(PROP, f"simulate-{shard}")
    drive(col, simulate_case(tier), body, n_examples=n_examples, seed=shard_seed(seed, shard, 13), sub_check="simulate")
    return col


# ------------------------------------------------------------------------------------------------
# grid engine: every on/off combination of the four periodicities x path x sourcewise, per model kind
# ------------------------------------------------------------------------------------------------
GRID_CFG = {
    "logistic": dict(kind="logistic", kwargs=dict(dimension=2, source_dimension=1, obs_models="gaussian-diagonal")),
    "linear": dict(kind="linear", kwargs=dict(dimension=2, source_dimension=1, obs_models="gaussian-scalar")),
    "joint": dict(kind="joint", kwargs=dict(dimension=2, source_dimension=1, nb_events=1)),
    "joint-univariate": dict(kind="joint", kwargs=dict(dimension=1, source_dimension=0, nb_events=1)),
    "shared_speed_logistic": dict(kind="shared_speed_logistic", kwargs=dict(dimension=2, source_dimension=1, obs_models="gaussian-diagonal")),
    "logistic-univariate": dict(kind="logistic", kwargs=dict(dimension=1, source_dimension=0, obs_models="gaussian-scalar")),
    "mixture_logistic": dict(kind="mixture_logistic", kwargs=dict(dimension=2, source_dimension=1, n_clusters=2, obs_models="gaussian-diagonal")),
}
GRID_PRIORS = [
    [["consume", "random", 3]], [["consume", "torch", 5]], [["consume", "numpy", 2], ["consume", "random", 1]], [["same"]],
    [["reseed", "all", 12345]], [["fit", "linear", None, "FastGibbs", 3, False]], [["figure"], ["consume", "torch", 1]],
    [["fit", "logistic", 7, "Gibbs", 3, True]],
]
GRID_N_ITER = 6


def grid_combos():
    """(print, save, plot, patient, path, sourcewise) booleans"""
    return list(itertools.product([False, True], repeat=6))


def grid_logging(combo):
    p_print, p_save, p_plot, p_pat, p_path, p_sw = combo
    lg = {}
    if p_print:
        lg["print_periodicity"] = 2
    if p_save:
        lg["save_periodicity"] = 2
    if p_plot:
        lg["plot_periodicity"] = 4  # one plot, before the last iteration (what it reads or draws can still influence the run)
    if p_pat:
        lg["plot_patient_periodicity"] = 4
    if p_sw:
        lg["plot_sourcewise"] = True
    lg["path_form"] = "rel" if p_path else "none"
    return lg


def grid_case(kind_key, combo, i):
    cfg = GRID_CFG[kind_key]
    n = 7 if cfg["kind"] == "mixture_logistic" else 6
    cohort = fixed_cohort("linear" if cfg["kind"] == "linear" else "logistic", cfg["kwargs"]["dimension"], event=cfg["kind"] == "joint", n=n)
    lg = grid_logging(combo)
    excluded = []
    apply_known_exclusions(lg, cfg, excluded)
    # indices decorrelated from the part number (i % n_parts) so that every part sees every sampler / prior activity
    return dict(target="fit", cfg=cfg, cohort=cohort, seed=(i // 4) % 3, pre_seed=1000 + i,
                algo_kw=dict(n_iter=GRID_N_ITER, sampler_pop=SAMPLERS[(i + i // 3 + i // 9) % 3]),
                variants=[dict(prior=GRID_PRIORS[(i + i // 8) % len(GRID_PRIORS)], logging=lg)], excluded=excluded)


def body_invalid_fit(col: Collector, case, why, sub_check="invalid"):
    """an invalid logging configuration must be refused with LeaspyAlgoInputError before the run starts (both API forms)"""
    from leaspy.algo import AlgorithmSettings
    from leaspy.exceptions import LeaspyAlgoInputError

    lg = case["variants"][0]["logging"]
    ctx = Ctx(case)
    inp = dict(case, why=why)
    ok = True
    for api in ("kwargs", "settings"):
        kw_log, roots, _ = resolve_logging(dict(lg, api=api), "inv")
        root, top = roots if roots else (None, None)
        buf = io.StringIO()
        try:
            with contextlib.redirect_stdout(buf):
                if api == "kwargs":
                    m = gen.build_model(ctx.cfg)
                    m.fit(ctx.data(), "mcmc_saem", seed=case["seed"], progress_bar=False, **case["algo_kw"], **kw_log)
                else:
                    s = AlgorithmSettings("mcmc_saem", seed=case["seed"], progress_bar=False, **case["algo_kw"])
                    s.set_logs(**kw_log)
            col.fail(sub_check, f"invalid-logging-accepted:{why}:{api}", inp, observed="no exception", expected="LeaspyAlgoInputError at settings time")
            ok = False
        except LeaspyAlgoInputError:
            if "Setting seed" in buf.getvalue():
                col.fail(sub_check, f"invalid-logging-refused-after-run-started:{why}", inp, observed=buf.getvalue()[:300],
                         expected="refused at settings time")
                ok = False
        except Exception as e:
            col.fail(sub_check, f"invalid-logging-wrong-exception:{why}:{exc_bucket(e)}", inp, observed=repr(e)[:500], expected="LeaspyAlgoInputError")
            ok = False
        finally:
            if top is not None:
                shutil.rmtree(top, ignore_errors=True)
            shutil.rmtree(os.path.join(os.getcwd(), "_outputs"), ignore_errors=True)
    col.case(classes=["refused-invalid" if ok else "invalid-not-refused", "invalid:" + why, "kind:" + case["cfg"]["kind"]])


def shard_grid(kind_key: str, part: int, n_parts: int, shard: str = ""):
    env.import_leaspy()
    col = Collector(PROP, f"grid-{kind_key}-{part}/{n_parts}")
    combos = grid_combos()
    # plotted (slow) combinations are spread evenly over the parts
    combos.sort(key=lambda c: (not (c[1] and c[2]), c))
    n_valid = 0
    for i, combo in enumerate(combos):
        if i % n_parts != part:
            continue
        case = grid_case(kind_key, combo, i)
        if combo[2] and not combo[1]:
            body_invalid_fit(col, case, "plot-without-save", sub_check="grid-invalid")
            continue
        body(col, case, sub_check="grid")
        n_valid += 1
    col.extra[f"grid_valid_combinations_{kind_key}"] = n_valid
    return col


# ------------------------------------------------------------------------------------------------
# invalid engine
# ------------------------------------------------------------------------------------------------
def invalid_configs():
    out = []
    for s in range(1, 9):
        for p in range(1, 20):
            if p % s != 0:
                out.append(("plot-not-multiple-of-save", dict(save_periodicity=s, plot_periodicity=p, path_form="rel")))
    for p in (1, 3, 50):
        out.append(("plot-without-save", dict(plot_periodicity=p, path_form="rel")))
        out.append(("plot-without-save", dict(plot_periodicity=p, path_form="none", print_periodicity=2)))
    for k in ("print_periodicity", "save_periodicity", "plot_patient_periodicity", "nb_of_patients_to_plot"):
        for v in (2.5, "3", [2], 2.0):
            out.append((f"non-integer:{k}", {k: v, "path_form": "rel"}))
    for v in (2.5, "6"):
        out.append(("non-integer:plot_periodicity", dict(save_periodicity=3, plot_periodicity=v, path_form="rel")))
    for v in ("yes", 1, None, "True"):
        out.append(("non-boolean:overwrite_logs_folder", dict(save_periodicity=3, overwrite_logs_folder=v, path_form="rel")))
    for v in ("yes", 0.5):
        out.append(("non-boolean:plot_sourcewise", dict(save_periodicity=3, plot_sourcewise=v, path_form="rel")))
    for pf in ("rel", "abs", "nested"):
        out.append(("stale-folder-without-overwrite", dict(save_periodicity=3, preexisting=True, path_form=pf)))
        out.append(("stale-folder-without-overwrite", dict(print_periodicity=3, preexisting=True, overwrite_logs_folder=False, path_form=pf)))
    return out


def shard_invalid(part: int = 0, n_parts: int = 1, shard: str = ""):
    env.import_leaspy()
    col = Collector(PROP, f"invalid-{part}/{n_parts}")
    kinds = ["logistic", "linear", "joint-univariate"]
    for i, (why, lg) in enumerate(invalid_configs()):
        if i % n_parts != part:
            continue
        kk = kinds[i % 3]
        cfg = GRID_CFG[kk]
        cohort = fixed_cohort("linear" if cfg["kind"] == "linear" else "logistic", cfg["kwargs"]["dimension"], event=cfg["kind"] == "joint")
        case = dict(target="fit", cfg=cfg, cohort=cohort, seed=1, pre_seed=i, algo_kw=dict(n_iter=4), variants=[dict(prior=[], logging=lg)])
        body_invalid_fit(col, case, why)
    # non-string path is a separate call form (cannot go through resolve_logging)
    from leaspy.algo import AlgorithmSettings
    from leaspy.exceptions import LeaspyAlgoInputError

    if part == 0:
        for v in (123, 4.5, ["logs"]):
            inp = dict(path=v)
            try:
                AlgorithmSettings("mcmc_saem", n_iter=4, seed=0).set_logs(path=v, save_periodicity=2)
                col.fail("invalid", "invalid-logging-accepted:non-string-path", inp, observed="no exception", expected="LeaspyAlgoInputError")
                col.case(classes=["invalid-not-refused", "invalid:non-string-path"])
            except LeaspyAlgoInputError:
                col.case(classes=["refused-invalid", "invalid:non-string-path"])
            except Exception as e:
                col.fail("invalid", "invalid-logging-wrong-exception:non-string-path:" + exc_bucket(e), inp, observed=repr(e)[:300], expected="LeaspyAlgoInputError")
                col.case(classes=["invalid-not-refused", "invalid:non-string-path"])
            finally:
                shutil.rmtree(os.path.join(os.getcwd(), "_outputs"), ignore_errors=True)
    return col


# ------------------------------------------------------------------------------------------------
# fresh engine: reference from a brand-new interpreter (no process history at all)
# ------------------------------------------------------------------------------------------------
_FRESH_SNIPPET = (
    "import json, sys, warnings\n"
    "warnings.filterwarnings('ignore')\n"
    "from vf.core import env\n"
    "env.quiet_torch(); env.enter_scratch(); env.import_leaspy()\n"
    "from vf.checks import c11\n"
    "case = json.loads(sys.stdin.read())\n"
    "print('C11-FRESH ' + json.dumps(c11.fresh_reference(case)))\n"
)


def fresh_reference(case):
    """executed in the child interpreter: the call under test is the first leaspy activity of the process"""
    ctx = Ctx(case)
    if case["target"] != "fit":
        ctx.build_base()
    out = call_target(ctx, None, tag="fresh")
    return dict(result=out["result"], exc=None if out["exc"] is None else type(out["exc"]).__name__)


def run_fresh(case):
    p = subprocess.run([sys.executable, "-c", _FRESH_SNIPPET], input=json.dumps(case), env=env.child_env(), capture_output=True, text=True, timeout=600)
    lines = [l for l in p.stdout.splitlines() if l.startswith("C11-FRESH ")]
    if p.returncode != 0 or not lines:
        raise RuntimeError(f"fresh-process reference failed (exit {p.returncode}): {p.stderr[-2000:]}")
    return json.loads(lines[-1][len("C11-FRESH "):])


def body_fresh(col: Collector, case):
    fresh = run_fresh(case)
    ctx = Ctx(case)
    if case["target"] != "fit":
        try:
            ctx.build_base()
        except Exception as e:
            col.exclude(f"base-fit-raised:{type(e).__name__}")
            return
    seed_all(case.get("pre_seed", 0))
    for variant in case["variants"]:
        classes = {"fresh-process-reference", "target:" + case["target"], "kind:" + case["cfg"]["kind"]}
        for op in variant.get("prior") or []:
            do_prior(op, ctx, classes)
        out = call_target(ctx, variant.get("logging"), tag="var")
        inp = dict(case, variants=[variant])
        nt = False
        if fresh["exc"] is not None or out["exc"] is not None:
            got = None if out["exc"] is None else type(out["exc"]).__name__
            if fresh["exc"] != got:
                col.fail("fresh", "outcome-differs-from-fresh-process:" + (exc_bucket(out["exc"]) if out["exc"] is not None else "completed"), inp,
                         observed=f"in-process: {got}", expected=f"fresh process: {fresh['exc']}")
            classes.add("ref-raised")
        else:
            d = first_diff(fresh["result"], out["result"])
            if d is not None:
                col.fail("fresh", f"result-differs-from-fresh-process:{case['target']}", inp, observed=d,
                         expected="bit-identical to the same seeded call made first thing in a new interpreter")
            else:
                nt = bool(variant.get("prior"))
        if nt:
            classes.add("nontrivial")
        col.case(classes=sorted(classes), nontrivial=jhash(["fresh", case_key(case), variant]) if nt else None,
                 sample=dict(engine="fresh", target=case["target"], model=case["cfg"], seed=case["seed"], prior=variant.get("prior"),
                             logging=variant.get("logging")))


@st.composite
def fresh_case(draw, tier="quick"):
    which = draw(st.sampled_from(["fit", "fit", "perso", "simulate"]))
    if which == "fit":
        c = draw(fit_case(("logistic", "linear", "joint"), tier, n_variants=1))
    elif which == "perso":
        c = draw(perso_case(("mean_posterior", "mode_posterior", "scipy_minimize"), ("logistic", "linear"), tier, n_variants=1))
    else:
        c = draw(simulate_case(tier, n_variants=1))
    v = c["variants"][0]
    if not v["prior"]:
        v["prior"] = [["consume", "random", 1]]
    return c


def shard_fresh(seed: int, n_examples: int, tier: str = "quick", shard: int = 0):
    env.import_leaspy()
    col = Collector(PROP, f"fresh-{shard}")
    # prior history of this process before the first case: auxiliary fits
    aux_model("logistic")
    drive(col, fresh_case(tier), body_fresh, n_examples=n_examples, seed=shard_seed(seed, shard, 14), sub_check="fresh")
    return col


# ------------------------------------------------------------------------------------------------
# known defects on the current tree: reproducers (inputs of the excluded classes)
# ------------------------------------------------------------------------------------------------
REPRO_D1 = dict(target="fit", cfg=GRID_CFG["joint"], cohort=fixed_cohort("logistic", 2, event=True), seed=0, pre_seed=0,
                algo_kw=dict(n_iter=6), variants=[dict(prior=[], logging=dict(save_periodicity=3, plot_periodicity=6, path_form="rel"))])
REPRO_D2 = dict(target="fit", cfg=GRID_CFG["mixture_logistic"], cohort=fixed_cohort("logistic", 2, n=7), seed=0, pre_seed=0,
                algo_kw=dict(n_iter=6), variants=[dict(prior=[], logging=dict(plot_patient_periodicity=3, path_form="rel"))])


def reproduce_known_defects():
    """{name: list of failure buckets} for the two excluded input classes (non-empty = still defective)"""
    out = {}
    for name, case in (("D1", REPRO_D1), ("D2", REPRO_D2)):
        tmp = Collector(PROP, "repro")
        body(tmp, case, sub_check="fit")
        out[name] = [f["bucket"] for f in tmp.failures]
    return out


def shard_known(shard: str = ""):
    env.import_leaspy()
    col = Collector(PROP, "known-defects")
    for name, buckets in reproduce_known_defects().items():
        col.cls(f"known-defect-{name}-" + ("still-reproduces" if buckets else "no-longer-reproduces"))
        col.notes.append(f"{name}: {buckets or 'no longer reproduces - drop the exclusion'}")
    return col


# ------------------------------------------------------------------------------------------------
# ------------------------------------------------------------------------------------------------
# n_jobs engine: scipy_minimize with joblib workers (the seed must govern what happens inside the workers too)
# ------------------------------------------------------------------------------------------------
@st.composite
def njobs_case(draw, tier="quick"):
    cfg = draw(gen.model_cfg(kinds=("logistic", "linear"), dim=(1, 3)))
    feats = [f"f{j}" for j in range(cfg["kwargs"]["dimension"])]
    cohort = draw(gen.cohort(kind=gen.data_kind_for(cfg), n_ind=(3, 5), n_visits=(2, 5), features=feats, id_kinds=("s",), shuffle=False))
    akw = {}
    if draw(st.booleans()):
        akw["use_jacobian"] = draw(st.booleans())
    variants = [dict(prior=draw(prior_ops(min_size=1, max_size=2, allow_same=False)), logging=None, n_jobs=draw(st.sampled_from([2, 3])))]
    return dict(target="scipy_minimize", cfg=cfg, cohort=cohort, seed=draw(seeds()), pre_seed=draw(st.integers(0, 2**31 - 1)), algo_kw=akw,
                base_seed=draw(st.integers(0, 99)), base_n_iter=draw(st.integers(5, 9)), variants=variants)


def body_njobs(col: Collector, case):
    """reference = seeded personalize with n_jobs=1; the same seeded call with n_jobs=k, twice in a row after prior activity,
    must equal the reference (hence each other) bit for bit"""
    ctx = Ctx(case)
    try:
        ctx.build_base()
    except Exception as e:
        col.exclude(f"base-fit-raised:{type(e).__name__}")
        return
    seed_all(case.get("pre_seed", 0))
    ref = call_target(ctx, None, tag="ref", extra_kw=dict(n_jobs=1))
    for variant in case["variants"]:
        k = variant["n_jobs"]
        classes = {"perso:n_jobs>1", f"perso:n_jobs={k}", "target:scipy_minimize", "kind:" + case["cfg"]["kind"]}
        prior = variant.get("prior") or []
        for op in prior:
            do_prior(op, ctx, classes)
        inp = dict(case, variants=[variant])
        ok = True
        outs = []
        for rep in (1, 2):
            out = call_target(ctx, None, tag="nj", extra_kw=dict(n_jobs=k))
            outs.append(out)
            if ref["exc"] is not None:
                ok = False
                classes.add("ref-raised")
                if out["exc"] is None or type(out["exc"]) is not type(ref["exc"]):
                    col.fail("njobs", "outcome-differs-from-n_jobs=1:" + ("completed" if out["exc"] is None else exc_bucket(out["exc"])), inp,
                             observed=repr(out["exc"])[:400], expected=f"same outcome as n_jobs=1: {type(ref['exc']).__name__}")
                continue
            if out["exc"] is not None:
                ok = False
                col.fail("njobs", "unexpected-exception:" + exc_bucket(out["exc"]), inp, observed=repr(out["exc"])[:600],
                         expected="completes like the n_jobs=1 call")
                continue
            d = first_diff(ref["result"], out["result"])
            if d is not None:
                ok = False
                col.fail("njobs", f"result-differs-from-n_jobs=1:repetition{rep}", inp, observed=d,
                         expected=f"seeded scipy_minimize with n_jobs={k} bit-identical to the same seeded call with n_jobs=1")
        if len(outs) == 2 and all(o["exc"] is None for o in outs):
            d = first_diff(outs[0]["result"], outs[1]["result"])
            if d is not None:
                ok = False
                col.fail("njobs", "repetitions-differ:n_jobs>1", inp, observed=d, expected="two repetitions of the same seeded call are bit-identical")
        if ok:
            classes.add("nontrivial")
        col.case(classes=sorted(classes), nontrivial=jhash(["njobs", case_key(case), variant]) if ok else None,
                 sample=dict(engine="njobs", model=case["cfg"], seed=case["seed"], n_jobs=k, prior=prior, algo=case.get("algo_kw")))


def stop_joblib_workers():
    # joblib keeps its (loky) worker processes alive for minutes: stop them so that the shard's process can exit at once
    try:
        from joblib.externals.loky import get_reusable_executor

        get_reusable_executor().shutdown(wait=True, kill_workers=True)
    except Exception:
        pass


def shard_njobs(seed: int, n_examples: int, tier: str = "quick", shard: int = 0):
    env.import_leaspy()
    col = Collector(PROP, f"njobs-{shard}")
    try:
        drive(col, njobs_case(tier), body_njobs, n_examples=n_examples, seed=shard_seed(seed, shard, 15), sub_check="njobs")
    finally:
        stop_joblib_workers()
    return col


def reuse_cases():
    """exhaustive small grid: fit = kind x population sampler x annealing off/on; personalize = algorithm x kind x annealing off/on"""
    out = []
    i = 0
    for kk in ("logistic", "linear", "joint"):
        cfg = GRID_CFG[kk]
        cohort = fixed_cohort("linear" if cfg["kind"] == "linear" else "logistic", cfg["kwargs"]["dimension"], event=cfg["kind"] == "joint")
        for sampler in SAMPLERS:
            for ann in (None, dict(do_annealing=True, n_plateau=3, initial_temperature=4.0), dict(do_annealing=True, n_plateau=2, initial_temperature=10)):
                if ann is not None and ann["n_plateau"] == 2 and sampler != "Gibbs":
                    continue
                akw = dict(n_iter=8, sampler_pop=sampler)
                if ann:
                    akw["annealing"] = ann
                out.append(dict(target="fit", cfg=cfg, cohort=cohort, seed=i % 3, pre_seed=2000 + i, algo_kw=akw,
                                variants=[dict(prior=[] if i % 2 else [["consume", "random", 2]], logging=None, reuse=True)]))
                i += 1
        for algo in ("mean_posterior", "mode_posterior", "scipy_minimize"):
            for ann in ((None, dict(do_annealing=True, n_plateau=3, initial_temperature=4.0)) if algo != "scipy_minimize" else (None,)):
                if algo == "scipy_minimize":
                    akw = {}
                    coh = dict(cohort, rows=[r for r in cohort["rows"] if r[0] in ("s0", "s1", "s2")])
                    if "events" in coh:
                        coh["events"] = {k: v for k, v in cohort["events"].items() if k in ("0", "1", "2")}
                else:
                    akw = dict(n_iter=12)
                    coh = cohort
                    if ann:
                        akw["annealing"] = ann
                out.append(dict(target=algo, cfg=cfg, cohort=coh, seed=i % 3, pre_seed=2000 + i, algo_kw=akw, base_seed=3, base_n_iter=6,
                                variants=[dict(prior=[] if i % 2 else [["consume", "torch", 3]], logging=None, reuse=True)]))
                i += 1
    return out


def route_cases():
    """grid rows of the settings-route dimension: kind x route x seed in {0, 1, 2**31-1} for fit, and two personalize algorithms"""
    out = []
    i = 0
    for kk in ("logistic", "linear", "joint"):
        cfg = GRID_CFG[kk]
        cohort = fixed_cohort("linear" if cfg["kind"] == "linear" else "logistic", cfg["kwargs"]["dimension"], event=cfg["kind"] == "joint")
        for route in ("file-load", "file-path"):
            for sd in (0, 1, 2**31 - 1):
                akw = dict(n_iter=6, sampler_pop=SAMPLERS[i % 3])
                if i % 4 == 1:
                    akw["annealing"] = dict(do_annealing=True, n_plateau=2, initial_temperature=4.0)
                out.append(dict(target="fit", cfg=cfg, cohort=cohort, seed=sd, pre_seed=3000 + i, algo_kw=akw,
                                variants=[dict(prior=GRID_PRIORS[i % 3], logging=None, route=route)]))
                i += 1
            for algo, sd in (("mean_posterior", 0), ("mode_posterior", 2**31 - 1)):
                out.append(dict(target=algo, cfg=cfg, cohort=cohort, seed=sd, pre_seed=3000 + i, algo_kw=dict(n_iter=10), base_seed=3, base_n_iter=6,
                                variants=[dict(prior=GRID_PRIORS[(i + 1) % 3], logging=None, route=route)]))
                i += 1
    return out


def shard_route(shard: str = ""):
    env.import_leaspy()
    col = Collector(PROP, "route-grid")
    n = 0
    for case in route_cases():
        body(col, case, sub_check="route")
        n += 1
    col.extra["route_grid_cases"] = n
    return col


def shard_reuse(part: int = 0, n_parts: int = 1, shard: str = ""):
    env.import_leaspy()
    col = Collector(PROP, f"reuse-{part}/{n_parts}")
    n = 0
    for i, case in enumerate(reuse_cases()):
        if i % n_parts != part:
            continue
        body(col, case, sub_check="reuse")
        n += 1
    col.extra["reuse_grid_cases"] = n
    return col


def shards(tier: str, seed: int):
    q = tier == "quick"
    specs = []
    # longest first
    grid_kinds = ["joint", "logistic", "linear"] if q else list(GRID_CFG)
    for kk in grid_kinds:
        n_parts = 3 if GRID_CFG[kk]["kind"] in ("joint", "mixture_logistic") else 2
        for part in range(n_parts):
            specs.append((MOD, "shard_grid", dict(kind_key=kk, part=part, n_parts=n_parts)))
    # Hypothesis mutates earlier examples once a few have been generated (many near-duplicates of one large cohort):
    # the thorough tier therefore uses many short shards with independent seeds rather than a few long ones
    n_fit = 8 if q else 25
    fit_kinds = [("joint",), ("logistic", "linear", "joint"), ("joint", "shared_speed_logistic"), ("logistic", "mixture_logistic", "linear"), ("logistic",), ("linear",)]
    if not q:
        fit_kinds = fit_kinds * 6
    for k, kinds in enumerate(fit_kinds):
        specs.append((MOD, "shard_fit", dict(kinds=list(kinds), seed=seed, n_examples=n_fit, tier=tier, shard=k)))
    for k in range(1 if q else 3):
        specs.append((MOD, "shard_njobs", dict(seed=seed, n_examples=5 if q else 25, tier=tier, shard=k)))
    for k in range(2 if q else 6):
        specs.append((MOD, "shard_fresh", dict(seed=seed, n_examples=3 if q else 10, tier=tier, shard=k)))
    n_p = 8 if q else 25
    perso_algos = [("scipy_minimize",), ("mean_posterior",), ("mode_posterior",)]
    if not q:
        perso_algos = perso_algos * 4
    for k, algos in enumerate(perso_algos):
        specs.append((MOD, "shard_perso", dict(algos=list(algos), kinds=["logistic", "linear", "joint"], seed=seed,
                                               n_examples=(n_p if algos != ("scipy_minimize",) else max(5, n_p // 2)), tier=tier, shard=k)))
    for k in range(1 if q else 8):
        specs.append((MOD, "shard_simulate", dict(seed=seed, n_examples=10 if q else 30, tier=tier, shard=k)))
    specs.append((MOD, "shard_route", dict()))
    for part in range(2):
        specs.append((MOD, "shard_reuse", dict(part=part, n_parts=2)))
    specs.append((MOD, "shard_invalid", dict(part=0, n_parts=1)))
    specs.append((MOD, "shard_known", dict()))
    if not q:  # thorough: the Hypothesis fit shards are the longest
        specs.sort(key=lambda sp: {"shard_fresh": 0, "shard_njobs": 0, "shard_fit": 1, "shard_grid": 2}.get(sp[1], 3))
    return specs


def replay(sub_check: str, inp):
    env.import_leaspy()
    env.enter_scratch()
    col = Collector(PROP, "replay")
    case = {k: v for k, v in inp.items() if k != "why"}
    if sub_check in ("fit", "perso", "simulate", "grid", "reuse", "route"):
        body(col, case, sub_check=sub_check)
    elif sub_check in ("invalid", "grid-invalid"):
        if "variants" in case:
            body_invalid_fit(col, case, inp.get("why", "?"), sub_check=sub_check)
        else:
            return shard_invalid().failures
    elif sub_check == "fresh":
        body_fresh(col, case)
    elif sub_check == "njobs":
        try:
            body_njobs(col, case)
        finally:
            stop_joblib_workers()
    return col.failures
