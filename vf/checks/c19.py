"""C19 - temperature and proposal-scale schedules stay within their documented envelopes.

Temperature engines
  (T-grid)  exhaustive configuration grid n_iter x (fraction | count) x initial temperature x n_plateau (+ annealing off),
            every configuration built through AlgorithmSettings -> algorithm_factory and driven directly
            (`_initialize_annealing`, then `_update_temperature` for current_iteration = 1..n_iter);
  (T-hyp)   Hypothesis configurations beyond the grid (n_iter <= 200, arbitrary fractions/counts/temperatures, three
            algorithms sharing the annealing mix-in);
  (fit)     real short `mcmc_saem` fits on generated cohorts: temperature recorded after every iteration, and the
            std of every sampler of the run recorded after every `sample()`.
  (P-real)  real `mean_posterior` / `mode_posterior` personalizations (n_iter <= 60, burn-in count/fraction varied): the trace is the
            (temperature, temperature_inv) actually handed to every `sampler.sample` call of every iteration, plus the values left
            on the algorithm object; the scales of the run's samplers (configured through `sampler_ind_params`) are judged too.
Scale engines
  (S-exh)   every binary acceptance history of length 2L+1 (L <= 4) x sampler kind x band x factor, fed to
            `_update_acceptation_rate` / `_update_std`;
  (S-hyp)   Hypothesis (kind, shape, window, band, factor, phase-biased acceptance history), fed directly;
  (S-real)  real `sampler.sample` calls on a live model state, acceptance steered by the initial scale
            (huge scale = sharp target = rejections; tiny scale = flat target = acceptances).
Oracles: an independent exact (Fraction) reference temperature schedule and an independent rolling-window model of
the adaptive scale, both written from the docstrings; nothing of leaspy is called by the oracle.
"""
from __future__ import annotations

import contextlib
import io
import itertools
import math
import warnings
from collections import deque
from fractions import Fraction

from vf.core import env
from vf.core.harness import Collector, drive, exc_bucket, jhash, shard_seed

PROP = "C19"
RULE = (
    "temperature: exhaustive grid n_iter 1-40 x {n_iter_frac 0.1/.25/.5/.75/1 | n_iter count 0,1,3,7,12,25,45} x initial "
    "temperature {1.0,1.5,5,10,37.3} x n_plateau 1-12 (thorough: n_iter 1-80, 9 fractions, 12 counts, 8 temperatures, n_plateau 1-16) "
    "plus annealing off, each driven directly through "
    "_initialize_annealing/_update_temperature; Hypothesis configurations beyond it (n_iter<=200, n_plateau<=40, arbitrary "
    "fraction/count/temperature, mcmc_saem/mean_posterior/mode_posterior); real mcmc_saem fits (n_iter<=40) and real mean_posterior/"
    "mode_posterior personalizations (n_iter<=60, burn-in shorter/longer than the annealing phase) on generated cohorts. "
    "scales: every binary acceptance history of length 2L+1 for L<=4 (thorough 5) x 4 sampler kinds x 3 bands x 2 factors; Hypothesis "
    "(kind, shape, window 1-30 (60 beyond), band on a 1/1000 (1/10000) grid, factor, phase-biased history) fed directly; real "
    "sampler.sample calls and the samplers of the real fits. Non-trivial = accepted annealing configuration whose trace has >=2 "
    "distinct temperatures (distinct by configuration) / acceptance history in which one block's scale both grew and shrank "
    "(distinct by sampler parameters + history)."
)
ASSUMPTIONS = [
    "Reference schedule (exact rationals): annealing iterations n_ann = `annealing.n_iter` if given else int(n_iter_frac*n_iter) "
    "evaluated with the same double product as the documentation formula (C05 interpretation of int(frac*n)); plateau length "
    "p = n_ann // (n_plateau-1); T_k = max(T0 - (min(k,n_ann)//p)*(T0-1)/(n_plateau-1), 1).",
    "Stated tolerance: |T_k - reference| <= 1e-9 and |T_k - 1| <= 1e-9 for k >= n_ann (the linear decrement is accumulated in floating "
    "point, e.g. 5-3*(4/3) ends at 1.0000000000000007); start value, monotonicity, >= 1, 'changes only at multiples of p and only "
    "while k <= n_ann', temperature_inv == 1/temperature and 'annealing off => 1.0' are checked exactly.",
    "n_plateau = 1 is a documented degenerate scheme (UserWarning 'you will stay at initial temperature'): the oracle expects the "
    "constant initial temperature and the warning; the clause 'exactly 1 once annealing is over' is applied to n_plateau >= 2 only.",
    "A configuration may be refused only with LeaspyAlgoInputError and only before the first iteration; a configuration that satisfies "
    "every documented constraint (n_plateau positive int; n_plateau = 1, or n_ann >= n_plateau-1 and initial temperature > 1) must be accepted; "
    "every accepted configuration must run all iterations.",
    "Scales: band bounds lie on a decimal grid (1/1000 for windows <= 30, 1/10000 for windows <= 60) so that a window mean c/L is either exactly "
    "on a bound (documented strict inequalities: no change) or >= 1.6e-6 away from it (float32 evaluation cannot flip it); the factor "
    "is checked as |new - old*(1+-f)| <= 3e-7*old*(1+-f) (one float32 product), unchanged blocks bit-exact.",
    "Domain bound for 'positive and finite': histories are generated so that std0*(1+-f)^(number of adaptations) stays inside [1e-30, 1e30]; "
    "beyond that float32 under/overflow decides, not the schedule.",
    "Oscillating annealing (annealing.oscillations) is not the default scheme and is not generated; initial temperatures are >= 1 (documented).",
]
REQUIRED_CLASSES = {
    "T:accepted": 0.02, "T:refused": 0.005, "T:two-temperatures": 0.02, "T:annealing-off": 10, "T:single-plateau": 10,
    "T:ends-before-n-iter": 0.01, "T:clipped-extra-decrement": 10, "fit:two-temperatures": 4,
    "T:second-run-of-same-object": 0.02, "fit:second-run-of-same-object": 4,
    "P:accepted": 20, "P:two-temperatures": 10, "P:boundary-inside-burn-in": 8, "P:boundary-after-burn-in": 8,
    "P:all-boundaries-inside-burn-in": 3, "P:scale-adapted-non-default-factor": 8, "fit:scale-adapted-non-default-factor": 4,
    "S:grew-and-shrank": 0.01, "S:tie-at-bound": 10, "S:multi-block": 0.01, "fit:scale-adapted": 4, "S-real:adapted": 4,
}

TOL = 1e-9


def _samples_here(col) -> bool:
    """one verbatim sample per engine in the evidence file: only shard 0 of each engine contributes"""
    return col.shard.endswith("-0") and not col.samples
FACTOR_RTOL = 3e-7
STD_LO, STD_HI = 1e-30, 1e30


# ================================================================================================
# reference temperature schedule (independent of leaspy)
# ================================================================================================
def ref_temperature_schedule(cfg):
    """cfg = dict(n_iter, ann={do_annealing, initial_temperature, n_plateau, n_iter, n_iter_frac}).

    Returns dict(on, n_ann, P, T0, period, must_accept, defined, sched=[Fraction T_0..T_n] or None)."""
    n_iter = cfg["n_iter"]
    ann = cfg["ann"]
    on = bool(ann.get("do_annealing", False))
    out = dict(on=on, n_ann=None, P=None, T0=None, period=None, must_accept=True, defined=True, sched=None)
    if not on:
        out["sched"] = [Fraction(1)] * (n_iter + 1)
        return out
    T0 = ann.get("initial_temperature", 10)
    P = ann.get("n_plateau", 10)
    cnt, frac = ann.get("n_iter", None), ann.get("n_iter_frac", 0.5)
    out.update(T0=T0, P=P)
    if cnt is None and frac is None:
        out.update(must_accept=False, defined=False)
        return out
    n_ann = cnt if cnt is not None else int(frac * n_iter)
    out["n_ann"] = n_ann
    if not (isinstance(P, int) and not isinstance(P, bool) and P > 0):
        out.update(must_accept=False, defined=False)
        return out
    T0f = Fraction(T0)
    if P == 1:
        out["sched"] = [T0f] * (n_iter + 1)
        return out
    if n_ann < P - 1 or not (T0 > 1):
        out.update(must_accept=False, defined=False)
        return out
    period = n_ann // (P - 1)
    dec = (T0f - 1) / (P - 1)
    out["period"] = period
    out["sched"] = [max(T0f - (min(k, n_ann) // period) * dec, Fraction(1)) for k in range(n_iter + 1)]
    return out


def judge_temperature(col: Collector, sub, inp, ref, trace, invs, label=""):
    """trace[k] = temperature after iteration k (trace[0] after initialisation); invs likewise. Returns info dict.
    `label` (e.g. ':second-run') is appended to the bucket and names the run of the same algorithm object."""
    n = len(trace) - 1
    info = dict(distinct=len({float(t) for t in trace if isinstance(t, (int, float))}))

    def fail(bucket, k, obs, exp):
        col.fail(sub, bucket + label, inp, observed=f"k={k}{label}: {obs}", expected=exp)

    for k, (t, ti) in enumerate(zip(trace, invs)):
        if not (isinstance(t, (int, float)) and math.isfinite(t)):
            fail("temperature-not-finite", k, repr(t), "finite number")
            return info
        if ti != 1 / t:
            fail("inverse-not-reciprocal", k, f"temperature={t!r} temperature_inv={ti!r}", f"temperature_inv == {1 / t!r}")
            return info
    if not ref["on"]:
        for k, t in enumerate(trace):
            if t != 1.0:
                fail("annealing-off-temperature-not-1", k, repr(t), "exactly 1.0")
                return info
        return info
    T0 = ref["T0"]
    if trace[0] != T0:
        fail("start-not-initial-temperature", 0, repr(trace[0]), repr(T0))
        return info
    for k in range(1, n + 1):
        if trace[k] > trace[k - 1]:
            fail("temperature-increased", k, f"{trace[k - 1]!r} -> {trace[k]!r}", "non-increasing")
            return info
    for k, t in enumerate(trace):
        if t < 1:
            fail("temperature-below-1", k, repr(t), ">= 1")
            return info
    if not ref["defined"]:
        return info  # accepted although the reference leaves it undefined: only the generic envelope applies
    sched, period, n_ann = ref["sched"], ref["period"], ref["n_ann"]
    for k in range(1, n + 1):
        if trace[k] != trace[k - 1]:
            if period is None:
                fail("single-plateau-temperature-changed", k, f"{trace[k - 1]!r} -> {trace[k]!r}", "constant initial temperature")
                return info
            if k % period != 0:
                fail("changed-off-plateau-boundary", k, f"{trace[k - 1]!r} -> {trace[k]!r} (plateau length {period})",
                     f"changes only at multiples of {period}")
                return info
            if k > n_ann:
                fail("changed-after-annealing-over", k, f"{trace[k - 1]!r} -> {trace[k]!r} (annealing iterations {n_ann})",
                     "no change once annealing iterations are over")
                return info
    for k, t in enumerate(trace):
        if abs(Fraction(t) - sched[k]) > Fraction(TOL):
            fail("differs-from-reference-schedule", k, repr(t), f"{float(sched[k])!r} (+-{TOL})")
            return info
    if period is not None:
        for k in range(max(n_ann, 0), n + 1):
            if abs(trace[k] - 1) > TOL:
                fail("not-1-after-annealing", k, repr(trace[k]), f"1 (+-{TOL}) for k >= {n_ann}")
                return info
    return info


def _classes_temperature(cfg, ref, outcome, info):
    cl = ["T:" + outcome]
    if not ref["on"]:
        cl.append("T:annealing-off")
        return cl
    if ref["P"] == 1:
        cl.append("T:single-plateau")
    if cfg["ann"].get("n_iter") is not None:
        cl.append("T:count-form")
    if not ref["must_accept"]:
        cl.append("T:refusable")
    if outcome == "accepted":
        if info.get("second_run") and info.get("distinct", 0) >= 2:
            cl.append("T:second-run-of-same-object")
        if info.get("distinct", 0) >= 2:
            cl.append("T:two-temperatures")
        if ref["period"] is not None:
            if ref["n_ann"] < cfg["n_iter"]:
                cl.append("T:ends-before-n-iter")
            if ref["n_ann"] > cfg["n_iter"]:
                cl.append("T:annealing-longer-than-run")
            if ref["n_ann"] // ref["period"] > ref["P"] - 1:
                cl.append("T:clipped-extra-decrement")
            if ref["period"] == 1:
                cl.append("T:plateau-length-1")
    return cl


# ================================================================================================
# temperature: direct drive
# ================================================================================================
def _build_algo(cfg):
    from leaspy.algo import AlgorithmSettings, algorithm_factory

    kw = dict(n_iter=cfg["n_iter"], seed=0, progress_bar=False, annealing=dict(cfg["ann"]))
    kw.update(cfg.get("extra", {}))
    settings = AlgorithmSettings(cfg.get("algo", "mcmc_saem"), **kw)
    return algorithm_factory(settings)


def run_direct(col: Collector, cfg, sub="direct"):
    """Build the algorithm object, initialise annealing, step current_iteration 1..n_iter. Returns (outcome, ref, info)."""
    from leaspy.exceptions import LeaspyAlgoInputError

    ref = ref_temperature_schedule(cfg)
    info = {}
    with warnings.catch_warnings(record=True) as wlist:
        warnings.simplefilter("always", category=UserWarning)  # only the single-plateau UserWarning is of interest
        try:
            algo = _build_algo(cfg)
            if cfg["ann"].get("do_annealing") and ref["n_ann"] is not None and algo.algo_parameters["annealing"]["n_iter"] != ref["n_ann"]:
                col.fail(sub, "annealing-iterations-differ-from-documented", cfg,
                         observed=algo.algo_parameters["annealing"]["n_iter"], expected=ref["n_ann"])
            algo._initialize_annealing()
        except LeaspyAlgoInputError as e:
            if ref["must_accept"]:
                col.fail(sub, "valid-config-refused:" + exc_bucket(e), cfg, observed=repr(e), expected="accepted (all documented constraints hold)")
            return "refused", ref, info
        except Exception as e:
            col.fail(sub, "unexpected-exception-at-init:" + exc_bucket(e), cfg, observed=repr(e),
                     expected="LeaspyAlgoInputError refusal or acceptance")
            return "crashed", ref, info
        trace, invs = [algo.temperature], [algo.temperature_inv]
        trace2, invs2 = [], []
        try:
            for k in range(1, cfg["n_iter"] + 1):
                algo.current_iteration = k
                algo._update_temperature()
                trace.append(algo.temperature)
                invs.append(algo.temperature_inv)
        except Exception as e:
            col.fail(sub, "accepted-config-does-not-run:" + exc_bucket(e), cfg, observed=f"iteration {len(trace)}: {e!r}",
                     expected=f"runs all {cfg['n_iter']} iterations")
            return "crashed", ref, info
        # a second run of the SAME algorithm object (the API allows `algo.run` twice): every run starts with `_initialize_annealing()`
        try:
            algo._initialize_annealing()
            trace2.append(algo.temperature)
            invs2.append(algo.temperature_inv)
            for k in range(1, cfg["n_iter"] + 1):
                algo.current_iteration = k
                algo._update_temperature()
                trace2.append(algo.temperature)
                invs2.append(algo.temperature_inv)
        except Exception as e:
            col.fail(sub, "second-run-of-same-object-does-not-run:" + exc_bucket(e), cfg, observed=f"second run, iteration {len(trace2)}: {e!r}",
                     expected=f"re-initialises and runs all {cfg['n_iter']} iterations like the first run")
            trace2 = []
    if ref["on"] and ref["P"] == 1 and ref["defined"] and ref["T0"] != 1:
        if not any("n_plateau" in str(w.message) for w in wlist):
            col.fail(sub, "single-plateau-not-warned", cfg, observed=[str(w.message)[:80] for w in wlist],
                     expected="warning that the temperature stays at its initial value")
    info = judge_temperature(col, sub, cfg, ref, trace, invs)
    info["trace_head"] = [float(t) for t in trace[:12]]
    if trace2:
        judge_temperature(col, sub, cfg, ref, trace2, invs2, label=":second-run")
        info["second_run"] = True
    return "accepted", ref, info


GRID_FRACS = (0.1, 0.25, 0.5, 0.75, 1.0)
GRID_COUNTS = (0, 1, 3, 7, 12, 25, 45)
GRID_T0 = (1.0, 1.5, 5, 10, 37.3)


def grid_configs(n_iters, plateaus, fracs=GRID_FRACS, counts=GRID_COUNTS, t0s=GRID_T0):
    for n_iter in n_iters:
        yield dict(n_iter=n_iter, ann=dict(do_annealing=False))
        yield dict(n_iter=n_iter, ann=dict(do_annealing=False, n_plateau=0, initial_temperature=0.5))  # ignored when off
        for spec in [("f", f) for f in fracs] + [("c", c) for c in counts]:
            for T0, P in itertools.product(t0s, plateaus):
                ann = dict(do_annealing=True, initial_temperature=T0, n_plateau=P)
                if spec[0] == "f":
                    ann["n_iter_frac"] = spec[1]
                else:
                    ann.update(n_iter=spec[1], n_iter_frac=None)
                yield dict(n_iter=n_iter, ann=ann)


def shard_temp_grid(part: int, n_parts: int, n_iter_max: int, p_max: int, extended: bool = False, shard: str = ""):
    env.import_leaspy()
    col = Collector(PROP, f"T-grid-{part}/{n_parts}")
    n_iters = [n for n in range(1, n_iter_max + 1) if n % n_parts == part]
    kw = {}
    if extended:
        kw = dict(fracs=GRID_FRACS + (0.0, 0.05, 0.33, 0.9), counts=GRID_COUNTS + (2, 5, 18, 60, 100), t0s=GRID_T0 + (1.000001, 2, 100.0))
    n = 0
    for cfg in grid_configs(n_iters, range(1, p_max + 1), **kw):
        outcome, ref, info = run_direct(col, cfg, "direct")
        cl = _classes_temperature(cfg, ref, outcome, info)
        nt = "T:two-temperatures" in cl
        col.evaluations += 1
        for c in cl:
            col.classes[c] += 1
        if nt:
            col.nontrivial_bulk += 1
            if part == 0 and len(col.samples) < 1 and cfg["n_iter"] >= 8:
                col.samples.append(dict(engine="T-grid", cfg=cfg, trace_head=info.get("trace_head")))
        n += 1
    col.extra["exhaustive_temperature_configs"] = n
    return col


def temp_strategy():
    from hypothesis import strategies as st

    @st.composite
    def _c(draw):
        algo = draw(st.sampled_from(["mcmc_saem", "mcmc_saem", "mean_posterior", "mode_posterior"]))
        n_iter = draw(st.one_of(st.integers(1, 200), st.integers(41, 200)))
        mode = draw(st.sampled_from(["frac", "frac", "count", "count", "both", "off", "none"]))
        if mode == "off":
            ann = dict(do_annealing=False)
            if draw(st.booleans()):
                ann.update(initial_temperature=draw(st.sampled_from([1.0, 7.5, 100])), n_plateau=draw(st.integers(1, 40)))
            return dict(algo=algo, n_iter=n_iter, ann=ann)
        P = draw(st.one_of(st.integers(1, 40), st.integers(2, 6)))
        T0 = draw(st.one_of(st.sampled_from([1.0, 1.5, 2, 5, 10, 37.3, 100, 1.0000001]),
                            st.floats(1.0, 100.0, allow_nan=False, allow_infinity=False)))
        ann = dict(do_annealing=True, initial_temperature=T0, n_plateau=P)
        if mode == "frac":
            ann["n_iter_frac"] = draw(st.one_of(st.floats(0.0, 1.0, allow_nan=False), st.sampled_from([0.0, 1.0, 0.29, 0.7, 1 / 3])))
        elif mode == "count":
            # counts around the refusal boundary n_ann = n_plateau - 1 are the interesting ones
            ann["n_iter"] = draw(st.one_of(st.integers(0, 250), st.integers(max(0, P - 3), P + 2), st.just((P - 1) * draw(st.integers(1, 6)))))
            ann["n_iter_frac"] = None
        elif mode == "both":
            ann["n_iter"] = draw(st.integers(0, 250))
            ann["n_iter_frac"] = draw(st.floats(0.0, 1.0, allow_nan=False))
        else:
            ann["n_iter"] = None
            ann["n_iter_frac"] = None
        return dict(algo=algo, n_iter=n_iter, ann=ann)

    return _c()


def body_temp(col: Collector, case):
    outcome, ref, info = run_direct(col, case, "direct")
    cl = _classes_temperature(case, ref, outcome, info) + ["T:algo:" + case.get("algo", "mcmc_saem")]
    nt = "T:two-temperatures" in cl
    col.case(classes=cl, nontrivial=jhash(case) if nt else None,
             sample=dict(engine="T-hyp", cfg=case, trace_head=info.get("trace_head")) if _samples_here(col) else None)


def shard_temp_hyp(seed: int, n_examples: int, shard: int = 0):
    env.import_leaspy()
    col = Collector(PROP, f"T-hyp-{shard}")
    drive(col, temp_strategy(), body_temp, n_examples=n_examples, seed=shard_seed(seed, shard, 1), sub_check="direct")
    return col


# ================================================================================================
# reference model of the adaptive scale (independent rolling window)
# ================================================================================================
def _np():
    import numpy as np

    return np


def judge_scales(col: Collector, sub, inp, *, L, lo, hi, den, f, stds, accs, label=""):
    """stds[0] = initial std (numpy float32 array, any shape), stds[k] = std after call k; accs[k-1] = acceptance array (0/1) of call k.

    lo/hi are integers: the band is (lo/den, hi/den). Returns info dict(grew, shrank, both, ties, events)."""
    np = _np()
    info = dict(grew=0, shrank=0, both=False, ties=0, events=0, blocks=int(stds[0].size))
    lo_f, hi_f = Fraction(lo, den), Fraction(hi, den)
    window = deque([np.zeros(stds[0].shape, dtype=np.int64) for _ in range(L)], maxlen=L)
    grew = np.zeros(stds[0].shape, dtype=bool)
    shrank = np.zeros(stds[0].shape, dtype=bool)

    def fail(bucket, k, obs, exp):
        col.fail(sub, bucket + label, inp, observed=f"call {k}: {obs}", expected=exp)

    s0 = stds[0]
    if not (np.isfinite(s0).all() and (s0 > 0).all()):
        fail("std-not-positive-finite", 0, s0.tolist(), "positive and finite")
        return info
    for k in range(1, len(stds)):
        prev, cur = stds[k - 1], stds[k]
        a = accs[k - 1]
        if not np.isin(a, (0, 1)).all():
            raise AssertionError("harness: acceptance arrays must be 0/1")
        window.append(a.astype(np.int64))
        if not (np.isfinite(cur).all() and (cur > 0).all()):
            fail("std-not-positive-finite", k, cur.tolist(), "positive and finite")
            return info
        if k % L != 0:
            if not np.array_equal(prev, cur):
                fail("std-changed-off-schedule", k, f"{prev.tolist()} -> {cur.tolist()} (window {L})", f"changes only when the call count is a multiple of {L}")
                return info
            continue
        info["events"] += 1
        counts = sum(window)
        for idx in np.ndindex(*counts.shape) if counts.shape else [()]:
            c = int(counts[idx])
            mean = Fraction(c, L)
            p, q = float(prev[idx]), float(cur[idx])
            if mean == lo_f or mean == hi_f:
                info["ties"] += 1
            if mean < lo_f:
                r, what = 1.0 - f, "shrink"
            elif mean > hi_f:
                r, what = 1.0 + f, "grow"
            else:
                r, what = 1.0, "keep"
            if what == "keep":
                if q != p:
                    fail("std-changed-for-block-inside-band", k, f"block {idx}: {p!r} -> {q!r}, window mean {c}/{L}, band ({lo}/{den}, {hi}/{den})",
                         "unchanged")
                    return info
                continue
            if q == p:
                fail("std-not-adapted-outside-band", k, f"block {idx}: stays {p!r}, window mean {c}/{L}, band ({lo}/{den}, {hi}/{den})",
                     f"{what} by {r}")
                return info
            if abs(q - p * r) > FACTOR_RTOL * p * r:
                fail("std-wrong-factor", k, f"block {idx}: {p!r} -> {q!r} (ratio {q / p!r}), window mean {c}/{L}", f"ratio {r!r}")
                return info
            if what == "grow":
                grew[idx] = True
                info["grew"] += 1
            else:
                shrank[idx] = True
                info["shrank"] += 1
    info["both"] = bool((grew & shrank).any())
    return info


SAMPLER_KINDS = ("pop-gibbs", "pop-fast", "pop-mh", "ind-gibbs")


def make_sampler(kind, shape, n_patients, *, scale, L, lo, hi, den, f):
    from leaspy.samplers import (
        IndividualGibbsSampler,
        PopulationFastGibbsSampler,
        PopulationGibbsSampler,
        PopulationMetropolisHastingsSampler,
    )

    kw = dict(scale=scale, acceptation_history_length=L, mean_acceptation_rate_target_bounds=(lo / den, hi / den), adaptive_std_factor=f)
    if kind == "ind-gibbs":
        return IndividualGibbsSampler("v", tuple(shape), n_patients=n_patients, **kw)
    cls = {"pop-gibbs": PopulationGibbsSampler, "pop-fast": PopulationFastGibbsSampler, "pop-mh": PopulationMetropolisHastingsSampler}[kind]
    return cls("v", tuple(shape), **kw)


def max_events(std0, f):
    """Largest number of adaptations for which std0*(1-f)^m and std0*(1+f)^m stay inside [1e-30, 1e30]."""
    down = (math.log(std0) - math.log(STD_LO)) / -math.log(1.0 - f)
    up = (math.log(STD_HI) - math.log(std0)) / math.log(1.0 + f)
    return max(0, int(math.floor(min(down, up))) - 1)


def drive_sampler_direct(col, sub, inp, kind, shape, n_patients, scale, L, lo, hi, den, f, acc_rows):
    """acc_rows: list (one per call) of flat 0/1 lists (one per block)."""
    import torch

    np = _np()
    s = make_sampler(kind, shape, n_patients, scale=scale, L=L, lo=lo, hi=hi, den=den, f=f)
    shp = tuple(s.shape_acceptation)
    stds = [s.std.detach().clone().numpy().copy()]
    accs = []
    try:
        for row in acc_rows:
            a = torch.tensor(row, dtype=torch.float32).reshape(shp)
            s._update_acceptation_rate(a)
            s._update_std()
            stds.append(s.std.detach().clone().numpy().copy())
            accs.append(np.array(row, dtype=np.int64).reshape(shp))
    except Exception as e:
        col.fail(sub, "unexpected-exception:" + exc_bucket(e), inp, observed=f"call {len(stds)}: {e!r}", expected="no exception")
        return None
    if tuple(s.acceptation_history.shape) != (L, *shp):
        col.fail(sub, "acceptance-window-wrong-length", inp, observed=list(s.acceptation_history.shape), expected=[L, *shp])
    return judge_scales(col, sub, inp, L=L, lo=lo, hi=hi, den=den, f=f, stds=stds, accs=accs)


def n_blocks_of(kind, shape, n_patients):
    if kind == "pop-gibbs":
        return int(math.prod(shape))
    if kind == "pop-fast":
        return shape[0]
    if kind == "pop-mh":
        return 1
    return n_patients


# -- exhaustive small histories --------------------------------------------------------------------
EXH_BANDS = ((200, 400), (250, 500), (333, 667))
EXH_FACTORS = (0.1, 0.9)


def exh_rows(bits, n_calls, nb):
    """block 0 follows the enumerated history; block j follows it rotated by j calls and complemented when j is odd."""
    h = [(bits >> i) & 1 for i in range(n_calls)]
    return [[(h[(i + j) % n_calls] ^ (j & 1)) for j in range(nb)] for i in range(n_calls)]


def shard_scale_exh(kind: str, l_max: int, extra_windows: int = 0, shard: str = ""):
    env.import_leaspy()
    col = Collector(PROP, f"S-exh-{kind}")
    shape, n_pat = {"pop-gibbs": ((2, 2), 0), "pop-fast": ((3, 2), 0), "pop-mh": ((2, 2), 0), "ind-gibbs": ((1,), 3)}[kind]
    nb = n_blocks_of(kind, shape, n_pat)
    n = 0
    for L in range(1, l_max + 1):
        n_calls = (2 + extra_windows) * L + 1
        for (lo, hi), f in itertools.product(EXH_BANDS, EXH_FACTORS):
            for bits in range(2 ** n_calls):
                rows = exh_rows(bits, n_calls, nb)
                inp = dict(engine="S-exh", kind=kind, shape=list(shape), n_patients=n_pat, scale=1.0, L=L, lo=lo, hi=hi, den=1000, f=f,
                           n_calls=n_calls, bits=bits)
                info = drive_sampler_direct(col, "scale-direct", inp, kind, shape, n_pat, 1.0, L, lo, hi, 1000, f, rows)
                n += 1
                col.evaluations += 1
                if info is None:
                    continue
                if nb > 1:
                    col.classes["S:multi-block"] += 1
                if info["ties"]:
                    col.classes["S:tie-at-bound"] += 1
                if info["both"]:
                    col.classes["S:grew-and-shrank"] += 1
                    col.nontrivial_bulk += 1
                    if kind == "pop-fast" and not col.samples and L >= 2:
                        col.samples.append(dict(inp, history_block0=[r[0] for r in rows]))
    col.extra["exhaustive_scale_histories"] = n
    return col


# -- Hypothesis histories --------------------------------------------------------------------------
THRESHOLDS = (0, 1, 2, 3, 5, 8, 10)  # a cell is accepted iff its digit (0-9) < threshold of its (phase, block)


def scale_strategy(beyond: bool = False):
    from hypothesis import strategies as st

    @st.composite
    def _c(draw):
        kind = draw(st.sampled_from(SAMPLER_KINDS))
        if kind == "ind-gibbs":
            shape = [draw(st.integers(1, 3))]
            n_pat = draw(st.integers(1, 6))
        else:
            shape = draw(st.sampled_from([[1], [2], [4], [1, 1], [2, 3], [3, 2], [1, 4]]))
            n_pat = 0
        nb = n_blocks_of(kind, shape, n_pat)
        L = draw(st.one_of(st.integers(1, 60 if beyond else 30), st.integers(1, 5)))
        den = 10000 if beyond else 1000
        band_kind = draw(st.sampled_from(["default", "free", "free", "tie"]))
        if band_kind == "default":
            lo, hi = 2 * den // 10, 4 * den // 10
        elif band_kind == "tie" and L >= 2:
            c1 = draw(st.integers(1, L - 1))
            lo = den * c1 // L if (den * c1) % L == 0 else draw(st.integers(1, den - 2))
            hi = draw(st.integers(lo + 1, den - 1))
            c2 = draw(st.integers(c1, L - 1))
            if (den * c2) % L == 0 and den * c2 // L > lo:
                hi = den * c2 // L
        else:
            lo = draw(st.integers(1, den - 2))
            hi = draw(st.integers(lo + 1, den - 1))
        f = draw(st.one_of(st.sampled_from([0.1, 0.5, 0.9, 0.01, 0.99]), st.floats(0.01, 0.99, allow_nan=False)))
        scale = draw(st.sampled_from([1.0, 0.01, 5.0, 250.0, 1e-4]))
        std0 = scale * (0.5 if kind == "ind-gibbs" else 0.01)
        m_max = max_events(std0, f)
        n_events = draw(st.integers(min(2, m_max), max(min(2, m_max), min(m_max, 8 if L <= 10 else 4))))
        n_calls = L * n_events + draw(st.integers(0, L - 1 if L > 1 else 0))
        if n_calls == 0:
            n_calls = 1 if m_max >= 1 or L > 1 else 0
        n_phases = n_calls // L + 1
        thr = [[draw(st.sampled_from(THRESHOLDS)) for _ in range(nb)] for _ in range(n_phases)]
        n_cells = max(1, min(n_calls * nb, 96))
        digits = draw(st.lists(st.integers(0, 9), min_size=n_cells, max_size=n_cells))
        return dict(engine="S-hyp", kind=kind, shape=shape, n_patients=n_pat, scale=scale, L=L, lo=lo, hi=hi, den=den, f=f,
                    n_calls=n_calls, thr=thr, digits=digits)

    return _c()


def rows_from_case(case):
    nb = n_blocks_of(case["kind"], case["shape"], case["n_patients"])
    if "bits" in case:
        return exh_rows(case["bits"], case["n_calls"], nb)
    L, thr, dg = case["L"], case["thr"], case["digits"]
    return [[1 if dg[(i * nb + j) % len(dg)] < thr[i // L][j] else 0 for j in range(nb)] for i in range(case["n_calls"])]


def body_scale(col: Collector, case):
    rows = rows_from_case(case)
    info = drive_sampler_direct(col, "scale-direct", case, case["kind"], case["shape"], case["n_patients"], case["scale"],
                                case["L"], case["lo"], case["hi"], case["den"], case["f"], rows)
    cl = ["S:kind:" + case["kind"]]
    nt = None
    if info is not None:
        if info["blocks"] > 1:
            cl.append("S:multi-block")
        if info["ties"]:
            cl.append("S:tie-at-bound")
        if info["grew"] and info["shrank"]:
            cl.append("S:grew-and-shrank-any-block")
        if info["both"]:
            cl.append("S:grew-and-shrank")
            nt = jhash(case)
        if info["events"] == 0:
            cl.append("S:no-adaptation-time-reached")
    col.case(classes=cl, nontrivial=nt, sample=dict(case, digits=case["digits"][:12]) if _samples_here(col) else None)


def shard_scale_hyp(seed: int, n_examples: int, beyond: bool = False, shard: int = 0):
    env.import_leaspy()
    col = Collector(PROP, f"S-hyp-{'beyond-' if beyond else ''}{shard}")
    drive(col, scale_strategy(beyond), body_scale, n_examples=n_examples, seed=shard_seed(seed, shard, 2 + int(beyond)), sub_check="scale-direct")
    return col


# ================================================================================================
# recorders for real runs ("recorded, not replaced")
# ================================================================================================
def _in_schedule_code(exc) -> bool:
    """True iff the exception passed through the code under test (annealing mix-in or the samplers' adaptation methods)."""
    import traceback

    for fr in traceback.extract_tb(exc.__traceback__):
        if fr.filename.endswith("algo_with_annealing.py") and "/leaspy/" in fr.filename:
            return True
        if "/leaspy/samplers/" in fr.filename and fr.name in ("_update_std", "_update_acceptation_rate"):
            return True
    return False


class SamplerRecorder:
    """Wraps `_update_acceptation_rate` and `_update_std` of one sampler instance; the real methods are called."""

    def __init__(self, sampler):
        self.s = sampler
        self.stds = [sampler.std.detach().clone().numpy().copy()]
        self.accs = []
        self.order_ok = True
        orig_acc, orig_std = sampler._update_acceptation_rate, sampler._update_std

        def upd_acc(accepted):
            self.accs.append(accepted.detach().clone().numpy().copy())
            return orig_acc(accepted)

        def upd_std():
            r = orig_std()
            self.stds.append(sampler.std.detach().clone().numpy().copy())
            if len(self.stds) - 1 != len(self.accs):
                self.order_ok = False
            return r

        sampler._update_acceptation_rate = upd_acc
        sampler._update_std = upd_std


def _band_of(params):
    lo, hi = params["band"]
    return dict(L=params["L"], lo=lo, hi=hi, den=1000, f=params["f"])


# ================================================================================================
# real fits
# ================================================================================================
def fit_strategy():
    from hypothesis import strategies as st

    from vf.core import gen

    @st.composite
    def _c(draw):
        cfg = draw(gen.model_cfg(kinds=("logistic", "linear"), dim=(1, 3)))
        feats = [f"f{j}" for j in range(cfg["kwargs"]["dimension"])]
        cohort = draw(gen.cohort(kind=gen.data_kind_for(cfg), n_ind=(3, 6), n_visits=(2, 4), features=feats, id_kinds=("s",),
                                 shuffle=False, missing=False))
        n_iter = draw(st.integers(1, 40))
        mode = draw(st.sampled_from(["frac", "frac", "frac", "count", "off", "default-block"]))
        if mode == "off":
            ann = dict(do_annealing=False)
        elif mode == "default-block":
            ann = dict(do_annealing=True)  # the shipped defaults: T0 10, 10 plateaus, half of the iterations (F16 class)
        else:
            ann = dict(do_annealing=True, initial_temperature=draw(st.sampled_from([1.5, 5, 10, 37.3, 2.0])),
                       n_plateau=draw(st.one_of(st.integers(1, 12), st.integers(2, 5))))
            if mode == "frac":
                ann["n_iter_frac"] = draw(st.sampled_from([0.1, 0.25, 0.5, 0.75, 1.0]))
            else:
                ann.update(n_iter=draw(st.integers(0, 45)), n_iter_frac=None)

        def sp():
            lo = draw(st.integers(50, 450))
            return dict(L=draw(st.integers(1, 8)), band=[lo, draw(st.integers(lo + 50, 900))], f=draw(st.sampled_from([0.05, 0.1, 0.3, 0.5])))

        return dict(engine="fit", cfg=cfg, cohort=cohort, n_iter=n_iter, ann=ann, sampler_pop=draw(st.sampled_from(["Gibbs", "FastGibbs", "Metropolis-Hastings"])),
                    pop=sp(), ind=sp(), seed=draw(st.integers(0, 50)),
                    twice=draw(st.sampled_from([False, False, True])))  # run the same algorithm object a second time

    return _c()


def _sampler_params(p, pop):
    d = dict(acceptation_history_length=p["L"], mean_acceptation_rate_target_bounds=[p["band"][0] / 1000, p["band"][1] / 1000],
             adaptive_std_factor=p["f"])
    if pop:
        d["random_order_dimension"] = True
    return d


def _judge_fit_run(col, sub, case, ref, rec, label=""):
    """Oracle for one recorded run of an algorithm object. Returns (info, scale_infos) or None if the run is not judgeable."""
    if rec["iters"] != list(range(1, case["n_iter"] + 1)) or len(rec["trace"]) != case["n_iter"] + 1:
        col.fail(sub, "iterations-not-all-run" + label, case, observed=f"temperature updates at iterations {rec['iters'][:50]}",
                 expected=f"one initialisation and one update per iteration 1..{case['n_iter']}")
        return None
    info = judge_temperature(col, sub, case, ref, rec["trace"], rec["invs"], label=label)
    info["trace_head"] = [float(t) for t in rec["trace"][:12]]
    # the inverse temperature handed to the samplers during iteration k is the one in force after iteration k-1
    for k, name, ti in rec["used"]:
        if not (1 <= k <= case["n_iter"]) or ti != rec["invs"][k - 1]:
            col.fail(sub, "samplers-receive-other-temperature" + label, case,
                     observed=f"iteration {k}{label}: sampler of {name} received temperature_inv={ti!r}",
                     expected=f"{rec['invs'][k - 1]!r} (inverse of the temperature after iteration {k - 1})" if 1 <= k <= case["n_iter"] else "iteration in range")
            break
    scale_infos = []
    for name, sr in sorted(rec["samplers"].items()):
        pop = not type(sr.s).__name__.startswith("Individual")
        p = case["pop"] if pop else case["ind"]
        if not sr.order_ok or len(sr.stds) != case["n_iter"] + 1:
            col.fail("fit-scale", "sampler-not-updated-once-per-iteration" + label, case,
                     observed=f"{name}: {len(sr.stds) - 1} std updates, {len(sr.accs)} acceptance updates",
                     expected=f"{case['n_iter']} of each, interleaved")
            continue
        si = judge_scales(col, "fit-scale", case, stds=sr.stds, accs=[a.astype("int64") for a in sr.accs],
                          label=":" + ("pop" if pop else "ind") + label, **_band_of(p))
        scale_infos.append(si)
    return info, scale_infos


def run_fit(col: Collector, case, sub="fit"):
    """One algorithm object built the way BaseModel.fit does (AlgorithmSettings -> algorithm_factory), `run` on a freshly initialised
    model; with case['twice'] the SAME object is run a second time on a second fresh, identical model."""
    from leaspy.algo import AlgorithmSettings, algorithm_factory
    from leaspy.exceptions import LeaspyAlgoInputError

    from vf.core import gen

    tcfg = dict(n_iter=case["n_iter"], ann=case["ann"])
    ref = ref_temperature_schedule(tcfg)
    out = dict(outcome=None, ref=ref, info={}, scale_infos=[])

    def fresh_model():
        df, data, ds = gen.dataset_from_case(case["cohort"])
        model = gen.build_model(case["cfg"])
        model.initialize(ds)
        return model, ds

    try:
        model, ds = fresh_model()
    except Exception as e:  # not the subject of this property
        col.exclude("model-initialisation-failed:" + type(e).__name__)
        out["outcome"] = "excluded"
        return out
    rec = {}

    def reset():
        rec.clear()
        rec.update(trace=[], invs=[], iters=[], samplers={}, used=[])

    reset()
    with warnings.catch_warnings():
        warnings.simplefilter("ignore")
        try:
            settings = AlgorithmSettings("mcmc_saem", n_iter=case["n_iter"], seed=case["seed"], progress_bar=False, annealing=dict(case["ann"]),
                                         sampler_pop=case["sampler_pop"], sampler_pop_params=_sampler_params(case["pop"], True),
                                         sampler_ind_params=_sampler_params(case["ind"], False))
            algo = algorithm_factory(settings)
        except LeaspyAlgoInputError as e:
            if ref["must_accept"]:
                col.fail(sub, "valid-config-refused:" + exc_bucket(e), case, observed=repr(e), expected="accepted")
            out["outcome"] = "refused"
            return out
        o_init, o_upd, o_inits = algo._initialize_annealing, algo._update_temperature, algo._initialize_samplers

        def w_init():
            r = o_init()
            rec["trace"].append(algo.temperature)
            rec["invs"].append(algo.temperature_inv)
            return r

        def w_upd():
            r = o_upd()
            rec["iters"].append(algo.current_iteration)
            rec["trace"].append(algo.temperature)
            rec["invs"].append(algo.temperature_inv)
            return r

        def w_sample(name, sampler):
            o_sample = sampler.sample

            def w(state, *, temperature_inv):
                rec["used"].append((algo.current_iteration, name, temperature_inv))
                return o_sample(state, temperature_inv=temperature_inv)

            sampler.sample = w

        def w_inits(state, dataset):
            r = o_inits(state, dataset)
            for name, s in algo.samplers.items():
                rec["samplers"][name] = SamplerRecorder(s)
                w_sample(name, s)
            return r

        algo._initialize_annealing, algo._update_temperature, algo._initialize_samplers = w_init, w_upd, w_inits
        n_runs = 2 if case.get("twice") else 1
        for run_no in range(1, n_runs + 1):
            label = "" if run_no == 1 else ":second-run"
            if run_no == 2:
                reset()
                try:
                    model, ds = fresh_model()
                except Exception as e:
                    col.exclude("model-initialisation-failed:" + type(e).__name__)
                    break
            try:
                with contextlib.redirect_stdout(io.StringIO()):
                    algo.run(model, ds)
            except LeaspyAlgoInputError as e:
                if run_no == 2:
                    col.fail(sub, "second-run-of-same-object-refused:" + exc_bucket(e), case, observed=repr(e),
                             expected="the object that ran once runs again")
                    break
                if rec["iters"]:
                    col.fail(sub, "refused-after-iterations-started:" + exc_bucket(e), case, observed=f"after iteration {rec['iters'][-1]}: {e!r}",
                             expected="refusal only at settings/initialisation time")
                elif ref["must_accept"]:
                    col.fail(sub, "valid-config-refused:" + exc_bucket(e), case, observed=repr(e), expected="accepted")
                out["outcome"] = "refused"
                return out
            except Exception as e:
                if _in_schedule_code(e):
                    col.fail(sub, "accepted-config-does-not-run" + label + ":" + exc_bucket(e), case,
                             observed=f"after {len(rec['iters'])} iterations{label}: {e!r}", expected=f"runs all {case['n_iter']} iterations")
                    if run_no == 1:
                        out["outcome"] = "crashed"
                        return out
                else:
                    # a fit that dies elsewhere (e.g. LeaspyConvergenceError of the model update on a tiny cohort) says nothing about the
                    # schedules: counted, not judged
                    col.exclude("fit-failed-outside-schedule-code:" + exc_bucket(e))
                    if run_no == 1:
                        out["outcome"] = "excluded"
                        return out
                break
            judged = _judge_fit_run(col, sub, case, ref, rec, label)
            if run_no == 1:
                out["outcome"] = "accepted"
                if judged is None:
                    return out
                out["info"], out["scale_infos"] = judged
            elif judged is not None:
                out["info"]["second_run"] = True
                out["scale_infos"] = out["scale_infos"] + judged[1]
    return out


def body_fit(col: Collector, case):
    out = run_fit(col, case)
    if out["outcome"] == "excluded":
        return
    ref, info = out["ref"], out["info"]
    cl = ["fit:" + out["outcome"]] + [c.replace("T:", "fit:") for c in _classes_temperature(dict(n_iter=case["n_iter"], ann=case["ann"]), ref,
                                                                                             out["outcome"], info)[1:]]
    if case["ann"] == dict(do_annealing=True):
        cl.append("fit:default-annealing-block")
    if any(si["grew"] or si["shrank"] for si in out["scale_infos"]):
        cl.append("fit:scale-adapted")
    if any(si["both"] for si in out["scale_infos"]):
        cl.append("fit:scale-grew-and-shrank")
    if any(si["grew"] or si["shrank"] for si in out["scale_infos"]) and (case["ind"]["f"] != 0.1 or case["pop"]["f"] != 0.1):
        cl.append("fit:scale-adapted-non-default-factor")
    nt = "fit:two-temperatures" in cl
    col.case(classes=cl, nontrivial=jhash([case["n_iter"], case["ann"], "fit"]) if nt else None,
             sample=dict(engine="fit", model=case["cfg"], n_iter=case["n_iter"], ann=case["ann"], sampler_pop=case["sampler_pop"],
                         trace_head=info.get("trace_head")) if _samples_here(col) else None)


def shard_fit(seed: int, n_examples: int, shard: int = 0):
    env.import_leaspy()
    col = Collector(PROP, f"fit-{shard}")
    drive(col, fit_strategy(), body_fit, n_examples=n_examples, seed=shard_seed(seed, shard, 4), sub_check="fit")
    return col


# ================================================================================================
# real personalizations (mean_posterior / mode_posterior): the annealing mix-in driven by the real personalization loop
# ================================================================================================
def perso_strategy():
    from hypothesis import strategies as st

    from vf.core import gen

    @st.composite
    def _c(draw):
        cfg = draw(gen.model_cfg(kinds=("logistic", "linear"), dim=(1, 3)))
        feats = [f"f{j}" for j in range(cfg["kwargs"]["dimension"])]
        cohort = draw(gen.cohort(kind=gen.data_kind_for(cfg), n_ind=(3, 6), n_visits=(2, 4), features=feats, id_kinds=("s",),
                                 shuffle=False, missing=False))
        n_iter = draw(st.integers(2, 60))
        # burn-in strictly shorter than the run (the algorithm needs at least one stored sample)
        if draw(st.booleans()):
            fr = draw(st.sampled_from([0.0, 0.1, 0.25, 0.5, 0.5, 0.75, 0.9]))
            while int(fr * n_iter) >= n_iter:
                fr = fr / 2
            burn = dict(n_burn_in_iter_frac=fr)
        else:
            burn = dict(n_burn_in_iter=draw(st.integers(0, n_iter - 1)), n_burn_in_iter_frac=None)
        mode = draw(st.sampled_from(["frac", "frac", "frac", "count", "count", "off", "default-block"]))
        if mode == "off":
            ann = dict(do_annealing=False)
        elif mode == "default-block":
            ann = dict(do_annealing=True)  # shipped defaults: T0 10, 10 plateaus, n_iter_frac 0.5 (= the default burn-in fraction)
        else:
            P = draw(st.one_of(st.integers(1, 12), st.integers(2, 5), st.integers(2, 5)))
            ann = dict(do_annealing=True, initial_temperature=draw(st.sampled_from([1.5, 2.0, 5, 10, 37.3])), n_plateau=P)
            if mode == "frac":
                ann["n_iter_frac"] = draw(st.sampled_from([0.1, 0.25, 0.5, 0.75, 1.0]))
            else:
                ann.update(n_iter=draw(st.one_of(st.integers(0, 70), st.integers(max(0, P - 2), min(70, 4 * P)))), n_iter_frac=None)
        lo = draw(st.integers(50, 450))
        ind = dict(L=draw(st.integers(1, 8)), band=[lo, draw(st.integers(lo + 50, 900))], f=draw(st.sampled_from([0.05, 0.1, 0.3, 0.5])))
        return dict(engine="P-real", algo=draw(st.sampled_from(["mean_posterior", "mode_posterior"])), cfg=cfg, cohort=cohort, n_iter=n_iter,
                    burn=burn, ann=ann, ind=ind, seed=draw(st.integers(0, 50)))

    return _c()


def run_perso(col: Collector, case, sub="perso"):
    """A real sampler-based personalization on a model initialised on the generated cohort. The temperature trace is what the
    samplers actually receive: (algo.temperature, temperature_inv argument) at every `sample` call of every iteration, plus the
    values left on the algorithm object at the end - independent of where the loop calls `_update_temperature`."""
    from leaspy.algo import AlgorithmSettings, algorithm_factory
    from leaspy.exceptions import LeaspyAlgoInputError

    from vf.core import gen

    ref = ref_temperature_schedule(dict(n_iter=case["n_iter"], ann=case["ann"]))
    out = dict(outcome=None, ref=ref, info={}, scale_infos=[], n_burn=None)
    try:
        df, data, ds = gen.dataset_from_case(case["cohort"])
        model = gen.build_model(case["cfg"])
        model.initialize(ds)
    except Exception as e:  # not the subject of this property
        col.exclude("model-initialisation-failed:" + type(e).__name__)
        out["outcome"] = "excluded"
        return out
    rec = dict(used=[], samplers={})
    with warnings.catch_warnings():
        warnings.simplefilter("ignore")
        try:
            settings = AlgorithmSettings(case["algo"], n_iter=case["n_iter"], seed=case["seed"], progress_bar=False, annealing=dict(case["ann"]),
                                         sampler_ind_params=_sampler_params(case["ind"], False), **case["burn"])
            algo = algorithm_factory(settings)
            out["n_burn"] = algo.algo_parameters["n_burn_in_iter"]
        except LeaspyAlgoInputError as e:
            if ref["must_accept"]:
                col.fail(sub, "valid-config-refused:" + exc_bucket(e), case, observed=repr(e), expected="accepted")
            out["outcome"] = "refused"
            return out
        o_inits = algo._initialize_samplers

        def w_sample(name, sampler):
            o_sample = sampler.sample

            def w(state, *, temperature_inv):
                rec["used"].append((algo.current_iteration, name, algo.temperature, temperature_inv))
                return o_sample(state, temperature_inv=temperature_inv)

            sampler.sample = w

        def w_inits(state, dataset):
            r = o_inits(state, dataset)
            for name, s in algo.samplers.items():
                rec["samplers"][name] = SamplerRecorder(s)
                w_sample(name, s)
            return r

        algo._initialize_samplers = w_inits
        try:
            with contextlib.redirect_stdout(io.StringIO()):
                algo.run(model, ds)
        except LeaspyAlgoInputError as e:
            if rec["used"]:
                col.fail(sub, "refused-after-iterations-started:" + exc_bucket(e), case, observed=f"after iteration {rec['used'][-1][0]}: {e!r}",
                         expected="refusal only at settings/initialisation time")
            elif ref["must_accept"]:
                col.fail(sub, "valid-config-refused:" + exc_bucket(e), case, observed=repr(e), expected="accepted")
            out["outcome"] = "refused"
            return out
        except Exception as e:
            if _in_schedule_code(e):
                col.fail(sub, "accepted-config-does-not-run:" + exc_bucket(e), case,
                         observed=f"after {len(rec['used'])} sampler calls: {e!r}", expected=f"runs all {case['n_iter']} iterations")
                out["outcome"] = "crashed"
            else:
                col.exclude("personalization-failed-outside-schedule-code:" + exc_bucket(e))
                out["outcome"] = "excluded"
            return out
    out["outcome"] = "accepted"
    n = case["n_iter"]
    per_iter = {}
    for k, name, t, ti in rec["used"]:
        per_iter.setdefault(k, []).append((name, t, ti))
    if sorted(per_iter) != list(range(1, n + 1)) or len({len(v) for v in per_iter.values()}) != 1:
        col.fail(sub, "iterations-not-all-run", case, observed=f"sampler calls at iterations {sorted(per_iter)[:60]}",
                 expected=f"every sampler called once in each iteration 1..{n}")
        return out
    for k in range(1, n + 1):
        if len({(t, ti) for _, t, ti in per_iter[k]}) != 1:
            col.fail(sub, "samplers-of-one-iteration-receive-different-temperatures", case, observed=f"iteration {k}: {per_iter[k]}",
                     expected="one temperature per iteration")
            return out
    # trace[k] = temperature in force after iteration k = the one handed to the samplers in iteration k+1; trace[n] = left on the object
    trace = [per_iter[k][0][1] for k in range(1, n + 1)] + [algo.temperature]
    invs = [per_iter[k][0][2] for k in range(1, n + 1)] + [algo.temperature_inv]
    out["info"] = judge_temperature(col, sub, case, ref, trace, invs)
    out["info"]["trace_head"] = [float(t) for t in trace[:12]]
    for name, sr in sorted(rec["samplers"].items()):
        if not sr.order_ok or len(sr.stds) != n + 1:
            col.fail("perso-scale", "sampler-not-updated-once-per-iteration", case,
                     observed=f"{name}: {len(sr.stds) - 1} std updates, {len(sr.accs)} acceptance updates", expected=f"{n} of each, interleaved")
            continue
        out["scale_infos"].append(judge_scales(col, "perso-scale", case, stds=sr.stds, accs=[a.astype("int64") for a in sr.accs],
                                               label=":ind", **_band_of(case["ind"])))
    return out


def body_perso(col: Collector, case):
    out = run_perso(col, case)
    if out["outcome"] == "excluded":
        return
    ref, info, nb = out["ref"], out["info"], out["n_burn"]
    cl = ["P:" + out["outcome"], "P:algo:" + case["algo"]]
    cl += [c.replace("T:", "P:") for c in _classes_temperature(dict(n_iter=case["n_iter"], ann=case["ann"]), ref, out["outcome"], info)[1:]]
    if out["outcome"] == "accepted" and ref["period"] is not None and nb is not None:
        # plateau boundaries at which the reference temperature really decreases, within the run
        bounds = [j * ref["period"] for j in range(1, ref["P"]) if j * ref["period"] <= min(ref["n_ann"], case["n_iter"])]
        if any(b <= nb for b in bounds):
            cl.append("P:boundary-inside-burn-in")
        if any(b > nb for b in bounds):
            cl.append("P:boundary-after-burn-in")
        if bounds and all(b <= nb for b in bounds):
            cl.append("P:all-boundaries-inside-burn-in")
    if any(si["grew"] or si["shrank"] for si in out["scale_infos"]):
        cl.append("P:scale-adapted")
    if any((si["grew"] or si["shrank"]) for si in out["scale_infos"]) and case["ind"]["f"] != 0.1:
        cl.append("P:scale-adapted-non-default-factor")
    nt = "P:two-temperatures" in cl
    col.case(classes=cl, nontrivial=jhash([case["algo"], case["n_iter"], case["burn"], case["ann"], "perso"]) if nt else None,
             sample=dict(engine="P-real", algo=case["algo"], model=case["cfg"], n_iter=case["n_iter"], burn=case["burn"], ann=case["ann"],
                         trace_head=info.get("trace_head")) if _samples_here(col) else None)


def shard_perso(seed: int, n_examples: int, shard: int = 0):
    env.import_leaspy()
    col = Collector(PROP, f"P-real-{shard}")
    drive(col, perso_strategy(), body_perso, n_examples=n_examples, seed=shard_seed(seed, shard, 6), sub_check="perso")
    return col


# ================================================================================================
# real sampler.sample calls on a live state
# ================================================================================================
def real_strategy():
    from hypothesis import strategies as st

    from vf.core import gen

    @st.composite
    def _c(draw):
        cfg = draw(gen.model_cfg(kinds=("logistic", "linear"), dim=(2, 3)))
        feats = [f"f{j}" for j in range(cfg["kwargs"]["dimension"])]
        cohort = draw(gen.cohort(kind=gen.data_kind_for(cfg), n_ind=(3, 5), n_visits=(2, 4), features=feats, id_kinds=("s",),
                                 shuffle=False, missing=False))
        kind = draw(st.sampled_from(SAMPLER_KINDS))
        L = draw(st.integers(1, 6))
        lo = draw(st.integers(50, 450))
        hi = draw(st.integers(lo + 50, 900))
        f = draw(st.sampled_from([0.1, 0.3, 0.5, 0.8]))
        # steer: initial scale multiplier; huge -> sharp target relative to the proposal -> rejections -> shrink; tiny -> acceptances -> grow
        steer = draw(st.sampled_from([1e-4, 1e-2, 1.0, 1e2, 1e4]))
        n_calls = draw(st.integers(2 * L, min(60, 12 * L)))
        return dict(engine="S-real", cfg=cfg, cohort=cohort, kind=kind, var_pick=draw(st.integers(0, 7)), L=L, band=[lo, hi], f=f, steer=steer,
                    n_calls=n_calls, temperature_inv=draw(st.sampled_from([1.0, 0.5, 0.1])), seed=draw(st.integers(0, 20)))

    return _c()


def body_real(col: Collector, case):
    import torch

    from leaspy.variables.specs import IndividualLatentVariable, PopulationLatentVariable

    from vf.core import gen

    try:
        m, ds, state = gen.live_state(case["cfg"], case["cohort"], latents="mode")
    except gen.InitRejected as e:
        col.exclude(str(e))
        return
    except Exception as e:
        col.exclude("model-initialisation-failed:" + type(e).__name__)
        return
    ind = case["kind"] == "ind-gibbs"
    vtype = IndividualLatentVariable if ind else PopulationLatentVariable
    names = sorted(state.dag.sorted_variables_by_type[vtype])
    name = names[case["var_pick"] % len(names)]
    var = state.dag[name]
    shape = tuple(var.get_prior_shape(state.dag))
    base = (var.sampling_kws or {}).get("scale")
    if base is None:
        base = var.prior.stddev.call(state) if ind else state[name].abs()
    base = torch.as_tensor(base, dtype=torch.float32)
    if not bool((base > 0).all()) or not bool(torch.isfinite(base).all()):
        col.exclude("non-positive-default-scale")
        return
    scale = base * case["steer"]
    std0_min = float(scale.min()) * (0.5 if ind else 0.01)
    std0_max = float(scale.max()) * (0.5 if ind else 0.01)
    if case["n_calls"] // case["L"] > min(max_events(std0_min, case["f"]), max_events(std0_max, case["f"])):
        col.exclude("scale-would-leave-float-range")
        return
    lo, hi = case["band"]
    from leaspy.samplers import (
        IndividualGibbsSampler,
        PopulationFastGibbsSampler,
        PopulationGibbsSampler,
        PopulationMetropolisHastingsSampler,
    )

    kw = dict(scale=scale, acceptation_history_length=case["L"], mean_acceptation_rate_target_bounds=(lo / 1000, hi / 1000),
              adaptive_std_factor=case["f"])
    if ind:
        s = IndividualGibbsSampler(name, shape, n_patients=ds.n_individuals, **kw)
    else:
        cls = {"pop-gibbs": PopulationGibbsSampler, "pop-fast": PopulationFastGibbsSampler, "pop-mh": PopulationMetropolisHastingsSampler}[case["kind"]]
        s = cls(name, shape, **kw)
    sr = SamplerRecorder(s)
    torch.manual_seed(case["seed"])
    import random

    random.seed(case["seed"])
    try:
        for _ in range(case["n_calls"]):
            s.sample(state, temperature_inv=case["temperature_inv"])
    except Exception as e:
        if _in_schedule_code(e):
            col.fail("scale-real", "unexpected-exception:" + exc_bucket(e), case, observed=f"call {len(sr.stds)}: {e!r}", expected="no exception")
        else:
            col.exclude("sample-failed-outside-schedule-code:" + exc_bucket(e))
        return
    if not sr.order_ok or len(sr.stds) != case["n_calls"] + 1 or len(sr.accs) != case["n_calls"]:
        col.fail("scale-real", "sampler-not-updated-once-per-sample", case, observed=f"{len(sr.stds) - 1} std updates, {len(sr.accs)} acceptance updates",
                 expected=f"{case['n_calls']} of each")
        return
    info = judge_scales(col, "scale-real", case, L=case["L"], lo=lo, hi=hi, den=1000, f=case["f"], stds=sr.stds,
                        accs=[a.astype("int64") for a in sr.accs])
    cl = ["S-real:kind:" + case["kind"], "S-real:var:" + name]
    if info["grew"] or info["shrank"]:
        cl.append("S-real:adapted")
    if info["grew"]:
        cl.append("S-real:grew")
    if info["shrank"]:
        cl.append("S-real:shrank")
    if info["both"]:
        cl.append("S-real:grew-and-shrank")
    if info["blocks"] > 1:
        cl.append("S-real:multi-block")
    col.case(classes=cl, nontrivial=jhash([case["kind"], name, case["L"], case["band"], case["f"], case["steer"], case["seed"], "real"]) if info["both"] else None,
             sample=dict(engine="S-real", kind=case["kind"], var=name, L=case["L"], band=case["band"], f=case["f"], steer=case["steer"],
                         n_calls=case["n_calls"], grew=info["grew"], shrank=info["shrank"]) if _samples_here(col) else None)


def shard_scale_real(seed: int, n_examples: int, shard: int = 0):
    env.import_leaspy()
    col = Collector(PROP, f"S-real-{shard}")
    drive(col, real_strategy(), body_real, n_examples=n_examples, seed=shard_seed(seed, shard, 5), sub_check="scale-real")
    return col


# ================================================================================================
# fixed regression cases (F16: fewer annealing iterations than plateaus - repaired by 31b33e7)
# ================================================================================================
F16_COHORT = dict(kind="logistic", features=["f0", "f1"], id_kind="s", miss_mode="complete", rows=[
    ["s0", 60.0, 0.20, 0.30], ["s0", 62.5, 0.28, 0.36], ["s0", 65.0, 0.41, 0.47], ["s0", 67.1, 0.50, 0.58],
    ["s1", 70.0, 0.35, 0.22], ["s1", 72.0, 0.44, 0.31], ["s1", 74.5, 0.58, 0.42],
    ["s2", 55.0, 0.12, 0.15], ["s2", 58.0, 0.19, 0.24], ["s2", 61.0, 0.33, 0.30],
    ["s3", 66.0, 0.52, 0.61], ["s3", 69.0, 0.66, 0.70], ["s3", 71.0, 0.71, 0.79]])


def f16_cases():
    """The reproducers of F16: the *default* annealing block with n_iter = 10 (n_ann 5 < 9 = n_plateau - 1) and neighbours."""
    sp = dict(L=25, band=[200, 400], f=0.1)
    base = dict(engine="fit", cfg=dict(kind="logistic", kwargs=dict(dimension=2, source_dimension=1, obs_models="gaussian-diagonal")),
                cohort=F16_COHORT, sampler_pop="Gibbs", pop=sp, ind=sp, seed=0, twice=True)
    return [
        dict(base, n_iter=10, ann=dict(do_annealing=True)),
        dict(base, n_iter=17, ann=dict(do_annealing=True)),  # n_ann 8 = n_plateau - 2
        dict(base, n_iter=18, ann=dict(do_annealing=True)),  # n_ann 9 = n_plateau - 1: first accepted default configuration
        dict(base, n_iter=12, ann=dict(do_annealing=True, n_plateau=4, n_iter=2, n_iter_frac=None, initial_temperature=5)),
    ]


def reproduce_f16(col: Collector):
    """Dedicated reproducer: before 31b33e7 these were accepted and died with ZeroDivisionError in _update_temperature at iteration 1."""
    for case in f16_cases():
        body_fit(col, case)
        cfg = dict(n_iter=case["n_iter"], ann=case["ann"])
        outcome, ref, info = run_direct(col, cfg, "direct")
        col.case(classes=_classes_temperature(cfg, ref, outcome, info) + ["T:f16-regression"])


def shard_regression(shard: str = ""):
    env.import_leaspy()
    col = Collector(PROP, "regression-f16")
    reproduce_f16(col)
    return col


# ================================================================================================
def shards(tier: str, seed: int):
    m = "vf.checks.c19"
    specs = []
    quick = tier == "quick"
    for s in range(8 if quick else 16):
        specs.append((m, "shard_fit", dict(seed=seed, n_examples=14 if quick else 400, shard=s)))
    for s in range(4 if quick else 16):
        specs.append((m, "shard_perso", dict(seed=seed, n_examples=30 if quick else 500, shard=s)))
    for s in range(4 if quick else 16):
        specs.append((m, "shard_scale_real", dict(seed=seed, n_examples=12 if quick else 250, shard=s)))
    n_parts = 8 if quick else 16
    for part in range(n_parts):
        specs.append((m, "shard_temp_grid", dict(part=part, n_parts=n_parts, n_iter_max=40 if quick else 80, p_max=12 if quick else 16,
                                                 extended=not quick)))
    for kind in SAMPLER_KINDS:
        specs.append((m, "shard_scale_exh", dict(kind=kind, l_max=4 if quick else 5, extra_windows=0)))
    for s in range(4 if quick else 8):
        specs.append((m, "shard_temp_hyp", dict(seed=seed, n_examples=250 if quick else 10000, shard=s)))
    for s in range(4 if quick else 8):
        specs.append((m, "shard_scale_hyp", dict(seed=seed, n_examples=250 if quick else 10000, beyond=False, shard=s)))
    for s in range(2 if quick else 8):
        specs.append((m, "shard_scale_hyp", dict(seed=seed, n_examples=150 if quick else 6000, beyond=True, shard=s)))
    specs.append((m, "shard_regression", dict()))
    return specs


def replay(sub_check: str, inp):
    env.import_leaspy()
    col = Collector(PROP, "replay")
    if sub_check == "direct":
        run_direct(col, inp, "direct")
    elif sub_check in ("fit", "fit-scale"):
        run_fit(col, inp)
    elif sub_check == "scale-direct":
        body_scale(col, inp) if "digits" in inp else drive_sampler_direct(
            col, "scale-direct", inp, inp["kind"], inp["shape"], inp["n_patients"], inp["scale"], inp["L"], inp["lo"], inp["hi"], inp["den"],
            inp["f"], rows_from_case(inp))
    elif sub_check == "scale-real":
        body_real(col, inp)
    elif sub_check in ("perso", "perso-scale"):
        run_perso(col, inp)
    return col.failures
