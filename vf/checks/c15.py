"""C15 - dependency-graph construction is exact.

Engines: (A) exhaustive enumeration of all digraphs on <=4 (quick) / 5 loop-free (thorough) labelled nodes
x 3 name assignments; (B) Hypothesis digraphs of 6-14 nodes in structured classes; (C) spec graphs of the
shipped model kinds incl. determinism across definition order and string-hash seeds.
Oracle: independent Floyd-Warshall closure + validity predicate.
"""
from __future__ import annotations

import itertools
import json
import os
import subprocess
import sys

from vf.core import env
from vf.core.harness import Collector, drive, exc_bucket, jhash, shard_seed

PROP = "C15"
RULE = (
    "graphs = every digraph on <=4 labelled nodes incl. self-loops (quick) / plus every loop-free digraph on 5 nodes "
    "(thorough), each under 3 name assignments; Hypothesis digraphs of 6-14 nodes (layered DAGs with diamonds and late "
    "roots) and deep chain-like graphs of 6-40 nodes (a path through all nodes plus skip edges), each possibly with one back edge, unknown name, isolated node, key mismatch; spec graphs of every shipped model kind. "
    "Non-trivial = acyclic accepted graph with a diamond (two distinct directed paths between a pair) and >=2 roots, "
    "or a rejected cyclic graph whose cycle is not reachable from any root; distinct by (names, edge set)."
)
ASSUMPTIONS = [
    "Reference closure is an independent Floyd-Warshall on the edge list; validity = known endpoints, no self-loop, no isolated node, acyclic.",
    "Refusal = any ValueError-family exception (LeaspyInputError is a ValueError); any other exception or a returned object for an invalid graph is a violation.",
    "Determinism is checked against re-insertion orders, shuffled frozenset construction and PYTHONHASHSEED in {0,1,2,3} sub-processes.",
]
REQUIRED_CLASSES = {"valid": 0.0005, "cyclic": 0.02, "diamond": 0.0005, "sampled:deep-chain": 150, "sampled:definitions-as-functions": 150,
                    "sampled:names-equal-up-to-case": 100}

NAME_SETS = {
    "asc": ["a", "b", "c", "d", "e"],
    "desc": ["e", "d", "c", "b", "a"],
    "mixed": ["m", "Z", "k_1", "B", "a0"],
}


# ------------------------------------------------------------------------------------------------
# oracle
# ------------------------------------------------------------------------------------------------
def ref_closure(nodes, edges):
    """edges: list of (ancestor, child). Returns (reach dict ancestor->set(descendants), cyclic flag)."""
    idx = {n: i for i, n in enumerate(nodes)}
    n = len(nodes)
    r = [[False] * n for _ in range(n)]
    for a, b in edges:
        if a in idx and b in idx:
            r[idx[a]][idx[b]] = True
    for k in range(n):
        rk = r[k]
        for i in range(n):
            if r[i][k]:
                ri = r[i]
                for j in range(n):
                    if rk[j]:
                        ri[j] = True
    cyclic = any(r[i][i] for i in range(n))
    reach = {nodes[i]: {nodes[j] for j in range(n) if r[i][j]} for i in range(n)}
    return reach, cyclic


def classify(nodes, edges, keys=None):
    nodeset = set(nodes)
    unknown = any(a not in nodeset or b not in nodeset for a, b in edges)
    selfloop = any(a == b for a, b in edges)
    touched = {a for a, _ in edges} | {b for _, b in edges}
    isolated = any(n not in touched for n in nodes)
    reach, cyclic = ref_closure(nodes, [(a, b) for a, b in edges if a != b])
    key_mismatch = keys is not None and set(keys) != nodeset
    valid = not (unknown or selfloop or isolated or cyclic or key_mismatch)
    return dict(unknown=unknown, selfloop=selfloop, isolated=isolated, cyclic=cyclic or selfloop,
                key_mismatch=key_mismatch, valid=valid, reach=reach)


def has_diamond(nodes, edges, reach):
    """two distinct directed paths between some pair <=> some node has two direct children c1, c2 (or child & target)
    such that target reachable via both."""
    ch = {n: set() for n in nodes}
    for a, b in edges:
        ch[a].add(b)
    for a in nodes:
        cs = sorted(ch[a])
        for t in nodes:
            cnt = sum(1 for c in cs if c == t or t in reach[c])
            if cnt >= 2:
                return True
    return False


def _mk_vars(names):
    from leaspy.variables.specs import IndepVariable

    return {n: IndepVariable() for n in names}


def _mk_fn(params, n_defaults: int, use_partial: bool):
    """A definition as the user writes it: a function whose keyword-only parameters are variable names. Every keyword-only
    parameter is a dependency (LinkedVariable: 'keyword arguments matching the variable names'), with or without a default
    value, also when the default comes from functools.partial."""
    import functools

    params = list(params)
    defaulted = set(params[:n_defaults])
    if use_partial and defaulted:
        f = eval("lambda *, " + ", ".join(params) + ": 0.0")
        return functools.partial(f, **{q: 1.0 for q in defaulted})
    return eval("lambda *, " + ", ".join(q + ("=1.0" if q in defaulted else "") for q in sorted(params, key=lambda q: q in defaulted)) + ": 0.0")


def _mk_linked_defs(nodes, anc, variant: int):
    from leaspy.variables.specs import IndepVariable, LinkedVariable

    defs = {}
    for i, n in enumerate(nodes):
        a = sorted(anc.get(n, ()))
        if not a:
            defs[n] = IndepVariable()
        else:
            k = (variant + i) % 3  # 0: no default, 1: one defaulted parameter, 2: all but one defaulted
            nd = 0 if k == 0 else (1 if k == 1 else max(0, len(a) - 1))
            defs[n] = LinkedVariable(_mk_fn(a, nd, use_partial=((variant + i) % 2 == 1)))
    return defs


def check_graph(col: Collector, nodes, edges, *, keys=None, sub_check="graph", record=True, count=True, linked=None):
    """Build the DAG with the real code and compare with the reference. Returns classification.
    linked=<int>: the graph is given as definitions (IndepVariable / LinkedVariable over generated functions) to from_dict."""
    from leaspy.variables.dag import VariablesDAG

    info = classify(nodes, edges, keys)
    anc = {n: set() for n in (keys if keys is not None else nodes)}
    for a, b in edges:
        anc.setdefault(b, set()).add(a) if keys is None or b in anc else None
    if keys is None:
        # children named in edges but not in nodes cannot be expressed as keys without adding the node:
        # the "unknown" class is an unknown *ancestor*
        anc = {n: anc.get(n, set()) for n in nodes}
    inp = dict(nodes=list(nodes), edges=[list(e) for e in edges], keys=None if keys is None else list(keys))
    # dependencies may be handed over as plain (mutable) sets: the definitions must come back untouched
    mutable = (len(edges) + len(nodes)) % 3 == 0
    given = {k: (set(v) if mutable else frozenset(v)) for k, v in anc.items()}
    given_copy = {k: frozenset(v) for k, v in given.items()}
    try:
        if linked is not None:
            dag = VariablesDAG.from_dict(_mk_linked_defs(nodes, given_copy, linked))
        else:
            dag = VariablesDAG(_mk_vars(nodes), direct_ancestors=given)
        if {k: frozenset(v) for k, v in given.items()} != given_copy:
            col.fail(sub_check, "definitions-modified-by-construction", inp, observed={k: sorted(v) for k, v in given.items()},
                     expected={k: sorted(v) for k, v in given_copy.items()})
            return info
        if {k: frozenset(v) for k, v in dag.direct_ancestors.items()} != given_copy:
            col.fail(sub_check, "reported-direct-ancestors-differ-from-definitions", inp, observed={k: sorted(v) for k, v in dag.direct_ancestors.items()},
                     expected={k: sorted(v) for k, v in given_copy.items()})
            return info
    except ValueError as e:
        if info["valid"]:
            col.fail(sub_check, f"valid-graph-refused:{exc_bucket(e)}", inp, observed=repr(e), expected="construction succeeds")
        return info
    except Exception as e:
        col.fail(sub_check, f"unexpected-exception:{exc_bucket(e)}", inp, observed=repr(e),
                 expected="ValueError-family refusal" if not info["valid"] else "construction succeeds")
        return info
    if not info["valid"]:
        why = [k for k in ("unknown", "selfloop", "isolated", "cyclic", "key_mismatch") if info[k]]
        col.fail(sub_check, "invalid-graph-accepted:" + "+".join(why), inp, observed="constructed", expected="ValueError-family refusal")
        return info
    reach = info["reach"]
    order = dag.sorted_variables_names
    pos = {n: i for i, n in enumerate(order)}
    if sorted(order) != sorted(nodes) or len(order) != len(nodes):
        col.fail(sub_check, "order-not-permutation", inp, observed=order, expected=sorted(nodes))
        return info
    for a, b in edges:
        if pos[a] >= pos[b]:
            col.fail(sub_check, "order-violates-dependency", inp, observed=order, expected=f"{a} before {b}")
            return info
    anc_ref = {n: {m for m in nodes if n in reach[m]} for n in nodes}
    for n in nodes:
        sc, sa = dag.sorted_children[n], dag.sorted_ancestors[n]
        if set(sc) != reach[n] or len(sc) != len(reach[n]):
            col.fail(sub_check, "children-not-exact", inp, observed={n: sc}, expected=sorted(reach[n]))
            return info
        if set(sa) != anc_ref[n] or len(sa) != len(anc_ref[n]):
            col.fail(sub_check, "ancestors-not-exact", inp, observed={n: sa}, expected=sorted(anc_ref[n]))
            return info
        if [pos[x] for x in sc] != sorted(pos[x] for x in sc):
            col.fail(sub_check, "children-not-in-order", inp, observed={n: sc}, expected=order)
            return info
        if [pos[x] for x in sa] != sorted(pos[x] for x in sa):
            col.fail(sub_check, "ancestors-not-in-order", inp, observed={n: sa}, expected=order)
            return info
        dc = {b for a, b in edges if a == n}
        if set(dag.direct_children[n]) != dc:
            col.fail(sub_check, "direct-children-not-inverse", inp, observed={n: sorted(dag.direct_children[n])}, expected=sorted(dc))
            return info
    info["order"] = order
    return info


def nontrivial_of(nodes, edges, info):
    if info["valid"]:
        roots = [n for n in nodes if not any(b == n for _, b in edges)]
        if len(roots) >= 2 and has_diamond(nodes, edges, info["reach"]):
            return "diamond"
        return None
    if info["cyclic"] and not (info["unknown"] or info["isolated"] or info["key_mismatch"]):
        roots = [n for n in nodes if not any(b == n for _, b in edges)]
        on_cycle = [n for n in nodes if n in info["reach"][n] or any(a == b == n for a, b in edges)]
        reachable = set(roots)
        for r in roots:
            reachable |= info["reach"][r]
        if on_cycle and not any(n in reachable for n in on_cycle):
            return "hidden-cycle"
    return None


# ------------------------------------------------------------------------------------------------
# engine A: exhaustive
# ------------------------------------------------------------------------------------------------
def shard_exhaustive(n_nodes: int, loops: bool, part: int, n_parts: int, nameset: str, shard: str = ""):
    env.import_leaspy()
    col = Collector(PROP, f"exh-n{n_nodes}-{'loops' if loops else 'noloops'}-{nameset}-{part}/{n_parts}")
    names = NAME_SETS[nameset][:n_nodes]
    pairs = [(i, j) for i in names for j in names if loops or i != j]
    total = 2 ** len(pairs)
    lo, hi = total * part // n_parts, total * (part + 1) // n_parts
    for bits in range(lo, hi):
        edges = [p for k, p in enumerate(pairs) if bits >> k & 1]
        info = check_graph(col, names, edges)
        nt = nontrivial_of(names, edges, info)
        col.evaluations += 1
        cl = col.classes
        cl["valid" if info["valid"] else "invalid"] += 1
        if info["cyclic"]:
            cl["cyclic"] += 1
        if info["isolated"]:
            cl["isolated"] += 1
        if nt:
            cl[nt.replace("hidden-cycle", "cycle-unreachable-from-roots")] += 1
            col.nontrivial_bulk += 1
            if len(col.samples) < 2 and bits % 97 == 0:
                col.samples.append(dict(engine="exhaustive", nodes=names, edges=edges, kind=nt,
                                        order=list(info.get("order", []))))
    col.extra[f"exhaustive_graphs_n{n_nodes}_{'loops' if loops else 'noloops'}"] = hi - lo
    return col


# ------------------------------------------------------------------------------------------------
# engine B: Hypothesis, larger graphs
# ------------------------------------------------------------------------------------------------
def graph_strategy():
    from hypothesis import strategies as st

    @st.composite
    def _g(draw):
        shape = draw(st.sampled_from(["layered", "layered", "chain"]))
        n = draw(st.integers(6, 14)) if shape == "layered" else draw(st.integers(6, 40))
        alphabet = ["v%02d" % i for i in range(60)] + ["A", "b", "Zz", "x_1", "x_10", "x_2", "é", "nll_attach", "0"]
        naming = draw(st.sampled_from(["plain", "plain", "case-twins"]))
        if naming == "case-twins":  # names that differ by case only (t / T, xi / Xi / XI): still distinct variables with one fixed order
            bases = ["t", "x", "xi", "tau", "g", "s", "k", "m", "nu", "rho", "v", "w", "y", "z", "ab", "cd", "ef", "gh"]
            alphabet = sorted({c for b in bases for c in (b, b.upper(), b.capitalize())})
        names = draw(st.lists(st.sampled_from(alphabet), min_size=n, max_size=n, unique=True))
        # layered DAG along a drawn hidden order
        hidden = draw(st.permutations(names))
        edges = set()
        if shape == "chain":
            # long dependency chains (deep graphs): a path through all nodes plus a few skip edges
            for j in range(1, n):
                edges.add((hidden[j - 1], hidden[j]))
            for _ in range(draw(st.integers(0, 4))):
                a = draw(st.integers(0, n - 2))
                b = draw(st.integers(a + 1, n - 1))
                edges.add((hidden[a], hidden[b]))
        for j in range(1, n if shape == "layered" else 1):
            k = draw(st.integers(0, min(3, j)))
            if k:
                for a in draw(st.lists(st.integers(0, j - 1), min_size=k, max_size=k, unique=True)):
                    edges.add((hidden[a], hidden[j]))
        # make sure no isolated node (construction, not rejection): attach isolated to a neighbour in hidden order
        touched = {a for a, _ in edges} | {b for _, b in edges}
        for i, v in enumerate(hidden):
            if v not in touched:
                if i > 0:
                    edges.add((hidden[i - 1], v))
                else:
                    edges.add((v, hidden[1]))
                touched |= {v, hidden[max(i - 1, 0)], hidden[1]}
        kind = draw(st.sampled_from(["dag", "dag", "dag", "back-edge", "self-loop", "unknown", "isolated", "key-mismatch"]))
        keys = None
        nodes = list(names)
        edges = sorted(edges)
        if kind == "back-edge":
            # add an edge from a descendant back to one of its ancestors
            a, b = draw(st.sampled_from(edges))
            reach, _ = ref_closure(nodes, edges)
            targets = sorted(reach[b] | {b})
            t = draw(st.sampled_from(targets))
            edges = sorted(set(edges) | {(t, a)})
        elif kind == "self-loop":
            v = draw(st.sampled_from(nodes))
            edges = sorted(set(edges) | {(v, v)})
        elif kind == "unknown":
            v = draw(st.sampled_from(nodes))
            edges = sorted(set(edges) | {("__unknown__", v)})
        elif kind == "isolated":
            nodes = nodes + ["lonely"]
        elif kind == "key-mismatch":
            keys = nodes[:-1] if draw(st.booleans()) else nodes + ["extra_key"]
        order = draw(st.permutations(nodes))
        linked = draw(st.sampled_from([None, None, 0, 1, 2, 3, 4, 5]))
        return dict(nodes=list(order), edges=[list(e) for e in edges], keys=keys, kind=kind, shape=shape, naming=naming, linked=linked)

    return _g()


def body_sampled(col: Collector, case):
    nodes, edges, keys = case["nodes"], [tuple(e) for e in case["edges"]], case.get("keys")
    if keys is not None:
        # key mismatch: express through direct construction (edges to unknown keys dropped)
        edges_k = [(a, b) for a, b in edges if b in set(keys)]
        info = check_graph(col, nodes, edges_k, keys=keys, sub_check="sampled")
    else:
        import keyword

        linked = case.get("linked")
        if linked is not None and not all(q.isidentifier() and not keyword.iskeyword(q) for q in set(nodes) | {a for a, _ in edges}):
            linked = None  # a definition written as a function needs identifiers
        info = check_graph(col, nodes, edges, sub_check="sampled", linked=linked)
    classes = ["sampled:" + case.get("kind", "?"), "valid" if info["valid"] else "invalid"]
    if keys is None and linked is not None:
        classes.append("sampled:definitions-as-functions")
    if case.get("naming") == "case-twins":
        low = [q.casefold() for q in nodes]
        if len(set(low)) < len(low):
            classes.append("sampled:names-equal-up-to-case")
    if case.get("shape") == "chain":
        classes.append("sampled:deep-chain")
    if info["cyclic"]:
        classes.append("cyclic")
    nt = nontrivial_of(nodes, edges, info) if keys is None else None
    if nt == "diamond":
        classes.append("diamond")
    if nt == "hidden-cycle":
        classes.append("cycle-unreachable-from-roots")
    # determinism under re-insertion order / shuffled frozensets (valid graphs)
    if info["valid"] and "order" in info:  # (no "order" when the graph oracle already recorded a failure)
        from leaspy.variables.dag import VariablesDAG

        rev = list(reversed(nodes))
        anc = {n: [a for a, b in edges if b == n] for n in rev}
        dag2 = VariablesDAG(_mk_vars(rev), direct_ancestors={k: frozenset(reversed(v)) for k, v in anc.items()})
        if tuple(dag2.sorted_variables_names) != tuple(info["order"]):
            col.fail("sampled", "order-depends-on-insertion-order", case, observed=dag2.sorted_variables_names, expected=info["order"])
    col.case(classes=classes, nontrivial=(jhash([sorted(nodes), sorted(edges)]) if nt else None),
             sample=dict(engine="hypothesis", **case, order=list(info.get("order", []))))


def shard_sampled(seed: int, n_examples: int, shard: int = 0):
    env.import_leaspy()
    col = Collector(PROP, f"sampled-{shard}")
    drive(col, graph_strategy(), body_sampled, n_examples=n_examples, seed=shard_seed(seed, shard), sub_check="sampled")
    return col


# ------------------------------------------------------------------------------------------------
# engine C: model graphs
# ------------------------------------------------------------------------------------------------
def model_configs():
    cfgs = []
    for kind in ("logistic", "linear", "shared_speed_logistic"):
        for dim, sd in ((1, 0), (2, 0), (2, 1), (3, 2), (4, 3)):
            for noise in ("gaussian-scalar", "gaussian-diagonal"):
                if kind == "shared_speed_logistic" and dim == 1:
                    continue
                cfgs.append((kind, dict(dimension=dim, source_dimension=sd, obs_models=noise)))
    cfgs.append(("logistic", dict(dimension=2, source_dimension=1, obs_models="bernoulli")))
    for dim, sd in ((1, 0), (2, 1), (3, 2)):
        cfgs.append(("joint", dict(dimension=dim, source_dimension=sd, nb_events=1)))
    for dim, sd, k in ((2, 1, 2), (3, 2, 3)):
        cfgs.append(("mixture_logistic", dict(dimension=dim, source_dimension=sd, n_clusters=k, obs_models="gaussian-diagonal")))
    return cfgs


def _model_graph(kind, kw):
    from leaspy.models.factory import model_factory
    from leaspy.variables.dag import VariablesDAG

    m = model_factory(kind, **kw)
    specs = m.get_variables_specs()
    dag = VariablesDAG.from_dict(specs)
    return specs, dag


def shard_models(shard: int = 0, n_parts: int = 1):
    env.import_leaspy()
    from leaspy.variables.dag import VariablesDAG

    col = Collector(PROP, f"models-{shard}")
    cfgs = model_configs()
    for i, (kind, kw) in enumerate(cfgs):
        if i % n_parts != shard:
            continue
        try:
            specs, dag = _model_graph(kind, kw)
        except Exception as e:
            col.exclude(f"model-not-constructible:{kind}:{type(e).__name__}")
            continue
        nodes = list(specs.keys())
        edges = [(a, n) for n in nodes for a in specs[n].get_ancestors_names()]
        info = classify(nodes, edges)
        inp = dict(model=kind, kwargs=kw)
        # reuse the graph oracle on the real spec graph (names + edges), then compare with the model's own DAG
        info2 = check_graph(col, nodes, edges, sub_check="model-graph")
        if info2["valid"] and "order" in info2:
            if tuple(info2["order"]) != tuple(dag.sorted_variables_names):
                col.fail("model-graph", "order-differs-from-indep-rebuild", inp, observed=dag.sorted_variables_names, expected=info2["order"])
            # reinsertion in reversed definition order
            rev = {k: specs[k] for k in reversed(nodes)}
            dag_r = VariablesDAG.from_dict(rev)
            if tuple(dag_r.sorted_variables_names) != tuple(dag.sorted_variables_names) or any(
                dag_r.sorted_children[n] != dag.sorted_children[n] or dag_r.sorted_ancestors[n] != dag.sorted_ancestors[n] for n in nodes
            ):
                col.fail("model-graph", "order-depends-on-insertion-order", inp, observed=dag_r.sorted_variables_names, expected=dag.sorted_variables_names)
        nt = nontrivial_of(nodes, edges, info)
        col.case(classes=["model:" + kind, "valid" if info["valid"] else "invalid"] + (["diamond"] if nt == "diamond" else []),
                 nontrivial=jhash([kind, kw]) if nt else None,
                 sample=dict(engine="model", model=kind, kwargs=kw, n_nodes=len(nodes), n_edges=len(edges),
                             order_head=list(dag.sorted_variables_names[:8])))
    return col


_HASH_SNIPPET = r"""
import json, sys, hashlib, warnings
warnings.filterwarnings('ignore')
import leaspy.models
from vf.checks.c15 import model_configs, _model_graph
out = {}
for kind, kw in model_configs():
    try:
        specs, dag = _model_graph(kind, kw)
    except Exception as e:
        out[json.dumps([kind, kw], sort_keys=True)] = 'ERR:' + type(e).__name__
        continue
    rep = repr((dag.sorted_variables_names, [(k, dag.sorted_children[k], dag.sorted_ancestors[k]) for k in dag.sorted_variables_names]))
    out[json.dumps([kind, kw], sort_keys=True)] = hashlib.sha1(rep.encode()).hexdigest()
print(json.dumps(out))
"""


def shard_hashseed(shard: int = 0):
    """Same definitions, different string-hash seeds -> identical order (sub-processes)."""
    col = Collector(PROP, "hashseed")
    outs = {}
    for hs in ("0", "1", "2", "3"):
        p = subprocess.run([sys.executable, "-c", _HASH_SNIPPET], env=env.child_env({"PYTHONHASHSEED": hs}),
                           capture_output=True, text=True, timeout=600)
        if p.returncode != 0:
            raise RuntimeError(f"hash-seed sub-process failed: {p.stderr[-2000:]}")
        outs[hs] = json.loads(p.stdout.strip().splitlines()[-1])
    ref = outs["0"]
    for key in ref:
        vals = {hs: outs[hs][key] for hs in outs}
        if len(set(vals.values())) != 1:
            col.fail("hashseed", "order-depends-on-hash-seed", dict(model=json.loads(key)), observed=vals, expected="identical digests")
        col.case(classes=["hashseed-model"], nontrivial="hs:" + key,
                 sample=dict(engine="hashseed", model=json.loads(key), digests=vals))
    return col


# ------------------------------------------------------------------------------------------------
def shards(tier: str, seed: int):
    m = "vf.checks.c15"
    specs = []
    for ns in NAME_SETS:
        for n in (1, 2, 3):
            specs.append((m, "shard_exhaustive", dict(n_nodes=n, loops=True, part=0, n_parts=1, nameset=ns)))
        for part in range(4):
            specs.append((m, "shard_exhaustive", dict(n_nodes=4, loops=True, part=part, n_parts=4, nameset=ns)))
    if tier == "thorough":
        for ns in NAME_SETS:
            for part in range(16):
                specs.append((m, "shard_exhaustive", dict(n_nodes=5, loops=False, part=part, n_parts=16, nameset=ns)))
    n_ex = 150 if tier == "quick" else 3000
    for s in range(8 if tier == "quick" else 16):
        specs.append((m, "shard_sampled", dict(seed=seed, n_examples=n_ex, shard=s)))
    for s in range(4):
        specs.append((m, "shard_models", dict(shard=s, n_parts=4)))
    specs.append((m, "shard_hashseed", dict()))
    return specs


def replay(sub_check: str, inp):
    env.import_leaspy()
    col = Collector(PROP, "replay")
    if sub_check in ("graph", "sampled"):
        nodes, edges, keys = inp["nodes"], [tuple(e) for e in inp["edges"]], inp.get("keys")
        if sub_check == "sampled":
            body_sampled(col, inp)
        else:
            check_graph(col, nodes, edges, keys=keys, sub_check=sub_check)
    elif sub_check == "model-graph":
        kind, kw = inp["model"], inp["kwargs"]
        specs, dag = _model_graph(kind, kw)
        nodes = list(specs.keys())
        edges = [(a, n) for n in nodes for a in specs[n].get_ancestors_names()]
        check_graph(col, nodes, edges, sub_check="model-graph")
    elif sub_check == "hashseed":
        return shard_hashseed().failures
    return col.failures
