"""C20 - benchmark models implement their documented estimators.

Engine K (constant model): Hypothesis cohorts (unsorted rows, missing cells, a feature entirely missing for an
individual, fully missing visits, single visits, ties) x the four prediction types x requested ages (lists, arrays,
tuples, MultiIndex). Oracle: float64 pandas reference (value at the largest age / at the largest age where the feature
is known / skip-NaN maximum / skip-NaN mean; NaN iff the feature was never observed), expected at EVERY requested age,
shape (n_ages, n_features). The per-individual estimator `_get_feature_values` is additionally driven directly with
the rows in table (unsorted) order, because the data reader sorts visits before the public path sees them.

Engine L (linear mixed-effects benchmark): univariate cohorts generated from a true mixed model x with/without random
slope x with/without forced independence. Oracles: (1) statsmodels MixedLM refit in the harness, fed with the float32
numbers the Dataset holds (cast to float64) and its own float64 normalisation -> the model's fitted parameters reach the
refit's log-likelihood and the personalised random effects equal `random_effects` on the training individuals; (2) the conditional mean E[b|y] = Psi Z'(Z Psi Z' + I)^-1 r in float64 from the model's fitted variance
components (cov_re / noise_std^2) for training AND new individuals; (3) trajectories = the straight line
fe0 + re0 + (fe1 + re1)(age - mean)/std at every requested age, plus a parameter-free three-point affinity test.
"""
from __future__ import annotations

import contextlib
import io
import math
import warnings

from hypothesis import strategies as st

from vf.core import env, gen
from vf.core.harness import Collector, drive, exc_bucket, jhash, shard_seed

PROP = "C20"
MOD = "vf.checks.c20"
RULE = (
    "Constant model: Hypothesis cohorts of 1-6 individuals x 1-7 visits (ages positive, all negative or of mixed sign per individual) x 1-4 features (value modes unit/wide/ties/float64; "
    "missing-data modes none/sparse/NaN at the last visit/feature entirely missing/visit entirely missing; table rows sorted, "
    "reversed or permuted; DataFrame/Data/Dataset input; fully missing visits dropped (default) or kept), each evaluated under "
    "all four prediction types, through personalize+estimate (dict of list/array/tuple ages or MultiIndex) and through the "
    "per-individual estimator on the rows in table order. One evaluation = (cohort, prediction type). Non-trivial = an individual "
    "with >= 3 visits whose table rows are not in ascending age order and whose last visit misses a feature that is observed at an "
    "earlier visit; distinct by (table, prediction type, drop option). "
    "LME: cohorts of 8-24 (quick) / 8-40 (thorough) individuals x 2-6 visits drawn from fe + random intercept (sd 0.2-1) + random "
    "slope (sd 0 or 0.15-0.6, correlated or not) + noise (sd 0.03-0.2), 1/8 of the values missing, x with_random_slope_age x "
    "force_independent_random_effects x ingestion with the reader default or with drop_full_nan=False (visits without value reach fit and "
    "personalisation), plus a small cohort of new individuals (1-4 visits, ingested the same way). One evaluation = one fitted cohort. "
    "Non-trivial = random-slope model fitted on >= 10 individuals; distinct by the whole case. "
    "Reuse histories: one ConstantModel object personalising 2-3 cohorts whose columns are the same features permuted / the same / other features "
    "(one or all four prediction types per step), every step judged by the same oracle as a fresh model; one LMEModel object through "
    "fit [personalize] [estimate] (fit | load_parameters on another cohort) [personalize] estimate [...]: parameters, random effects and trajectories "
    "must equal those of a fresh model fitted on the current cohort and the line of the CURRENT parameters (non-trivial = estimate after a parameter change that followed an estimate)."
)
ASSUMPTIONS = [
    "Constant model: a visit whose features are all missing is dropped by the documented default of the data reader (drop_full_nan=True), "
    "so 'last' refers to the last visit the Data object holds; with drop_full_nan=False the visit is kept and 'last' is NaN for every feature.",
    "Constant model: the accepted setting value is the enum's 'last-known' (the docstrings say 'last_known', which the enum refuses - documentation slip, not judged).",
    "Constant comparisons: |observed - expected| <= 2e-6 * max|value of that individual and feature| (+1e-40 for float32 underflow; float32 storage, the mean is accumulated in float32); NaN must match NaN.",
    "Requested ages are non-empty lists/arrays/tuples, a bare scalar for a single age (accepted by both models since /repo 50978f9), or a MultiIndex without "
    "repeated pairs; an empty list is excluded by construction (see shard_edges: shape (0,) / ValueError) - the statement is vacuous for zero ages.",
    "LME reference data are the table values rounded like the reader (ages to 6 digits) and cast to float32 then float64; ages_mean / ages_std are the "
    "population mean / std-dev (numpy default, ddof=0) of the retained ages, compared with rtol 2e-5.",
    "LME vs statsmodels: judged only when the harness refit raises no convergence/boundary/singularity/runtime warning and both unscaled random-effects "
    "covariances (the refit's and the model's own) have condition number <= 1e4 (counted otherwise: 5-10 % of the cohorts). "
    "(a) the model's fe_params and cov_re/noise_std^2 must reach the refit's restricted log-likelihood (evaluated by statsmodels on the reference data) "
    "within 5e-4 + 1e-6*|llf|, and cov_re must be diagonal under force_independent_random_effects; (b) the personalised random effects must equal "
    "`fitted.random_effects` within 2e-6 + 1e-5 * max|random effect in the cohort|. When the random effects disagree because the two fitted parameter sets "
    "differ, or (a) fails: then a second-opinion refit on the float32 pipeline of the Dataset (float32 normalisation, float32 arrays, individuals in Dataset order = first appearance among the ingested rows, which under drop_full_nan=False includes visits without value) decides - "
    "parameters reproduced to 1e-8 relative and random effects equal to that refit's = optimiser end point on a flat likelihood (counted as 'flat-likelihood', "
    "seen ~1 in 1000 cohorts), anything else is reported. Same fit options as the defaults of lme_fit (method list, REML, free parameters under forced independence).",
    "LME closed form uses the model's own fitted cov_re and noise_std (not the stored inverse) in the inverse-free form Psi Z'(Z Psi Z' + I)^-1 r; "
    "tolerance 2e-6 + (2e-5 + 1e-12 * cond(Psi)) * max|random effect| (the documented formula inverts Psi). A fit refused with LeaspyDataInputError (singular covariance) is the documented refusal and is counted, not judged; "
    "so is a cohort on which statsmodels' optimiser itself raises numpy's LinAlgError from inside MixedLM.fit (seen ~1 in 3000 cohorts; input-perturbation sensitive).",
    "Ages are arbitrary reals (negative and mixed-sign time scales are generated for the constant model; requested ages may be negative for both models).",
    "LME with drop_full_nan=False: individuals without ANY observed value are removed from the table by construction (personalisation raises ValueError on them - "
    "reported edge, counted); individuals with some missing values are judged by the conditional mean computed on their observed visits only.",
    "Identifiers are strings (integer identifiers belong to C14/C16).",
]
REQUIRED_CLASSES = {
    "const:nontrivial": 0.02,
    "const:feature-all-nan": 0.02,
    "const:single-visit": 0.02,
    "const:row-all-nan": 0.02,
    "const:multiindex": 0.02,
    "const:direct-unsorted": 0.05,
    "constant:negative-ages": 0.05,
    "constant:negative-ages+shorter-history": 0.03,
    "reuse:permuted-columns": 100,
    "reuse:four-prediction-types-one-object": 100,
    "lme:refit-after-estimate": 50,
    "lme:nan-at-personalisation": 100,
    "lme:nan-at-personalisation+random-slope": 50,
    "lme:nontrivial": 100,
    "lme:refit-compared": 300,
    "lme:re-agree-with-statsmodels": 300,
    "lme:intercept-only": 100,
    "lme:forced-independence": 50,
    "lme:new-individuals": 300,
    "lme:affinity-tested": 100,
}

PTYPES = ("last", "last-known", "max", "mean")
STR_ID_KINDS = ("s", "digits", "zeros", "unicode", "words")
FEATURE_POOL = ["f0", "f1", "f2", "f3", "MMSE", "x y", "é", "a_b", "0"]
NAN = float("nan")

_DIAG = None  # development only: list collecting discrepancy ratios


def _quiet():
    return contextlib.redirect_stdout(io.StringIO())


def _isnan(x):
    return x != x


# ------------------------------------------------------------------------------------------------
# shared strategy pieces
# ------------------------------------------------------------------------------------------------
@st.composite
def _requests(draw, n_ind, *, allow_scalar):
    """Requested ages: list of dict(ind=<position>, ages=[...], form=...). Empty lists are excluded by construction."""
    k = draw(st.integers(1, min(n_ind, 4)))
    idx = draw(st.lists(st.integers(0, n_ind - 1), min_size=k, max_size=k, unique=True))
    reqs, excluded = [], []
    for i in idx:
        L = draw(st.integers(0, 6))
        if L == 0:
            excluded.append("empty-age-list")
            L = 1
        ages = []
        for _ in range(L):
            if draw(st.integers(0, 4)) == 0:
                ages.append(draw(st.integers(-20, 120)))
            else:
                ages.append(round(float(draw(gen.f32(-50, 150))), 3))
        form = draw(st.sampled_from(["list", "list", "array", "tuple", "scalar"]))
        if form == "scalar":
            if L != 1:
                form = "list"
            elif not allow_scalar:
                excluded.append("scalar-age")
                form = "list"
        reqs.append(dict(ind=i, ages=ages, form=form))
    api = draw(st.sampled_from(["dict", "dict", "multiindex"]))
    return dict(requests=reqs, api=api, excluded=excluded)


def _timepoints_arg(reqs, ids, api):
    """Build the `timepoints` argument of estimate and the list [(id, [ages])] the answer is checked against."""
    import numpy as np
    import pandas as pd

    if api == "multiindex":
        pairs, per = [], {}
        for r in reqs:
            id_ = ids[r["ind"]]
            seen = per.setdefault(id_, [])
            for a in r["ages"]:
                a = float(a)
                if a not in seen:
                    seen.append(a)
        # interleave the individuals so that the requested order is not grouped by ID
        queues = {k: list(v) for k, v in per.items()}
        while any(queues.values()):
            for k in list(queues):
                if queues[k]:
                    pairs.append((k, queues[k].pop(0)))
        ix = pd.MultiIndex.from_tuples(pairs, names=["ID", "TIME"])
        return ix, pairs
    tp = {}
    for r in reqs:
        id_ = ids[r["ind"]]
        a = r["ages"]
        if r["form"] == "array":
            tp[id_] = np.array(a, dtype=float)
        elif r["form"] == "tuple":
            tp[id_] = tuple(a)
        elif r["form"] == "scalar":
            tp[id_] = float(a[0])
        else:
            tp[id_] = list(a)
    return tp, [(ids[r["ind"]], list(r["ages"])) for r in reqs]


def _table_df(rows, features):
    import pandas as pd

    df = pd.DataFrame([[(NAN if v is None else v) for v in r] for r in rows], columns=["ID", "TIME"] + list(features))
    df["TIME"] = df["TIME"].astype(float)
    for f in features:
        df[f] = df[f].astype(float)
    return df


# ------------------------------------------------------------------------------------------------
# engine K: constant model
# ------------------------------------------------------------------------------------------------
def _value(draw, vmode):
    if vmode == "unit":
        return round(float(draw(gen.f32(0, 1))), 5)
    if vmode == "wide":
        return float(draw(gen.f32(-1000, 1000)))
    if vmode == "ties":
        return draw(st.sampled_from([0.0, 0.5, 1.0, -1.0]))
    return draw(st.floats(-3, 3, allow_nan=False, width=64))


@st.composite
def constant_case(draw, features=None):
    if features is not None:
        feats, nf = list(features), len(features)
    else:
        nf = draw(st.integers(1, 4))
        feats = draw(st.lists(st.sampled_from(FEATURE_POOL), min_size=nf, max_size=nf, unique=True))
    n = draw(st.integers(1, 6))
    id_kind = draw(st.sampled_from(STR_ID_KINDS))
    ids = [gen.ID_ALPHABETS[id_kind](i) for i in range(n)]
    vmode = draw(st.sampled_from(["unit", "wide", "ties", "f64"]))
    rows = []
    for id_ in ids:
        k = draw(st.integers(1, 7))
        t = round(float(draw(gen.f32(0.5, 100))), 4)
        ages = [t]
        for _ in range(k - 1):
            t = round(t + max(0.01, float(draw(gen.f32(0.01, 5)))), 4)
            ages.append(t)
        # ages are arbitrary reals (e.g. years relative to onset): all negative / mixed sign, per individual
        amode = draw(st.sampled_from(["positive", "positive", "negative", "negative", "mixed"]))
        if amode == "negative":
            shift = ages[-1] + max(0.01, float(draw(gen.f32(0.01, 20))))
            ages = [round(a - shift, 4) for a in ages]
        elif amode == "mixed":
            shift = ages[draw(st.integers(0, k - 1))] + (0.005 if draw(st.booleans()) else 0.0)
            ages = [round(a - shift, 4) for a in ages]
        mmode = draw(st.sampled_from(["none", "sparse", "sparse", "last-nan", "feature-missing", "row-nan"]))
        vals = [[_value(draw, vmode) for _ in range(nf)] for _ in ages]
        miss = [[False] * nf for _ in ages]
        if mmode != "none":
            for r in range(k):
                for j in range(nf):
                    miss[r][j] = draw(st.booleans()) and draw(st.booleans())
        if mmode == "last-nan":
            miss[k - 1][draw(st.integers(0, nf - 1))] = True
        elif mmode == "feature-missing":
            j = draw(st.integers(0, nf - 1))
            for r in range(k):
                miss[r][j] = True
        elif mmode == "row-nan":
            miss[draw(st.integers(0, k - 1))] = [True] * nf
        for a, vv, mm in zip(ages, vals, miss):
            rows.append([id_, a] + [None if m_ else v for m_, v in zip(mm, vv)])
    if all(v is None for r in rows for v in r[2:]):
        rows[0][2] = 0.5  # the reader refuses a table without any value
    order = draw(st.sampled_from(["sorted", "reversed", "permuted", "permuted"]))
    if order == "reversed":
        rows = rows[::-1]
    elif order == "permuted":
        rows = list(draw(st.permutations(rows)))
    req = draw(_requests(n, allow_scalar=True))
    drop = draw(st.sampled_from([True, True, False]))
    inp_form = draw(st.sampled_from(["dataframe", "data", "dataset"]))
    direct_dtype = draw(st.sampled_from(["float32", "float64"]))
    return dict(engine="constant", features=feats, ids=ids, rows=rows, order=order, vmode=vmode, drop_full_nan=drop,
                input_form=inp_form, direct_dtype=direct_dtype, **req)


def ref_constant(df, features, ptype, drop_full_nan):
    """float64 pandas reference: {id: ([value per feature], [scale per feature])}."""
    d = df.copy()
    d["TIME"] = d["TIME"].round(6)
    if drop_full_nan:
        d = d.dropna(subset=list(features), how="all")
    out = {}
    for id_, g in d.groupby("ID", sort=False):
        g = g.sort_values("TIME")
        vals, scales = [], []
        for f in features:
            s = g[f]
            known = s.dropna()
            if ptype == "last":
                v = float(s.iloc[-1])
            elif ptype == "last-known":
                v = float(known.iloc[-1]) if len(known) else NAN
            elif ptype == "max":
                v = float(known.max()) if len(known) else NAN
            elif ptype == "mean":
                v = float(known.mean()) if len(known) else NAN
            else:  # pragma: no cover
                raise ValueError(ptype)
            vals.append(v)
            scales.append(float(known.abs().max()) if len(known) else 0.0)
        out[str(id_)] = (vals, scales)
    return out


def _const_ok(obs, exp, scale):
    try:
        obs = float(obs)
    except Exception:
        return False
    if _isnan(exp):
        return _isnan(obs)
    if _isnan(obs):
        return False
    return abs(obs - exp) <= 2e-6 * scale + 1e-40  # 1e-40: float32 underflow (subnormal spacing 1.4e-45)


def _constant_classes(case):
    feats = case["features"]
    nf = len(feats)
    per = {}
    for r in case["rows"]:
        per.setdefault(r[0], []).append(r)
    cl = set()
    nontrivial = False
    for id_, rs in per.items():
        ages = [r[1] for r in rs]
        unsorted_ = any(a > b for a, b in zip(ages, ages[1:]))
        if unsorted_:
            cl.add("const:unsorted")
        if len(rs) == 1:
            cl.add("const:single-visit")
        last = max(rs, key=lambda r: r[1])
        full_rows = [r for r in rs if all(v is None for v in r[2:])]
        if full_rows:
            cl.add("const:row-all-nan")
            if len(full_rows) == len(rs):
                cl.add("const:individual-without-values")
        for j in range(nf):
            col_vals = [r[2 + j] for r in rs]
            if all(v is None for v in col_vals) and not all(v is None for r in rs for v in r[2:]):
                cl.add("const:feature-all-nan")
            if last[2 + j] is None and any(v is not None for v in col_vals):
                cl.add("const:last-visit-nan")
                if len(rs) >= 3 and unsorted_:
                    nontrivial = True
    # negative time scales; "shorter history" = fewer visits held by the Data object than the longest history of the cohort
    drop = bool(case["drop_full_nan"])
    held = {id_: [r for r in rs if not (drop and all(v is None for v in r[2:]))] for id_, rs in per.items()}
    longest = max((len(v) for v in held.values()), default=0)
    for id_, rs in held.items():
        if rs and all(r[1] < 0 for r in rs):
            cl.add("constant:negative-ages")
            if len(rs) < longest:
                cl.add("constant:negative-ages+shorter-history")
        elif rs and any(r[1] < 0 for r in rs):
            cl.add("constant:mixed-sign-ages")
    if case["vmode"] == "ties":
        cl.add("const:ties")
    if case["api"] == "multiindex":
        cl.add("const:multiindex")
    if not case["drop_full_nan"]:
        cl.add("const:keep-full-nan-visits")
    cl.add("const:input=" + case["input_form"])
    return sorted(cl), nontrivial


def body_constant(col: Collector, case, model=None, sub="constant", fail_input=None, extra_classes=()):
    """`model`: a ConstantModel shared with earlier calls (reuse histories; default: a fresh model per prediction type).
    `fail_input`: what is recorded as the replayable input of a failure (default: the case + prediction type)."""
    import numpy as np

    from leaspy.algo import AlgorithmSettings
    from leaspy.algo.personalize.constant_prediction_algo import ConstantPredictionAlgorithm
    from leaspy.io.data import Data, Dataset
    from leaspy.models import ConstantModel

    feats = list(case["features"])
    nf = len(feats)
    df = _table_df(case["rows"], feats)
    ids = case["ids"]
    drop = bool(case["drop_full_nan"])
    base_classes, nontrivial = _constant_classes(case)
    for x in case.get("excluded", []):
        col.exclude("constant:" + x)
    ptypes = [case["ptype"]] if case.get("ptype") else PTYPES
    for pt in ptypes:
        inp = dict(case, ptype=pt) if fail_input is None else fail_input
        classes = list(base_classes) + ["const:pt=" + pt] + list(extra_classes)
        exp = ref_constant(df, feats, pt, drop)
        ok = True
        # ---- public path ---------------------------------------------------------------------
        try:
            with _quiet():
                m = model if model is not None else ConstantModel("constant")
                form = case["input_form"]
                if form == "dataframe" and drop:
                    data = df.copy()
                else:
                    data = Data.from_dataframe(df.copy(), drop_full_nan=drop) if not drop else Data.from_dataframe(df.copy())
                    if form == "dataset":
                        data = Dataset(data)
                ip = m.personalize(data, "constant_prediction", prediction_type=pt)
            got = {str(k): v for k, v in ip.items()}
        except Exception as e:
            col.fail(sub, "unexpected-exception:personalize:" + exc_bucket(e), inp, observed=repr(e), expected="personalize succeeds")
            col.case(classes=classes)
            continue
        if sorted(got) != sorted(exp):
            col.fail(sub, "ids-differ", inp, observed=sorted(got), expected=sorted(exp))
            ok = False
        mfeats = list(m.features or [])
        if sorted(mfeats) != sorted(feats):
            col.fail(sub, "features-differ", inp, observed=mfeats, expected=feats)
            ok = False
        if ok:
            for id_, (vals, scales) in exp.items():
                for f, v, s in zip(feats, vals, scales):
                    o = got[id_].get(f, "missing")
                    if not _const_ok(o, v, s):
                        col.fail(sub, f"parameter-differs:{pt}" + (":nan-pattern" if (_isnan(v) or o != o) else ""), inp,
                                 observed={id_: {f: o}}, expected={id_: {f: v}})
                        ok = False
                        break
                if not ok:
                    break
        if ok:
            reqs = [r for r in case["requests"] if str(ids[r["ind"]]) in exp]
            if reqs:
                tp, wanted = _timepoints_arg(reqs, ids, case["api"])
                try:
                    est = m.estimate(tp, ip)
                except Exception as e:
                    col.fail(sub, "unexpected-exception:estimate:" + exc_bucket(e), inp, observed=repr(e), expected="estimate succeeds")
                    est = None
                if est is not None:
                    if case["api"] == "multiindex":
                        arr = np.asarray(est.values, dtype=float)
                        cols = list(est.columns)
                        if arr.shape != (len(wanted), nf) or sorted(map(str, cols)) != sorted(feats) or list(est.index) != list(wanted):
                            col.fail(sub, "estimate-shape", inp, observed=dict(shape=arr.shape, columns=cols, index=list(est.index)),
                                     expected=dict(shape=(len(wanted), nf), columns=feats, index=wanted))
                        else:
                            for row, (id_, age) in zip(arr, wanted):
                                vals, scales = exp[str(id_)]
                                for j, c in enumerate(cols):
                                    k = feats.index(str(c))
                                    if not _const_ok(row[j], vals[k], scales[k]):
                                        col.fail(sub, f"estimate-differs:{pt}", inp, observed={str(id_): {"age": age, str(c): row[j]}},
                                                 expected=vals[k])
                                        ok = False
                                        break
                                if not ok:
                                    break
                    else:
                        for id_, ages in wanted:
                            arr = np.asarray(est[id_])
                            vals, scales = exp[str(id_)]
                            if arr.shape != (len(ages), nf):
                                col.fail(sub, "estimate-shape", inp, observed={str(id_): arr.shape}, expected=(len(ages), nf))
                                break
                            bad = False
                            for i_age in range(len(ages)):
                                for j, f in enumerate(mfeats):
                                    k = feats.index(f)
                                    if not _const_ok(arr[i_age, j], vals[k], scales[k]):
                                        col.fail(sub, f"estimate-differs:{pt}", inp,
                                                 observed={str(id_): {"age": ages[i_age], f: float(arr[i_age, j])}}, expected=vals[k])
                                        bad = True
                                        break
                                if bad:
                                    break
                            if bad:
                                break
            else:
                classes.append("const:no-request-left")
        # ---- the per-individual estimator on the rows in table order (all visits kept) -----------
        exp_all = ref_constant(df, feats, pt, False)
        try:
            algo = ConstantPredictionAlgorithm(AlgorithmSettings("constant_prediction", prediction_type=pt))
            dt = np.float32 if case["direct_dtype"] == "float32" else np.float64
            per = {}
            for r in case["rows"]:
                per.setdefault(str(r[0]), []).append(r)
            for id_, rs in per.items():
                times = np.array([round(r[1], 6) for r in rs], dtype=dt)
                values = np.array([[NAN if v is None else v for v in r[2:]] for r in rs], dtype=dt).reshape(len(rs), nf)
                with warnings.catch_warnings():
                    warnings.simplefilter("ignore")
                    out = algo._get_individual_last_values(times, values, features=feats)
                vals, scales = exp_all[id_]
                for f, v, s in zip(feats, vals, scales):
                    o = out.get(f, "missing") if isinstance(out, dict) else "not-a-dict"
                    if not _const_ok(o, v, s):
                        col.fail("constant-direct", f"value-differs:{pt}", inp, observed={id_: {f: o}}, expected={id_: {f: v}})
                        break
                if any(a > b for a, b in zip(times, times[1:])):
                    classes.append("const:direct-unsorted")
        except Exception as e:
            col.fail("constant-direct", "unexpected-exception:" + exc_bucket(e), inp, observed=repr(e), expected="estimator succeeds")
        classes = sorted(set(classes))
        if nontrivial:
            classes.append("const:nontrivial")
        col.case(classes=classes, nontrivial=(jhash([case["rows"], pt, drop]) if nontrivial else None),
                 sample=dict(engine="constant", features=feats, rows=case["rows"], ptype=pt, drop_full_nan=drop,
                             expected={k: v[0] for k, v in exp.items()}))


def shard_constant(seed: int, n_examples: int, shard: int = 0):
    env.import_leaspy()
    col = Collector(PROP, f"constant-{shard}")
    drive(col, constant_case(), body_constant, n_examples=n_examples, seed=shard_seed(seed, shard, salt=1), sub_check="constant")
    return col


# ------------------------------------------------------------------------------------------------
# engine L: linear mixed-effects benchmark
# ------------------------------------------------------------------------------------------------
def _z(draw, k):
    """Roughly bell-shaped standardised draw (sum of two uniform integer draws) plus a fixed, deterministic jitter indexed by
    the position `k`, so that the minimal Hypothesis example (all draws 0) is not a noise-free, perfectly collinear table."""
    return (draw(st.integers(-150, 150)) + draw(st.integers(-150, 150))) / 122.0 + 0.6 * math.sin(12.9898 * (k + 1) + 0.7 * k * k)


@st.composite
def lme_case(draw, max_n=24):
    n = draw(st.integers(8, max_n))
    slope = draw(st.booleans())
    indep = draw(st.booleans())
    keep_nan = draw(st.sampled_from([True, False, True]))  # ingestion with drop_full_nan=False: NaN values reach personalisation
    fe0 = round(float(draw(gen.f32(-2, 2))), 3)
    fe1 = round(float(draw(gen.f32(-1, 1))), 3)
    sd0 = round(float(draw(gen.f32(0.2, 1.0))), 3)
    sd1 = 0.0 if draw(st.sampled_from([False] * 11 + [True])) else round(float(draw(gen.f32(0.15, 0.6))), 3)
    rho = draw(st.sampled_from([0.0, 0.0, 0.5, -0.5]))
    noise = round(float(draw(gen.f32(0.03, 0.2))), 3)
    id_kind = draw(st.sampled_from(STR_ID_KINDS))
    ids = [gen.ID_ALPHABETS[id_kind](i) for i in range(n)]
    rows = []
    cnt = 0
    for id_ in ids:
        k = draw(st.integers(2, 6))
        t = round(float(draw(gen.f32(50, 85))), 4)
        ages = [t]
        for _ in range(k - 1):
            t = round(t + max(0.3, float(draw(gen.f32(0.3, 4)))), 4)
            ages.append(t)
        z0, z1 = _z(draw, cnt), _z(draw, cnt + 1)
        cnt += 2
        b0 = sd0 * z0
        b1 = sd1 * (rho * z0 + math.sqrt(1 - rho * rho) * z1)
        for a in ages:
            y = fe0 + b0 + (fe1 + b1) * (a - 68.0) / 8.0 + noise * _z(draw, cnt)
            cnt += 1
            missing = draw(st.booleans()) and draw(st.booleans()) and draw(st.booleans())
            rows.append([id_, a, None if missing else round(y, 5)])
    if sum(r[2] is not None for r in rows) < 2 * 8:
        for r in rows:  # keep a fittable table whatever the missing draws were
            if r[2] is None:
                r[2] = round(fe0, 5)
    if draw(st.booleans()):
        rows = list(draw(st.permutations(rows)))
    # new individuals (personalisation only)
    n_new = draw(st.integers(1, 4))
    new_rows = []
    for i in range(n_new):
        k = draw(st.integers(1, 4))
        t = round(float(draw(gen.f32(40, 95))), 4)
        got_value = False
        for v in range(k):
            y = round(float(draw(gen.f32(-3, 3))), 4)
            missing = (draw(st.booleans()) and draw(st.booleans())) and (got_value or v < k - 1)
            got_value = got_value or not missing
            new_rows.append([f"new{i}", t, None if missing else y])
            t = round(t + max(0.05, float(draw(gen.f32(0.05, 6)))), 4)
    if draw(st.booleans()):
        new_rows = list(draw(st.permutations(new_rows)))
    req = draw(_requests(n, allow_scalar=True))
    return dict(engine="lme", keep_nan=keep_nan, slope=slope, indep=indep, truth=dict(fe0=fe0, fe1=fe1, sd0=sd0, sd1=sd1, rho=rho, noise=noise),
                ids=ids, rows=rows, new_rows=new_rows, **req)


def _lme_reference_data(rows):
    """The float32 numbers the Dataset holds, as float64, per individual in ascending age; fully missing rows dropped."""
    import numpy as np

    per = {}
    for r in rows:
        if r[2] is None:
            continue
        per.setdefault(str(r[0]), []).append((float(np.float32(round(float(r[1]), 6))), float(np.float32(r[2]))))
    return {k: (np.array([a for a, _ in sorted(v)], dtype=np.float64), np.array([y for _, y in sorted(v)], dtype=np.float64))
            for k, v in per.items()}


def _refit(per, slope, indep, float32_pipeline=False, order=None):
    """statsmodels refit on the reference data (own float64 normalisation, same options).
    Returns dict(re, fe, psi, llf, loglike, msgs) - `re` is None when the reference is not available.

    float32_pipeline=True ("second opinion", used only to explain a discrepancy): the ages are normalised in float32 arithmetic
    (design matrix = float64 container of those float32 values, outcome as float32 array), individuals in order of first appearance and visits by age -
    the numbers a float32 Dataset yields. The optimiser is deterministic, so a fit that is nothing but "MixedLM on the Dataset's
    numbers with the default options" is reproduced to the last digits even where the likelihood is flat."""
    import numpy as np
    from statsmodels.regression.mixed_linear_model import MixedLM, MixedLMParams

    if order is not None:  # individuals in the order the Dataset holds them (matters for float32 sums, hence for the end point)
        per = {k: per[k] for k in order}
    T = np.concatenate([v[0] for v in per.values()])
    Y = np.concatenate([v[1] for v in per.values()])
    G = np.concatenate([[k] * len(v[0]) for k, v in per.items()])
    if float32_pipeline:
        T32 = T.astype(np.float32)
        mean, std = np.mean(T32).item(), np.std(T32).item()
        an32 = (T32 - mean) / std
        if an32.dtype != np.float32:  # pragma: no cover
            raise AssertionError("float32 pipeline lost its dtype")
        X = np.column_stack([np.ones(len(T32)), an32])  # float64 container of float32-rounded ages (what add_constant yields)
        Y = Y.astype(np.float32)
    else:
        mean, std = float(T.mean()), float(T.std())
        X = np.column_stack([np.ones_like(T), (T - mean) / std])
    kw = dict(method=["lbfgs", "bfgs", "powell"])
    if slope and indep:
        kw["free"] = MixedLMParams.from_components(fe_params=np.ones(2), cov_re=np.eye(2))
    with warnings.catch_warnings(record=True) as w:
        warnings.simplefilter("always")
        try:
            model = MixedLM(Y, X, G, X if slope else None, missing="raise")
            fitted = model.fit(**kw)
            re = {k: np.atleast_1d(np.asarray(v, dtype=float)) for k, v in fitted.random_effects.items()}
            fe = np.asarray(fitted.fe_params, dtype=float)
            psi = np.atleast_2d(np.asarray(fitted.cov_re_unscaled, dtype=float))
            llf = float(fitted.llf)
        except Exception as e:  # singular covariance etc.: the reference is not available
            return dict(re=None, msgs=["refit-failed:" + type(e).__name__])
    msgs = [type(x.message).__name__ + ":" + str(x.message)[:40] for x in w if not issubclass(x.category, (FutureWarning, DeprecationWarning))]

    def loglike(fe_, psi_):
        """the reference (restricted, scale-profiled) log-likelihood at given fixed effects and unscaled covariance"""
        with warnings.catch_warnings():
            warnings.simplefilter("ignore")
            return float(model.loglike(MixedLMParams.from_components(fe_params=np.asarray(fe_, dtype=float), cov_re=np.atleast_2d(psi_)),
                                       profile_fe=False))

    return dict(re=re, fe=fe, psi=psi, llf=llf, loglike=loglike, msgs=msgs)


def _blup(ages, y, mean, std, fe, psi, slope):
    """E[b | y] = Psi Z'(Z Psi Z' + I)^-1 (y - X fe), float64, no inverse of Psi."""
    import numpy as np

    an = (ages - mean) / std
    X = np.column_stack([np.ones_like(an), an])
    Z = X if slope else X[:, :1]
    r = y - X @ fe
    V = Z @ psi @ Z.T + np.eye(len(r))
    return psi @ Z.T @ np.linalg.solve(V, r)


def _raised_inside_mixedlm_fit(exc):
    import traceback

    return any(fr.name == "fit" and fr.filename.replace("\\", "/").endswith("statsmodels/regression/mixed_linear_model.py")
               for fr in traceback.extract_tb(exc.__traceback__))


def _re_of(p, slope):
    import numpy as np

    return np.array([float(p["random_intercept"])] + ([float(p["random_slope_age"])] if slope else []), dtype=float)


def body_lme(col: Collector, case):
    import numpy as np

    from leaspy.exceptions import LeaspyDataInputError
    from leaspy.models import LMEModel

    from leaspy.io.data import Data

    slope, indep = bool(case["slope"]), bool(case["indep"])
    ids = case["ids"]
    per = _lme_reference_data(case["rows"])
    n_ind = len(per)
    keep_nan = bool(case.get("keep_nan", False))
    train_rows = case["rows"]
    if keep_nan:
        # the cohort is ingested with Data.from_dataframe(df, drop_full_nan=False): visits without value reach fit and personalisation.
        # Individuals without ANY observed value are excluded by construction (personalisation raises on them: reported edge)
        train_rows = [r for r in case["rows"] if str(r[0]) in per]
        if len(train_rows) < len(case["rows"]):
            col.exclude("lme:individual-without-any-value-under-drop_full_nan=False")

    def ingest(rows):
        d = _table_df(rows, ["y"])
        return Data.from_dataframe(d, drop_full_nan=False) if keep_nan else d

    def some_nan(rows):
        cnt = {}
        for r in rows:
            c_ = cnt.setdefault(str(r[0]), [0, 0])
            c_[0 if r[2] is None else 1] += 1
        return any(a > 0 and b > 0 for a, b in cnt.values())
    classes = ["lme:random-slope" if slope else "lme:intercept-only"]
    if keep_nan:
        classes.append("lme:drop_full_nan=False")
        if some_nan(train_rows) or some_nan(case["new_rows"]):
            classes.append("lme:nan-at-personalisation")
            if slope:
                classes.append("lme:nan-at-personalisation+random-slope")
    if slope and indep:
        classes.append("lme:forced-independence")
    if case["truth"]["sd1"] == 0:
        classes.append("lme:true-slope-sd=0")
    if any(len(v[0]) == 1 for v in per.values()):
        classes.append("lme:individual-with-one-value")
    if len(per) < len(ids):
        classes.append("lme:individual-without-values")
    for x in case.get("excluded", []):
        col.exclude("lme:" + x)
    nontrivial = slope and n_ind >= 10
    if nontrivial:
        classes.append("lme:nontrivial")
    inp = case

    def done():
        col.case(classes=sorted(set(classes)), nontrivial=(jhash(case) if nontrivial else None),
                 sample=dict(engine="lme", slope=slope, indep=indep, truth=case["truth"], n_individuals=n_ind,
                             n_values=int(sum(len(v[0]) for v in per.values())), rows_head=case["rows"][:6]))

    # ---- fit + personalize on the training cohort ---------------------------------------------------
    try:
        with _quiet(), warnings.catch_warnings():
            warnings.simplefilter("ignore")
            m = LMEModel("lme", with_random_slope_age=slope)
            m.fit(ingest(train_rows), "lme_fit", force_independent_random_effects=indep)
    except LeaspyDataInputError as e:
        if "singular" in str(e):
            classes.append("lme:fit-refused-singular")
            col.exclude("lme:fit-refused-singular-covariance")
            return done()
        col.fail("lme", "unexpected-exception:fit:" + exc_bucket(e), inp, observed=repr(e), expected="fit succeeds")
        return done()
    except Exception as e:
        # statsmodels' optimiser occasionally steps into a singular region and raises numpy's LinAlgError from inside `MixedLM.fit`
        # (input-perturbation sensitive: the same cohort in float64 may fit). That is the reference library failing, not an
        # estimator of this property: counted, not judged. Any other exception (or a LinAlgError raised elsewhere) is reported.
        if type(e).__name__ == "LinAlgError" and _raised_inside_mixedlm_fit(e):
            classes.append("lme:library-fit-raises")
            col.exclude("lme:statsmodels-optimiser-raises-LinAlgError")
            return done()
        col.fail("lme", "unexpected-exception:fit:" + exc_bucket(e), inp, observed=repr(e), expected="fit succeeds")
        return done()
    try:
        with _quiet(), warnings.catch_warnings():
            warnings.simplefilter("ignore")
            ip = m.personalize(ingest(train_rows), "lme_personalize")
        got = {str(k): v for k, v in ip.items()}
    except Exception as e:
        col.fail("lme", "unexpected-exception:personalize:" + exc_bucket(e), inp, observed=repr(e), expected="personalize succeeds")
        return done()
    P = m.parameters
    try:
        mean_m, std_m = float(P["ages_mean"]), float(P["ages_std"])
        fe_m = np.asarray(P["fe_params"], dtype=float).reshape(2)
        cov_re = np.atleast_2d(np.asarray(P["cov_re"], dtype=float))
        noise_std = float(P["noise_std"])
    except Exception as e:
        col.fail("lme", "parameters-missing", inp, observed=repr(e), expected="ages_mean, ages_std, fe_params, cov_re, noise_std stored")
        return done()
    if sorted(got) != sorted(per):
        col.fail("lme", "ids-differ", inp, observed=sorted(got), expected=sorted(per))
        return done()
    try:
        re_m = {k: _re_of(v, slope) for k, v in got.items()}
    except Exception as e:
        col.fail("lme", "random-effects-missing", inp, observed=repr(e), expected="random_intercept (and random_slope_age)")
        return done()
    if not all(np.isfinite(v).all() for v in re_m.values()):
        col.fail("lme", "random-effects-not-finite", inp, observed={k: v.tolist() for k, v in re_m.items() if not np.isfinite(v).all()},
                 expected="finite conditional means")
        return done()
    scale = max(float(np.abs(v).max()) for v in re_m.values())

    # ---- (0) stored normalisation --------------------------------------------------------------------
    T = np.concatenate([v[0] for v in per.values()])
    mean_r, std_r = float(T.mean()), float(T.std())
    if abs(mean_m - mean_r) > 2e-5 * abs(mean_r) or abs(std_m - std_r) > 2e-5 * std_r:
        col.fail("lme", "ages-normalisation", inp, observed=dict(ages_mean=mean_m, ages_std=std_m), expected=dict(ages_mean=mean_r, ages_std=std_r))
        return done()

    # ---- variance components as stored -------------------------------------------------------------------
    k_re = 2 if slope else 1
    if cov_re.shape != (k_re, k_re) or not (noise_std > 0) or not np.isfinite(cov_re).all():
        col.fail("lme", "variance-components-malformed", inp, observed=dict(cov_re=cov_re.tolist(), noise_std=noise_std),
                 expected=f"{k_re}x{k_re} covariance and positive noise_std")
        return done()
    psi = cov_re / noise_std**2

    # ---- (1) statsmodels refit -----------------------------------------------------------------------
    # order of the individuals in the Dataset = first appearance among the ingested rows (with drop_full_nan=False a visit
    # without value counts, so this is not the order of first observed value)
    ds_order = []
    for r in (train_rows if keep_nan else [r for r in train_rows if r[2] is not None]):
        if str(r[0]) in per and str(r[0]) not in ds_order:
            ds_order.append(str(r[0]))
    R = _refit(per, slope, indep, order=ds_order)
    if R["re"] is not None and not R["msgs"] and float(np.linalg.cond(psi)) > 1e4:
        # same guard on the model's own fitted covariance: its optimiser run (float32 input) may have ended on the boundary
        # (|correlation| = 1 - 1e-12 seen) although the float64 refit did not; neither the library's nor anybody's random effects
        # are reproducible to 1e-5 through a covariance of condition number 1e13
        R["msgs"] = ["near-singular-covariance(model fit):cond>1e4"]
    if R["re"] is not None and not R["msgs"] and float(np.linalg.cond(R["psi"])) > 1e4:
        # nearly singular random-effects covariance (|correlation| -> 1) without a library warning: the likelihood is flat along the
        # degenerate direction and two runs of the optimiser stop at visibly different points (seen: 2e-4 in log-likelihood, 1 % in Psi)
        R["msgs"] = ["near-singular-covariance:cond>1e4"]
    if R["re"] is None or R["msgs"]:
        classes.append("lme:refit-not-compared")
        col.exclude("lme:refit-warning-or-singular")
        for x in sorted(set(R["msgs"])):
            col.cls("lme:refit-discard:" + x[:60])
    else:
        classes.append("lme:refit-compared")
        re_r, fe_r, psi_r = R["re"], R["fe"], R["psi"]
        # (1a) the fitted parameters are an optimum of the reference likelihood under the same options
        if slope and indep and abs(cov_re[0, 1]) > 1e-9 * math.sqrt(abs(cov_re[0, 0] * cov_re[1, 1])):
            col.fail("lme", "independence-not-enforced", inp, observed=cov_re.tolist(), expected="diagonal cov_re under force_independent_random_effects")
        llf_m = R["loglike"](fe_m, psi)
        d_llf = R["llf"] - llf_m
        tol_llf = 5e-4 + 1e-6 * abs(R["llf"])
        if _DIAG is not None:
            _DIAG.append(("llf", d_llf / tol_llf, 0))
        optimal = bool(d_llf <= tol_llf)
        tol = 2e-6 + 1e-5 * scale
        worst = max(float(np.abs(re_m[k] - re_r[k]).max()) for k in per)
        d_par = max(float(np.abs(fe_m - fe_r).max()) / max(float(np.abs(fe_r).max()), 1e-12),
                    float(np.abs(psi - psi_r).max()) / max(float(np.abs(psi_r).max()), 1e-12))
        if _DIAG is not None:
            _DIAG.append(("refit", worst / tol, scale))
            _DIAG.append(("dpar", d_par / 1e-5, 0))
        if optimal and worst <= tol:
            classes.append("lme:re-agree-with-statsmodels")
        elif optimal and d_par <= 1e-5:
            # same fitted parameters as the library, different random effects
            k_bad = max(per, key=lambda k: float(np.abs(re_m[k] - re_r[k]).max()))
            col.fail("lme", "re-vs-statsmodels", inp, observed={k_bad: re_m[k_bad].tolist()}, expected={k_bad: re_r[k_bad].tolist(), "tol": tol})
        else:
            # The two parameter sets differ (and leaspy's may even sit slightly below the refit's likelihood). Near the boundary of the
            # parameter space the likelihood is flat and the optimiser's end point depends on the last digits of its input (observed
            # gaps up to 1e-3 in log-likelihood, 1 % in Psi, without any library warning). Second opinion: the library on the float32
            # numbers of the Dataset. Reproduced to the last digits -> optimiser end point, counted; otherwise the fit is not the library's.
            R2 = _refit(per, slope, indep, float32_pipeline=True, order=ds_order)
            reproduced = False
            if R2["re"] is not None:
                d2 = max(float(np.abs(fe_m - R2["fe"]).max()) / max(float(np.abs(R2["fe"]).max()), 1e-12),
                         float(np.abs(psi - R2["psi"]).max()) / max(float(np.abs(R2["psi"]).max()), 1e-12))
                reproduced = d2 <= 1e-8
            if reproduced:
                worst2 = max(float(np.abs(re_m[k] - R2["re"][k]).max()) for k in per)
                if worst2 > tol:
                    k_bad = max(per, key=lambda k: float(np.abs(re_m[k] - R2["re"][k]).max()))
                    col.fail("lme", "re-vs-statsmodels", inp, observed={k_bad: re_m[k_bad].tolist()},
                             expected={k_bad: R2["re"][k_bad].tolist(), "tol": tol, "reference": "float32-pipeline refit"})
                else:
                    classes.append("lme:flat-likelihood-end-points-differ")
                    col.exclude("lme:refit-flat-likelihood")
            elif not optimal:
                col.fail("lme", "fit-not-optimal-vs-statsmodels", inp,
                         observed=dict(loglik_at_leaspy_parameters=llf_m, fe=fe_m.tolist(), cov_re_unscaled=psi.tolist()),
                         expected=dict(loglik_refit=R["llf"], fe=fe_r.tolist(), cov_re_unscaled=psi_r.tolist()))
            else:
                # as good as the refit in likelihood but not the library's end point on either input: judged on the random effects
                # only if they disagree beyond what the parameter difference explains - they do (worst > tol), so report it
                k_bad = max(per, key=lambda k: float(np.abs(re_m[k] - re_r[k]).max()))
                col.fail("lme", "re-vs-statsmodels:parameters-differ", inp, observed={k_bad: re_m[k_bad].tolist(), "fe": fe_m.tolist(), "cov_re_unscaled": psi.tolist()},
                         expected={k_bad: re_r[k_bad].tolist(), "tol": tol, "fe": fe_r.tolist(), "cov_re_unscaled": psi_r.tolist()})

    # ---- (2) closed-form conditional means from the fitted variance components ---------------------------
    cond_psi = float(np.linalg.cond(psi))
    tol_cf = 2e-6 + (2e-5 + 1e-12 * cond_psi) * scale
    worst, k_bad = 0.0, None
    for k, (a, y) in per.items():
        d = float(np.abs(re_m[k] - _blup(a, y, mean_m, std_m, fe_m, psi, slope)).max())
        if d > worst:
            worst, k_bad = d, k
    if _DIAG is not None:
        _DIAG.append(("closed", worst / tol_cf, scale))
    if worst > tol_cf:
        a, y = per[k_bad]
        col.fail("lme", "re-vs-closed-form", inp, observed={k_bad: re_m[k_bad].tolist()},
                 expected={k_bad: _blup(a, y, mean_m, std_m, fe_m, psi, slope).tolist(), "tol": tol_cf})

    # ---- (2') new individuals -----------------------------------------------------------------------------
    per_new = _lme_reference_data(case["new_rows"])
    if per_new:
        classes.append("lme:new-individuals")
        if any(len(v[0]) == 1 for v in per_new.values()):
            classes.append("lme:new-individual-with-one-value")
        try:
            with _quiet(), warnings.catch_warnings():
                warnings.simplefilter("ignore")
                ip_new = m.personalize(ingest(case["new_rows"]), "lme_personalize")
            got_new = {str(k): _re_of(v, slope) for k, v in ip_new.items()}
        except Exception as e:
            col.fail("lme", "unexpected-exception:personalize-new:" + exc_bucket(e), inp, observed=repr(e), expected="personalize succeeds")
            got_new = None
        if got_new is not None:
            if sorted(got_new) != sorted(per_new):
                col.fail("lme", "ids-differ-new", inp, observed=sorted(got_new), expected=sorted(per_new))
            else:
                for k, (a, y) in per_new.items():
                    ref = _blup(a, y, mean_m, std_m, fe_m, psi, slope)
                    t = 2e-6 + (2e-5 + 1e-12 * cond_psi) * max(float(np.abs(ref).max()), float(np.abs(got_new[k]).max()))
                    if _DIAG is not None:
                        _DIAG.append(("closed-new", float(np.abs(got_new[k] - ref).max()) / t, 0))
                    if not float(np.abs(got_new[k] - ref).max()) <= t:
                        col.fail("lme", "re-new-vs-closed-form", inp, observed={k: got_new[k].tolist()}, expected={k: ref.tolist(), "tol": t})
                        break

    # ---- (3) trajectories -----------------------------------------------------------------------------------
    reqs = [r for r in case["requests"] if str(ids[r["ind"]]) in per]
    if reqs:
        tp, wanted = _timepoints_arg(reqs, ids, case["api"])
        if case["api"] == "multiindex":
            classes.append("lme:multiindex")
        try:
            est = m.estimate(tp, ip)
        except Exception as e:
            col.fail("lme", "unexpected-exception:estimate:" + exc_bucket(e), inp, observed=repr(e), expected="estimate succeeds")
            return done()
        if case["api"] == "multiindex":
            arr = np.asarray(est.values, dtype=float)
            if arr.shape != (len(wanted), 1) or list(est.index) != list(wanted):
                col.fail("lme", "trajectory-shape", inp, observed=dict(shape=arr.shape, index=list(est.index)), expected=dict(shape=(len(wanted), 1), index=wanted))
                return done()
            grouped = {}
            for (id_, age), v in zip(wanted, arr[:, 0]):
                grouped.setdefault(id_, ([], []))
                grouped[id_][0].append(age)
                grouped[id_][1].append(float(v))
            series = [(id_, a, np.array(v)) for id_, (a, v) in grouped.items()]
        else:
            series = []
            for id_, ages in wanted:
                arr = np.asarray(est[id_], dtype=float)
                if arr.shape != (len(ages), 1):
                    col.fail("lme", "trajectory-shape", inp, observed={str(id_): arr.shape}, expected=(len(ages), 1))
                    return done()
                series.append((id_, ages, arr[:, 0]))
        for id_, ages, ys in series:
            re = re_m[str(id_)]
            b0, b1 = float(re[0]), (float(re[1]) if slope else 0.0)
            a = np.array([float(x) for x in ages])
            an = (a - mean_m) / std_m
            ref = fe_m[0] + b0 + (fe_m[1] + b1) * an
            tol = 2e-6 * (abs(fe_m[0]) + abs(b0) + np.abs((fe_m[1] + b1) * an)) + 1e-7
            if _DIAG is not None:
                _DIAG.append(("traj", float((np.abs(ys - ref) / tol).max()), 0))
            if not (np.abs(ys - ref) <= tol).all():
                col.fail("lme", "trajectory-line", inp, observed={str(id_): dict(ages=a.tolist(), values=ys.tolist())}, expected=ref.tolist())
                break
            # parameter-free affinity: every interior point lies on the chord through the extreme ages
            if len(set(a.tolist())) >= 3:
                classes.append("lme:affinity-tested")
                o = np.argsort(a)
                a_s, y_s = a[o], ys[o]
                chord = y_s[0] + (y_s[-1] - y_s[0]) * (a_s - a_s[0]) / (a_s[-1] - a_s[0])
                t_aff = 2e-6 * float(np.abs(y_s).max()) + 1e-7
                if _DIAG is not None:
                    _DIAG.append(("affine", float(np.abs(y_s - chord).max()) / t_aff, 0))
                if float(np.abs(y_s - chord).max()) > t_aff:
                    col.fail("lme", "trajectory-not-affine", inp, observed=dict(ages=a_s.tolist(), values=y_s.tolist()), expected=chord.tolist())
                    break
    return done()


def shard_lme(seed: int, n_examples: int, max_n: int = 24, shard: int = 0):
    env.import_leaspy()
    col = Collector(PROP, f"lme-{shard}")
    drive(col, lme_case(max_n=max_n), body_lme, n_examples=n_examples, seed=shard_seed(seed, shard, salt=2), sub_check="lme")
    return col


# ------------------------------------------------------------------------------------------------
# engine KR: one ConstantModel object reused across cohorts / prediction types
# ------------------------------------------------------------------------------------------------
@st.composite
def reuse_case(draw):
    nf = draw(st.integers(2, 4))
    feats = draw(st.lists(st.sampled_from(FEATURE_POOL), min_size=nf, max_size=nf, unique=True))
    steps = []
    for i in range(draw(st.integers(2, 3))):
        if i > 0:
            mode = draw(st.sampled_from(["permuted", "permuted", "same", "different"]))
            if mode == "permuted":
                perm = list(draw(st.permutations(feats)))
                feats = perm if perm != feats else feats[1:] + feats[:1]
            elif mode == "different":
                k = draw(st.integers(1, 4))
                feats = draw(st.lists(st.sampled_from(FEATURE_POOL), min_size=k, max_size=k, unique=True))
        step = draw(constant_case(features=feats))
        step["ptype"] = draw(st.sampled_from([None, None, "last", "last-known", "max", "mean"]))  # None = all four, same object
        steps.append(step)
    return dict(engine="constant-reuse", steps=steps)


def body_reuse(col: Collector, case):
    from leaspy.models import ConstantModel

    m = ConstantModel("constant")
    prev = None
    for i, step in enumerate(case["steps"]):
        feats = list(step["features"])
        extra = ["reuse:step"]
        if prev is not None:
            if sorted(prev) == sorted(feats) and prev != feats:
                extra.append("reuse:permuted-columns")
            elif prev == feats:
                extra.append("reuse:same-columns")
            else:
                extra.append("reuse:different-features")
        if step.get("ptype") is None:
            extra.append("reuse:four-prediction-types-one-object")
        body_constant(col, step, model=m, sub="constant-reuse", fail_input=case, extra_classes=extra)
        prev = feats


def shard_reuse(seed: int, n_examples: int, shard: int = 0):
    env.import_leaspy()
    col = Collector(PROP, f"constant-reuse-{shard}")
    drive(col, reuse_case(), body_reuse, n_examples=n_examples, seed=shard_seed(seed, shard, salt=3), sub_check="constant-reuse")
    return col


# ------------------------------------------------------------------------------------------------
# engine LR: one LMEModel object through fit / personalize / estimate / re-fit (or load_parameters) / estimate
# ------------------------------------------------------------------------------------------------
@st.composite
def lme_history_case(draw, max_n=12):
    cohorts = [draw(lme_case(max_n=max_n)) for _ in range(2)]
    slope = cohorts[0]["slope"]
    ops = [["fit", 0]]
    if draw(st.booleans()):
        ops.append(["personalize"])
    if draw(st.sampled_from([True, True, True, False])):
        ops.append(["estimate"])
    ops.append([draw(st.sampled_from(["fit", "fit", "load"])), 1])
    if draw(st.booleans()):
        ops.append(["personalize"])
    ops.append(["estimate"])
    if draw(st.booleans()):
        ops.append([draw(st.sampled_from(["fit", "load"])), draw(st.integers(0, 1))])
        ops.append(["estimate"])
    return dict(engine="lme-reuse", slope=slope, cohorts=cohorts, ops=ops)


def _lme_ingest(c):
    from leaspy.io.data import Data

    per = _lme_reference_data(c["rows"])
    rows = c["rows"]
    if c.get("keep_nan"):
        rows = [r for r in rows if str(r[0]) in per]
        return Data.from_dataframe(_table_df(rows, ["y"]), drop_full_nan=False), per
    return _table_df(rows, ["y"]), per


def _lme_series(est, wanted, api):
    """estimate output -> [(id, ages, values)] or None if the shape is not (n_ages, 1) / the index is not the requested one."""
    import numpy as np

    if api == "multiindex":
        arr = np.asarray(est.values, dtype=float)
        if arr.shape != (len(wanted), 1) or list(est.index) != list(wanted):
            return None
        grouped = {}
        for (id_, age), v in zip(wanted, arr[:, 0]):
            grouped.setdefault(id_, ([], []))
            grouped[id_][0].append(age)
            grouped[id_][1].append(float(v))
        return [(id_, a, np.array(v)) for id_, (a, v) in grouped.items()]
    out = []
    for id_, ages in wanted:
        arr = np.asarray(est[id_], dtype=float)
        if arr.shape != (len(ages), 1):
            return None
        out.append((id_, ages, arr[:, 0]))
    return out


def body_lme_history(col: Collector, case):
    import numpy as np

    from leaspy.exceptions import LeaspyDataInputError
    from leaspy.models import LMEModel

    slope = bool(case["slope"])
    cohorts = case["cohorts"]
    fresh = {}  # cohort index -> (fresh model fitted on it, its personalisation) or None when the library refuses/fails

    def fresh_of(k):
        if k not in fresh:
            data, _ = _lme_ingest(cohorts[k])
            try:
                with _quiet(), warnings.catch_warnings():
                    warnings.simplefilter("ignore")
                    fm = LMEModel("lme-fresh", with_random_slope_age=slope)
                    fm.fit(data, "lme_fit", force_independent_random_effects=bool(cohorts[k]["indep"]))
                    fresh[k] = (fm, fm.personalize(data, "lme_personalize"))
            except Exception as e:
                if (isinstance(e, LeaspyDataInputError) and "singular" in str(e)) or (
                        type(e).__name__ == "LinAlgError" and _raised_inside_mixedlm_fit(e)):
                    fresh[k] = None
                else:
                    raise
        return fresh[k]

    def same_params(a, b):
        return all(np.array_equal(np.asarray(a[key]), np.asarray(b[key])) for key in ("ages_mean", "ages_std", "fe_params", "cov_re", "noise_std"))

    m = LMEModel("lme", with_random_slope_age=slope)
    cur, ip, estimated, refit_after_estimate, n_changes = None, None, False, False, 0
    for op in case["ops"]:
        kind = op[0]
        if kind in ("fit", "load"):
            k = op[1]
            fr = fresh_of(k)
            if fr is None:
                col.exclude("lme-reuse:fit-refused-or-library-failure")
                return
            try:
                with _quiet(), warnings.catch_warnings():
                    warnings.simplefilter("ignore")
                    if kind == "fit" or cur is None:
                        m.fit(_lme_ingest(cohorts[k])[0], "lme_fit", force_independent_random_effects=bool(cohorts[k]["indep"]))
                    else:
                        m.load_parameters(dict(fr[0].parameters))
            except Exception as e:
                col.fail("lme-reuse", f"unexpected-exception:{kind}:" + exc_bucket(e), case, observed=repr(e), expected=f"{kind} succeeds like on a fresh model")
                return
            if not same_params(m.parameters, fr[0].parameters):
                col.fail("lme-reuse", f"parameters-differ-from-fresh-model:{kind}", case,
                         observed={k_: np.asarray(v).tolist() for k_, v in m.parameters.items()},
                         expected={k_: np.asarray(v).tolist() for k_, v in fr[0].parameters.items()})
                return
            refit_after_estimate = refit_after_estimate or (estimated and cur is not None)
            n_changes += 1
            cur, ip = k, None
            continue
        c = cohorts[cur]
        data, per = _lme_ingest(c)
        fm, fip = fresh_of(cur)
        if kind == "personalize" or ip is None:
            try:
                with _quiet(), warnings.catch_warnings():
                    warnings.simplefilter("ignore")
                    ip = m.personalize(data, "lme_personalize")
                got = {str(k_): _re_of(v, slope) for k_, v in ip.items()}
                ref = {str(k_): _re_of(v, slope) for k_, v in fip.items()}
            except Exception as e:
                col.fail("lme-reuse", "unexpected-exception:personalize:" + exc_bucket(e), case, observed=repr(e), expected="personalize succeeds")
                return
            if sorted(got) != sorted(ref) or any(not np.array_equal(got[k_], ref[k_]) for k_ in ref):
                col.fail("lme-reuse", "random-effects-differ-from-fresh-model", case, observed={k_: v.tolist() for k_, v in got.items()},
                         expected={k_: v.tolist() for k_, v in ref.items()})
                return
            if kind == "personalize":
                continue
        # ---- estimate: closed form of the CURRENT parameters + what a fresh model fitted on the same data predicts
        reqs = [r for r in c["requests"] if str(c["ids"][r["ind"]]) in per]
        if not reqs:
            continue
        tp, wanted = _timepoints_arg(reqs, c["ids"], c["api"])
        try:
            est = m.estimate(tp, ip)
            est_f = fm.estimate(tp, fip)
        except Exception as e:
            col.fail("lme-reuse", "unexpected-exception:estimate:" + exc_bucket(e), case, observed=repr(e), expected="estimate succeeds")
            return
        ser, ser_f = _lme_series(est, wanted, c["api"]), _lme_series(est_f, wanted, c["api"])
        classes = ["lme-reuse:estimate", "lme-reuse:after-" + str(n_changes) + "-parameter-changes"]
        if refit_after_estimate:
            classes.append("lme:refit-after-estimate")
        if ser is None or ser_f is None:
            col.fail("lme-reuse", "trajectory-shape", case, observed=str(type(est)), expected="(n_ages, 1) per requested individual")
            return
        P = m.parameters
        mean_m, std_m, fe_m = float(P["ages_mean"]), float(P["ages_std"]), np.asarray(P["fe_params"], dtype=float)
        bad = False
        for (id_, ages, ys), (_, _, yf) in zip(ser, ser_f):
            re = _re_of(ip[str(id_)], slope)
            b0, b1 = float(re[0]), (float(re[1]) if slope else 0.0)
            an = (np.array([float(x) for x in ages]) - mean_m) / std_m
            ref = fe_m[0] + b0 + (fe_m[1] + b1) * an
            tol = 2e-6 * (abs(fe_m[0]) + abs(b0) + np.abs((fe_m[1] + b1) * an)) + 1e-7
            if not (np.abs(ys - ref) <= tol).all():
                col.fail("lme-reuse", "trajectory-line-of-current-parameters", case, observed={str(id_): dict(ages=list(ages), values=ys.tolist())}, expected=ref.tolist())
                bad = True
                break
            if not (np.abs(ys - yf) <= tol).all():
                col.fail("lme-reuse", "trajectory-differs-from-fresh-model", case, observed={str(id_): ys.tolist()}, expected=yf.tolist())
                bad = True
                break
        estimated = True
        col.case(classes=classes, nontrivial=(jhash([case, len(classes), n_changes]) if refit_after_estimate else None),
                 sample=dict(engine="lme-reuse", ops=case["ops"], slope=slope, n_individuals=[len(c_["ids"]) for c_ in cohorts]))
        if bad:
            return


def shard_lme_history(seed: int, n_examples: int, shard: int = 0):
    env.import_leaspy()
    col = Collector(PROP, f"lme-reuse-{shard}")
    drive(col, lme_history_case(), body_lme_history, n_examples=n_examples, seed=shard_seed(seed, shard, salt=4), sub_check="lme-reuse")
    return col


# ------------------------------------------------------------------------------------------------
# input classes excluded by construction: dedicated reproducers (recorded as notes, never as violations)
# ------------------------------------------------------------------------------------------------
def repro_empty_ages():
    """estimate({id: []}): ConstantModel returns shape (0,) instead of (0, n_features) (and the DataFrame form raises for
    >= 2 features); LMEModel raises ValueError inside statsmodels.add_constant."""
    import numpy as np
    import pandas as pd

    from leaspy.models import ConstantModel, LMEModel

    out = {}
    df = pd.DataFrame({"ID": ["a", "a", "b"], "TIME": [1.0, 2.0, 3.0], "x": [0.1, 0.2, 0.3], "y": [0.5, NAN, 0.7]})
    with _quiet():
        m = ConstantModel("constant")
        ip = m.personalize(df, "constant_prediction", prediction_type="mean")
    try:
        out["constant"] = "shape " + str(np.asarray(m.estimate({"a": []}, ip)["a"]).shape)
    except Exception as e:
        out["constant"] = "raises " + type(e).__name__
    rows = [[f"s{i}", 60.0 + i + 2.5 * j, 1.0 + 0.1 * ((i * 7) % 5) + 0.05 * j * (1 + i % 3) + 0.02 * ((i + j) % 3)] for i in range(10) for j in range(3)]
    d2 = pd.DataFrame(rows, columns=["ID", "TIME", "y"])
    try:
        with _quiet(), warnings.catch_warnings():
            warnings.simplefilter("ignore")
            lm = LMEModel("lme", with_random_slope_age=False)
            lm.fit(d2, "lme_fit")
            ip2 = lm.personalize(d2, "lme_personalize")
        try:
            out["lme"] = "shape " + str(np.asarray(lm.estimate({"s0": []}, ip2)["s0"]).shape)
        except Exception as e:
            out["lme"] = "raises " + type(e).__name__
    except Exception as e:  # pragma: no cover
        out["lme"] = "fit failed " + type(e).__name__
    return out


def repro_scalar_age():
    """estimate({id: 5.0}) - 'a unique time-point' per the estimate docstring: ConstantModel raises TypeError (len of a float)."""
    import numpy as np
    import pandas as pd

    from leaspy.models import ConstantModel

    df = pd.DataFrame({"ID": ["a", "a"], "TIME": [1.0, 2.0], "x": [0.1, 0.2]})
    with _quiet():
        m = ConstantModel("constant")
        ip = m.personalize(df, "constant_prediction", prediction_type="last")
    try:
        return "shape " + str(np.asarray(m.estimate({"a": 5.0}, ip)["a"]).shape)
    except Exception as e:
        return "raises " + type(e).__name__


def shard_edges(shard: int = 0):
    env.import_leaspy()
    col = Collector(PROP, "edges")
    e = repro_empty_ages()
    col.notes.append(f"excluded class empty-age-list: constant -> {e['constant']} (documented shape (0, n_features)); lme -> {e['lme']}")
    col.notes.append(f"excluded class scalar-age (constant model): {repro_scalar_age()} (estimate documents 'a unique time-point or a list')")
    # the refused spelling of the docstrings vs the accepted enum value
    from leaspy.models import ConstantModel
    import pandas as pd

    df = pd.DataFrame({"ID": ["a"], "TIME": [1.0], "x": [0.1]})
    try:
        with _quiet():
            ConstantModel("constant").personalize(df, "constant_prediction", prediction_type="last_known")
        col.notes.append("'last_known' accepted")
    except Exception as ex:
        col.notes.append(f"'last_known' (docstring spelling) refused with {type(ex).__name__}; 'last-known' is the accepted value")
    return col


# ------------------------------------------------------------------------------------------------
def shards(tier: str, seed: int):
    specs = []
    if tier == "quick":
        n_lme, max_n, n_const, n_hist, n_reuse = 40, 24, 260, 40, 40
    else:
        n_lme, max_n, n_const, n_hist, n_reuse = 1000, 40, 5000, 300, 1000
    for s in range(16):
        specs.append((MOD, "shard_lme", dict(seed=seed, n_examples=n_lme, max_n=max_n, shard=s)))
    for s in range(8):
        specs.append((MOD, "shard_lme_history", dict(seed=seed, n_examples=n_hist, shard=s)))
    for s in range(16):
        specs.append((MOD, "shard_constant", dict(seed=seed, n_examples=n_const, shard=s)))
    for s in range(8):
        specs.append((MOD, "shard_reuse", dict(seed=seed, n_examples=n_reuse, shard=s)))
    specs.append((MOD, "shard_edges", dict()))
    return specs


def replay(sub_check: str, inp):
    env.import_leaspy()
    col = Collector(PROP, "replay")
    if sub_check in ("constant", "constant-direct"):
        body_constant(col, inp)
    elif sub_check == "lme":
        body_lme(col, inp)
    elif sub_check == "constant-reuse":
        body_reuse(col, inp)
    elif sub_check == "lme-reuse":
        body_lme_history(col, inp)
    return col.failures
