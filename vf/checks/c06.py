"""C06 - missing and padded observations never influence any result.

Metamorphic / differential: a generated cohort is loaded once (reference `Dataset`) and once more with tensor surgery
(variant): every masked position of `values` - and every padded position of `timepoints` - overwritten with a drawn fill value
from {0, 1, -7.5, 1e30, NaN, +inf, -inf}, and/or 1-5 extra all-masked padding visits (filled with garbage) appended to every
individual. Reference and variant must give the same likelihood terms, statistics, parameter updates, fits, personalisation
results; observation counts must equal the independently counted non-NaN cells of the table; nothing aggregated may be non-finite.
"""
from __future__ import annotations

import copy
import math

from hypothesis import strategies as st

from vf.checks.c01 import fast_copy, fresh_state, same
from vf.core import env, gen
from vf.core.harness import Collector, drive, exc_bucket, jhash, shard_seed

PROP = "C06"
MOD = "vf.checks.c06"
RULE = (
    "Hypothesis cases: model kind (logistic, linear, shared-speed, joint, logistic+Bernoulli) x noise structure x generated cohort (2-8 "
    "individuals, 1-6 visits, sparse / feature-missing / complete patterns, different visit counts) x fill value x extra padding 0-5 x one "
    "downstream computation among {maximisation step, seeded 6-12 iteration fit, scipy_minimize, mean_posterior, mode_posterior}; likelihood "
    "terms, model values at real visits and observation counts are compared in every case. Non-trivial = >= 1 real visit with some but not all "
    "features missing, >= 2 individuals with different visit counts (true padding) and a non-finite fill; distinct by case."
)
ASSUMPTIONS = [
    "Variants are built by surgery on Dataset.values / mask / timepoints (masked and padded positions only); real observations, real ages and the mask on real entries are untouched.",
    "Bit-exact equality when the tensor shapes are unchanged (fill-only variants); with extra padding the reduction order may change: rtol 1e-5 on terms, statistics and updates (plus, for quantities reduced from entries of both signs - attachment terms, the noise variance - the float32 rounding error relative to the summed magnitudes of those entries), and chain-based results (fit, mean/mode posterior) are only compared for fill-only variants.",
    "LeaspyConvergenceError in the reference fit ends the case as rejected input (then the variant must fail the same way).",
]
REQUIRED_CLASSES = {"fill:nan": 25, "fill:inf": 25, "fill:-inf": 20, "fill:1e30": 25, "pad:extra": 120, "down:fit": 50, "down:mstep": 60,
                    "down:scipy_minimize": 30, "down:mean_posterior": 20, "down:mode_posterior": 20, "kind:bernoulli": 40, "kind:joint": 40,
                    "noise:scalar-multivariate": 30, "down:noise-over-fit": 30, "nontrivial": 40}

FILLS = {"0": 0.0, "1": 1.0, "-7.5": -7.5, "0.5": 0.5, "1e30": 1e30, "nan": float("nan"), "inf": float("inf"), "-inf": float("-inf")}


class Fail(Exception):
    def __init__(self, bucket, observed="", expected=""):
        self.bucket, self.observed, self.expected = bucket, observed, expected


def make_variant(ds0, data, fill: float, pad: int):
    """A second Dataset on the same data with garbage under the mask / in the padding (+ `pad` extra padded visits)."""
    import torch

    from leaspy.io.data import Dataset

    ds = Dataset(data)
    vals = ds.values.clone()
    mask = ds.mask.clone()
    tps = ds.timepoints.clone()
    n, tmax = tps.shape
    vals[mask == 0] = fill
    for i, k in enumerate(ds.n_visits_per_individual):
        if k < tmax:
            tps[i, k:] = fill
    if pad:
        vals = torch.cat([vals, torch.full((n, pad, vals.shape[2]), fill, dtype=vals.dtype)], dim=1)
        mask = torch.cat([mask, torch.zeros((n, pad, mask.shape[2]), dtype=mask.dtype)], dim=1)
        tps = torch.cat([tps, torch.full((n, pad), -fill if math.isfinite(fill) else fill, dtype=tps.dtype)], dim=1)
        ds.n_visits_max = ds.n_visits_max + pad
    ds.values, ds.mask, ds.timepoints = vals, mask, tps
    return ds


def cmp(a, b, exact: bool, what: str, rtol=1e-5, mag=0.0):
    """mag: summed magnitude of the entries the compared quantity is reduced from, when these are of both signs and may
    cancel (attachment = sum of 0.5 r^2/sigma^2 + log sigma + const; variance = y^2 - 2ym + m^2): with extra padding the
    reduction order changes and the rounding error is relative to that magnitude, not to the net value."""
    import torch

    from leaspy.utils.weighted_tensor import WeightedTensor

    if isinstance(a, WeightedTensor):
        a = a.weighted_value
    if isinstance(b, WeightedTensor):
        b = b.weighted_value
    a, b = torch.as_tensor(a), torch.as_tensor(b)
    if a.shape != b.shape:
        raise Fail(f"{what}:shape-differs", tuple(b.shape), tuple(a.shape))
    if not bool(torch.isfinite(b.double()).all()) and bool(torch.isfinite(a.double()).all()):
        raise Fail(f"{what}:non-finite-with-garbage-under-mask", b.flatten()[:6].tolist(), a.flatten()[:6].tolist())
    if exact:
        if not same(a, b):
            raise Fail(f"{what}:differs(bit-exact)", b.flatten()[:6].tolist(), a.flatten()[:6].tolist())
    else:
        fin = a.double()[torch.isfinite(a.double())]
        scale = float(fin.abs().max()) if fin.numel() else 0.0
        if not bool(torch.allclose(a.double(), b.double(), rtol=rtol, atol=rtol * max(scale, 1e-6) + float(mag), equal_nan=True)):
            raise Fail(f"{what}:differs(rtol {rtol})", b.flatten()[:6].tolist(), a.flatten()[:6].tolist())


def set_latents(model, s, ds, vals):
    from leaspy.variables.specs import IndividualLatentVariable

    model.put_individual_parameters(s, ds)
    with s.auto_fork(None):
        for k in sorted(s.dag.sorted_variables_by_type.get(IndividualLatentVariable, {})):
            cur = s._values[k]
            s[k] = cur + 0.3 * gen.tensor_from(vals, tuple(cur.shape), like=cur)


def body(col: Collector, case):
    import torch

    from leaspy.algo import AlgorithmSettings
    from leaspy.exceptions import LeaspyConvergenceError, LeaspyInputError

    cfg, cohort = case["cfg"], case["cohort"]
    fill = FILLS[case["fill"]]
    pad = case["pad"]
    exact = pad == 0
    stats = gen.cohort_stats(cohort)
    multiv = len(cohort["features"]) > 1
    kind_cls = "kind:bernoulli" if cfg["kwargs"].get("obs_models") == "bernoulli" else "kind:" + cfg["kind"]
    classes = [kind_cls, "fill:" + case["fill"], "pad:extra" if pad else "pad:none", "down:" + case["down"]]
    if cfg["kwargs"].get("obs_models") == "gaussian-scalar" and multiv:
        classes.append("noise:scalar-multivariate")
    try:
        df, data, ds0 = gen.dataset_from_case(cohort)
        ds1 = make_variant(ds0, data, fill, pad)
        # ---- observation counts vs the table
        nf = len(cohort["features"])
        n_cells = sum(1 for r in cohort["rows"] for v in r[2:2 + nf] if v is not None)
        model = gen.build_model(cfg)
        try:
            model.initialize(ds0)
        except Exception as e:
            if type(e).__name__ == "ConvergenceError":
                col.exclude("joint-init-weibull-fit-not-converged")
                return
            raise
        s0 = model.state
        with s0.auto_fork(None):
            model.put_data_variables(s0, ds0)
        set_latents(model, s0, ds0, case["lat"])
        s1 = fresh_state(s0)
        with s1.auto_fork(None):
            model.put_data_variables(s1, ds1)
        t0 = ds0.timepoints.shape[1]
        # ---- likelihood terms, model values at real visits
        mag_att = 0.0
        if "y" in s0.dag and "noise_std" in s0.dag:
            w0 = s0["y"].weight
            ls = float(torch.as_tensor(s0["noise_std"]).double().log().abs().max()) + 1.0
            mag_att = 1e-5 * float(w0.sum()) * ls  # whole cohort (also bounds each individual's share)
        for name in ("nll_attach_ind", "nll_attach", "nll_regul_ind_sum_ind"):
            if name in s0.dag:
                cmp(s0[name], s1[name], exact, "terms:" + name, mag=mag_att if name.startswith("nll_attach") else 0.0)
        for name in ("nll_attach_y_ind", "nll_attach_event_ind"):
            if name in s0.dag:
                cmp(s0[name], s1[name], exact, "terms:" + name, mag=mag_att if name == "nll_attach_y_ind" else 0.0)
        visit_real = ds0.mask.to(torch.bool).any(dim=2)
        m0, m1 = s0["model"], s1["model"]
        m0v = (m0.value if hasattr(m0, "value") else m0)[:, :t0]
        m1v = (m1.value if hasattr(m1, "value") else m1)[:, :t0]
        cmp(m0v[visit_real], m1v[visit_real], exact, "model-at-real-visits")
        for name in ("n_obs", "n_obs_per_ft", "y_L2", "y_L2_per_ft"):
            if name in s0.dag:
                cmp(s0[name], s1[name], exact, "counts:" + name)
        if "n_obs" in s0.dag and int(s1["n_obs"]) != n_cells:
            raise Fail("counts:n_obs-differs-from-non-NaN-cells", int(s1["n_obs"]), n_cells)
        if "n_obs_per_ft" in s0.dag and int(s1["n_obs_per_ft"].sum()) != n_cells:
            raise Fail("counts:n_obs_per_ft-differs-from-non-NaN-cells", s1["n_obs_per_ft"].tolist(), n_cells)
        # ---- downstream
        down = case["down"]
        if down == "mstep":
            res = []
            for s in (s0, s1):
                c = fresh_state(s)
                c.auto_fork_type = None
                suff = model.compute_sufficient_statistics(c)
                for burn in (True, False):
                    c2 = fresh_state(c)
                    c2.auto_fork_type = None
                    try:
                        model.update_parameters(c2, suff, burn_in=burn)
                        res.append({p: c2[p].clone() for p in model.parameters_names})
                    except LeaspyConvergenceError:
                        res.append("collapsed")
                # summed statistics
                res.append({k: (v.sum() if hasattr(v, "weight") else None) for k, v in suff.items()})
            for a, b, tag in ((res[0], res[3], "burn-in"), (res[1], res[4], "memory")):
                if isinstance(a, str) or isinstance(b, str):
                    if a != b:
                        raise Fail("mstep:convergence-error-depends-on-garbage", b if isinstance(b, str) else "ok", a if isinstance(a, str) else "ok")
                    continue
                for p in a:
                    mag_p = 0.0
                    if p == "noise_std" and "y" in s0.dag:
                        # sigma^2 = mean(y^2 - 2ym + m^2) cancels in float32 for tight fits: d(sigma) = d(var) / (2 sigma)
                        y_ = s0["y"]
                        w_ = y_.weight.double()
                        yv_ = torch.where(w_ > 0, y_.value.double(), torch.zeros_like(w_))
                        mv_ = torch.where(w_ > 0, (m0.value if hasattr(m0, "value") else m0).double(), torch.zeros_like(w_))
                        S_ = float(((yv_ * yv_).sum() + 2 * (yv_ * mv_).abs().sum() + (mv_ * mv_).sum()) / w_.sum().clamp_min(1))
                        mag_p = 16 * 1.1920929e-07 * S_ / (2 * max(float(a[p].double().abs().min()), 1e-12))
                    cmp(a[p], b[p], exact, f"mstep:{tag}:{p}", mag=mag_p)
            for k in res[2]:
                if res[2][k] is not None:
                    cmp(res[2][k], res[5][k], exact, "statistics:sum:" + k)
            # "noise estimates use observed entries only": direct float64 reference on the variant (Gaussian noise)
            if "noise_std" in model.parameters_names and not isinstance(res[3], str):
                y = s1["y"]
                w = y.weight.double()
                yv = torch.where(w > 0, y.value.double(), torch.zeros_like(w))
                mv = torch.where(w > 0, (m1.value if hasattr(m1, "value") else m1).double(), torch.zeros_like(w))
                got = res[3]["noise_std"].double()
                dims = tuple(range(yv.ndim)) if got.numel() == 1 and cfg["kwargs"].get("obs_models") == "gaussian-scalar" else (0, 1)
                n_obs = w.sum(dims)
                var = ((yv - mv) ** 2).sum(dims) / n_obs
                tol = 16 * 1.1920929e-07 * ((yv * yv).sum(dims) + 2 * (yv * mv).abs().sum(dims) + (mv * mv).sum(dims)) / n_obs + 2e-4 * var
                if bool(((got.reshape(var.shape) ** 2 - var).abs() > tol).any()):
                    raise Fail("mstep:noise-estimate-not-rms-residual-over-observed-entries", got.flatten()[:4].tolist(), var.sqrt().flatten()[:4].tolist())
        elif down in ("fit", "scipy_minimize", "mean_posterior", "mode_posterior"):
            if not exact and down != "scipy_minimize":
                col.exclude("chain-based-downstream-skipped-for-extra-padding")
            else:
                outs = []
                for ds in (ds0, ds1):
                    mm = gen.build_model(cfg)
                    if down == "fit":
                        try:
                            mm.fit(copy.copy(ds), algorithm_settings=AlgorithmSettings("mcmc_saem", n_iter=case["n_iter"], seed=case["seed"], progress_bar=False))
                            outs.append({p: v.clone() for p, v in mm.parameters.items()})
                        except LeaspyConvergenceError:
                            outs.append("collapsed")
                        except LeaspyInputError as e:
                            # e.g. a sampler scale derived from an initial value that is exactly 0: the run is refused for the
                            # reference as well - not a matter of masked entries (the variant must be refused identically)
                            outs.append("refused:" + exc_bucket(e))
                    else:
                        # personalise with the parameters of the (reference-)initialised model
                        mm.initialize(ds0)
                        kw = dict(seed=case["seed"], progress_bar=False)
                        if down != "scipy_minimize":
                            kw["n_iter"] = case["n_iter"] + 4
                        else:
                            kw["use_jacobian"] = False
                        ip = mm.personalize(ds, down, **kw)
                        outs.append({f"{i}:{k}": torch.as_tensor(v) for i, d in ip.items() for k, v in d.items()})
                a, b = outs
                if isinstance(a, str) or isinstance(b, str):
                    if a != b:
                        raise Fail(f"{down}:convergence-error-depends-on-garbage", str(b)[:50], str(a)[:50])
                    col.exclude("reference-run-ended-with:" + str(a)[:80])
                else:
                    if set(a) != set(b):
                        raise Fail(f"{down}:keys-differ", sorted(b)[:5], sorted(a)[:5])
                    for p in a:
                        cmp(a[p], b[p], exact, f"{down}:{p}", rtol=1e-4)
    except Fail as f:
        col.fail("variant", f.bucket, case, observed=f.observed, expected=f.expected)
        col.case(classes=classes)
        return
    except gen.InitRejected as e:
        col.exclude(str(e))
        return
    except (RuntimeError, ValueError, TypeError, IndexError, KeyError, AssertionError, AttributeError) as e:
        col.fail("variant", "unexpected-exception:" + exc_bucket(e), case, observed=repr(e)[:400], expected="same result as with zero-filled masked entries")
        col.case(classes=classes)
        return
    nt = stats["partial_visits"] >= 1 and len(stats["visit_counts"]) >= 2 and not math.isfinite(fill)
    if nt:
        classes.append("nontrivial")
    col.case(classes=classes, nontrivial=jhash(case) if nt else None,
             sample=dict(model=cfg, fill=case["fill"], pad=pad, down=case["down"], n_ind=stats["n_ind"], visit_counts=stats["visit_counts"],
                         partial_visits=stats["partial_visits"], rows=cohort["rows"][:4]))


@st.composite
def variant_case(draw, kinds, bernoulli=False):
    cfg = draw(gen.model_cfg(kinds=kinds, dim=(1, 3)))
    if bernoulli:
        cfg = dict(kind="logistic", kwargs=dict(dimension=cfg["kwargs"]["dimension"], source_dimension=cfg["kwargs"]["source_dimension"], obs_models="bernoulli"))
    feats = [f"f{j}" for j in range(cfg["kwargs"]["dimension"])]
    cohort = draw(gen.cohort(kind=gen.data_kind_for(cfg), n_ind=(max(3, gen.min_ind_for(cfg)), 8), n_visits=(1, 6), features=feats,
                             event=cfg["kind"] == "joint", id_kinds=("s",), shuffle=False))
    return dict(cfg=cfg, cohort=cohort, fill=draw(st.sampled_from(sorted(FILLS))), pad=draw(st.sampled_from([0, 0, 0, 1, 3, 5])),
                down=draw(st.sampled_from(["mstep", "fit", "scipy_minimize", "mean_posterior", "mode_posterior", "mstep", "fit"])),
                lat=draw(st.lists(gen.f32(-2, 2), min_size=1, max_size=6)), n_iter=draw(st.integers(6, 12)), seed=draw(st.integers(0, 999)))


def shard_run(kinds, seed: int, n_examples: int, shard: int = 0, bernoulli: bool = False):
    env.import_leaspy()
    col = Collector(PROP, f"variant-{'bernoulli' if bernoulli else '+'.join(kinds)}-{shard}")
    drive(col, variant_case(tuple(kinds), bernoulli), body, n_examples=n_examples, seed=shard_seed(seed, shard, 6))
    return col


def shard_noise(kinds, seed: int, n_examples: int, shard: int = 0):
    """ "Observation counts and noise estimates use observed entries only" along whole fits (memory-less phase, first iteration
    with memory, averaged statistics): the per-iteration float64 oracle of C04 restricted to the noise level, on generated cohorts.
    (A metamorphic fill/padding relation cannot see a noise estimate that wrongly includes *model* values at missing entries.)"""
    env.import_leaspy()
    from vf.checks import c04

    col = Collector(PROP, f"noise-over-fit-{'+'.join(kinds)}-{shard}")

    def body_noise(c, case):
        before = len(c.failures)
        c04.body(c, case)
        for f in c.failures[before:]:
            f["sub_check"] = "noise-over-fit"
        c.cls("down:noise-over-fit")

    drive(col, c04.fit_case(tuple(kinds)), body_noise, n_examples=n_examples, seed=shard_seed(seed, shard, 66))
    return col


def shards(tier: str, seed: int):
    n = dict(quick=55, thorough=700)[tier]
    sets = [(("logistic",), False), (("joint",), False), (("logistic",), True), (("linear",), False), (("shared_speed_logistic",), False),
            (("logistic", "joint"), False), (("logistic",), True), (("joint",), False)]
    specs = [(MOD, "shard_run", dict(kinds=sets[k % len(sets)][0], bernoulli=sets[k % len(sets)][1], seed=seed, n_examples=n, shard=k)) for k in range(16)]
    m = dict(quick=12, thorough=150)[tier]
    for k, ks in enumerate([("logistic",), ("linear", "logistic"), ("joint",), ("shared_speed_logistic", "logistic")]):
        specs.append((MOD, "shard_noise", dict(kinds=ks, seed=seed, n_examples=m, shard=100 + k)))
    return specs


def replay(sub_check: str, inp):
    env.import_leaspy()
    col = Collector(PROP, "replay")
    if sub_check in ("noise-over-fit", "m-step", "fit"):
        from vf.checks import c04

        c04.body(col, {k: v for k, v in inp.items() if k != "iteration"})
    else:
        body(col, inp)
    return col.failures
