"""C07 - individuals are conditionally independent and order-equivariant.

Metamorphic relations on generated cohorts / models / latent values:
  others   : replace the observed values and latent values of every individual except i -> i's attachment and regularity terms,
             its sampler decision and new value (same position-indexed draws) and its personalised parameters are bit-identical
  alone    : evaluate i in a single-individual dataset -> its terms change by no more than rounding (rtol 1e-5)
  permute  : re-order individuals (and relabel them so that the sorted-id order differs from the table order) -> per-individual
             outputs are permuted exactly, totals agree up to summation order and equal the sum of per-individual terms,
             model initialisation gives the same parameters
  workers  : scipy_minimize with n_jobs in {1, 2, 4} -> identical results
  hashseed : the same personalisation in sub-processes with PYTHONHASHSEED in {0,1,2,3} (what joblib workers get) -> identical
"""
from __future__ import annotations

import hashlib
import json
import subprocess
import sys

from hypothesis import strategies as st

from vf.checks.c01 import fast_copy, fresh_state, same
from vf.core import env, gen, observe
from vf.core.harness import Collector, drive, exc_bucket, jhash, shard_seed

PROP = "C07"
MOD = "vf.checks.c07"
RULE = (
    "Hypothesis cases: model kind (logistic, linear, shared-speed, joint; scalar/diagonal noise; 0-2 sources) x generated cohort (3-8 "
    "individuals with different visit counts and missing cells) x latent values x focus individual i x replacement values for the other "
    "individuals x a permutation + relabelling of individuals x sampler seed x personalisation algorithm; worker-count and hash-seed "
    "relations on a smaller number of cases (process start-up cost). Non-trivial = >= 3 individuals, a non-identity permutation and "
    "individuals with different visit counts; distinct by case."
)
ASSUMPTIONS = [
    "mixture_logistic is not generated here: its initialisation assigns individuals to initial clusters by position (order-dependent by design) and its per-cluster term shapes differ; the locality of its individual sampler decisions is judged by C03.",
    "Replacing the other individuals keeps their ages and missingness pattern (tensor shapes unchanged), so bit-identity is decidable; draws are position-indexed (same seed -> same draw for row i).",
    "Totals vs sums of per-individual terms and alone-vs-batch comparisons use rtol 1e-5 (summation order) plus, for attachment terms (sums of entries of both signs that may cancel to ~0), 1e-5 of the summed magnitudes n_obs*(|log sigma|+1); `others` relations are bit-exact (same positions); under a permutation per-individual terms are compared within 64 ulp (vectorised kernels round position-dependently) and scipy_minimize outputs within 1e-4 once the start-point draws are permuted with the individuals (the harness re-seeds torch per identifier just before each subject's start point is drawn); initial parameters within one 2^-16 rounding step.",
    "Personalised parameters are compared across a permutation only for scipy_minimize (deterministic, per-individual); chain-based algorithms are compared under `others` with positions fixed.",
]
REQUIRED_CLASSES = {"others:personalize:one-other-individual-overflows": 10, "others": 150, "alone": 150, "permute": 150, "permute:non-identity": 100, "others:sampler-step": 100, "others:personalize": 60,
                    "permute:initialisation": 60, "kind:joint": 60, "workers": 6, "hashseed": 2, "nontrivial": 80}

WORDS = ["zeta", "alpha", "Mike", "bravo", "x10", "x9", "kilo", "Beta", "s10", "s2", "delta", "A"]


class Fail(Exception):
    def __init__(self, bucket, observed="", expected=""):
        self.bucket, self.observed, self.expected = bucket, observed, expected


def ids_in_order(cohort):
    seen = []
    for r in cohort["rows"]:
        if r[0] not in seen:
            seen.append(r[0])
    return seen


def replace_others(cohort, keep_id, vals, kind, huge=None):
    """Same ages and missingness, new observed values for every individual except `keep_id` (events of the others changed too).
    huge: the first replaced value of a continuous outcome becomes this number (another individual's likelihood overflows)."""
    nf = len(cohort["features"])
    out = dict(cohort)
    rows = []
    k = 0
    for r in cohort["rows"]:
        r = list(r)
        if r[0] != keep_id:
            for j in range(2, 2 + nf):
                if r[j] is not None:
                    v = vals[k % len(vals)]
                    k += 1
                    if kind == "logistic":
                        r[j] = round(min(0.99, max(0.01, 0.5 + 0.45 * v)), 5)
                    elif kind == "linear":
                        r[j] = round(2.5 * v, 5)
                    else:
                        r[j] = 1.0 if v > 0 else 0.0
                    if huge is not None and k == 1 and kind in ("logistic", "linear"):
                        r[j] = float(huge)
        rows.append(r)
    out["rows"] = rows
    return out


def permute_cohort(cohort, perm, relabel):
    ids = ids_in_order(cohort)
    order = [ids[p] for p in perm]
    name = {old: (WORDS[j % len(WORDS)] + ("" if j < len(WORDS) else str(j)) if relabel else old) for j, old in enumerate(order)}
    rows = []
    for old in order:
        for r in cohort["rows"]:
            if r[0] == old:
                rows.append([name[old]] + list(r[1:]))
    out = dict(cohort)
    out["rows"] = rows
    out["id_kind"] = "words" if relabel else cohort["id_kind"]
    return out, [name[o] for o in order]


def build(cfg, cohort, lat, lat_rows=None):
    """model initialised on the cohort + state with data and deterministic per-individual latent values."""
    from leaspy.variables.specs import IndividualLatentVariable

    df, data, ds = gen.dataset_from_case(cohort)
    m = gen.build_model(cfg)
    try:
        m.initialize(ds)
    except Exception as e:
        if type(e).__name__ == "ConvergenceError":
            raise gen.InitRejected("joint-init-weibull-fit-not-converged")
        raise
    s = m.state
    with s.auto_fork(None):
        m.put_data_variables(s, ds)
    m.put_individual_parameters(s, ds)
    return m, ds, s


def set_latents(s, rows_vals):
    """rows_vals: list (per individual, in state order) of lists of floats -> added to the current latent values."""
    import torch

    from leaspy.variables.specs import IndividualLatentVariable

    with s.auto_fork(None):
        for k in sorted(s.dag.sorted_variables_by_type.get(IndividualLatentVariable, {})):
            cur = s._values[k].clone()
            for i, vals in enumerate(rows_vals):
                row = gen.tensor_from(vals, tuple(cur[i].shape), like=cur)
                cur[i] = cur[i] + (0.4 if k != "tau" else 2.0) * row
            s[k] = cur


IND_TERMS = ("nll_attach_ind", "nll_regul_ind_sum_ind", "nll_regul_tau_ind", "nll_regul_xi_ind", "nll_regul_sources_ind", "nll_attach_y_ind", "nll_attach_event_ind")
TOTALS = (("nll_attach", "nll_attach_ind"), ("nll_regul_ind_sum", "nll_regul_ind_sum_ind"), ("nll_regul_tau", "nll_regul_tau_ind"), ("nll_regul_xi", "nll_regul_xi_ind"))


def tval(v):
    """plain tensor of a value (mixture kinds return some terms as WeightedTensor)"""
    from leaspy.utils.weighted_tensor import WeightedTensor

    return v.weighted_value if isinstance(v, WeightedTensor) else v


def individual_step(s, ds, name, seed, std_factor):
    import random as _r

    import torch

    algo = observe.make_samplers(s, ds)
    sampler = algo.samplers[name]
    sampler.std = sampler.std * std_factor
    torch.manual_seed(seed)
    _r.seed(seed)
    dec = []
    with observe.wrap_method(sampler, "_group_metropolis_step", after=lambda out, alpha: dec.append((fast_copy(alpha), out.clone()))):
        sampler.sample(s, temperature_inv=1.0)
    return dec[0], s._values[name]


def personalize(m, cohort, algo, seed, n_jobs=1, seed_by_id=None):
    """`seed_by_id`: harness-side re-seeding of torch just before each subject's start point is drawn, keyed by the subject's
    (original) identifier - this makes the start-point draws identifier-indexed instead of position-indexed, i.e. it permutes
    the draws together with the individuals (scipy_minimize, n_jobs=1 only)."""
    import torch

    df, data, ds = gen.dataset_from_case(cohort)
    if seed_by_id is not None:
        orig_put = m.put_individual_parameters

        def put_with_own_draw(state, dataset):
            torch.manual_seed(seed_by_id[str(dataset.indices[0])])
            return orig_put(state, dataset)

        m.put_individual_parameters = put_with_own_draw
    kw = dict(seed=seed, progress_bar=False)
    if algo == "scipy_minimize":
        kw.update(use_jacobian=False, n_jobs=n_jobs)
    else:
        kw.update(n_iter=14)
    try:
        ip = m.personalize(data, algo, **kw)
    finally:
        if seed_by_id is not None:
            del m.put_individual_parameters
    return {str(i): {k: torch.as_tensor(v).clone() for k, v in d.items()} for i, d in ip.items()}


def loaded_twin(m):
    """a model carrying only the parameters (what personalisation is documented to depend on)"""
    import os
    import tempfile

    from leaspy.models import BaseModel

    d = tempfile.mkdtemp(dir=os.getcwd())
    p = os.path.join(d, "m.json")
    m.save(p)
    return BaseModel.load(p)


def body(col: Collector, case):
    import torch

    cfg, cohort = case["cfg"], case["cohort"]
    ids = ids_in_order(cohort)
    n = len(ids)
    i = case["focus"] % n
    keep = ids[i]
    kind = gen.data_kind_for(cfg)
    stats = gen.cohort_stats(cohort)
    lat_rows = [[case["lat"][(r * 3 + c) % len(case["lat"])] for c in range(3)] for r in range(n)]
    base_classes = ["kind:" + cfg["kind"]]
    sample = dict(model=cfg, n_ind=n, focus=i, visit_counts=stats["visit_counts"], perm=case["perm"][:n], relabel=case["relabel"], algo=case["algo"])
    try:
        mA, dsA, sA = build(cfg, cohort, case["lat"])
        set_latents(sA, lat_rows)
        termsA = {t: tval(fast_copy(sA[t])) for t in IND_TERMS if t in sA.dag}
        # ---------------------------------------------------------------- totals are the sums of the per-individual terms
        for tot, per in TOTALS:
            if tot in sA.dag and per in sA.dag:
                a, b = tval(sA[tot]).double(), tval(sA[per]).double().sum()
                if not bool(torch.isfinite(tval(sA[per]).double()).all()):
                    col.exclude("totals-not-compared(non-finite per-individual term)")
                elif not torch.allclose(a, b, rtol=1e-5, atol=1e-6 * float(tval(sA[per]).double().abs().sum() + 1)):
                    raise Fail(f"totals:{tot}-is-not-the-sum-of-{per}", float(a), float(b))
        # ---------------------------------------------------------------- others
        cohB = replace_others(cohort, keep, case["other_vals"], kind, case.get("other_huge"))
        if case.get("other_huge") is not None and kind in ("logistic", "linear"):
            base_classes = base_classes + ["others:one-other-individual-overflows"]
        dfB, dataB, dsB = gen.dataset_from_case(cohB)
        sB = fresh_state(sA)
        with sB.auto_fork(None):
            mA.put_data_variables(sB, dsB)
        lat_rows_B = [lat_rows[r] if r == i else [v * -1.3 + 0.2 for v in lat_rows[r]] for r in range(n)]
        sB2 = fresh_state(sB)
        # start again from the un-shifted latents of A for row i: rebuild from scratch to be safe
        mB, _, sBf = mA, dsB, fresh_state(sA)
        with sBf.auto_fork(None):
            mA.put_data_variables(sBf, dsB)
            from leaspy.variables.specs import IndividualLatentVariable

            for k in sorted(sBf.dag.sorted_variables_by_type.get(IndividualLatentVariable, {})):
                cur = sBf._values[k].clone()
                for r in range(n):
                    if r != i:
                        cur[r] = cur[r] * 1.1 + (0.3 if k != "tau" else 1.5) * gen.tensor_from(lat_rows_B[r], tuple(cur[r].shape), like=cur)
                sBf[k] = cur
        for t, vA in termsA.items():
            vB = tval(sBf[t])
            if not same(vA[i], vB[i]):
                raise Fail(f"others:{t}-of-individual-depends-on-other-individuals", vB[i].tolist(), vA[i].tolist())
        col.case(classes=base_classes + ["others"], sample=None)
        # sampler step with the same position-indexed draws
        from leaspy.variables.specs import IndividualLatentVariable as ILV

        ind_vars = sorted(sA.dag.sorted_variables_by_type.get(ILV, {}))
        var = ind_vars[case["var"] % len(ind_vars)]
        sA1, sB1 = fresh_state(sA), fresh_state(sBf)
        (alA, accA), newA = individual_step(sA1, dsA, var, case["seed"], case["std_factor"])
        (alB, accB), newB = individual_step(sB1, dsB, var, case["seed"], case["std_factor"])
        if bool(accA[i]) != bool(accB[i]) or not same(newA[i], newB[i]) or not same(torch.as_tensor(alA)[i], torch.as_tensor(alB)[i]):
            raise Fail("others:sampler-decision-of-individual-depends-on-other-individuals",
                       f"accepted={bool(accB[i])} value={newB[i].tolist()} alpha={float(torch.as_tensor(alB)[i])}",
                       f"accepted={bool(accA[i])} value={newA[i].tolist()} alpha={float(torch.as_tensor(alA)[i])}")
        col.case(classes=["others:sampler-step"], sample=None)
        # personalisation of i
        if case["algo"] != "none":
            twin = loaded_twin(mA)
            pA = personalize(twin, cohort, case["algo"], case["seed"])
            pB = personalize(twin, cohB, case["algo"], case["seed"])
            a, b = pA[str(keep)], pB[str(keep)]
            for k in a:
                if not same(a[k], b[k]):
                    raise Fail(f"others:personalised-{case['algo']}-depends-on-other-individuals", f"{k} = {b[k].tolist()}", f"{k} = {a[k].tolist()}")
            col.case(classes=["others:personalize", "perso:" + case["algo"]] + (["others:personalize:one-other-individual-overflows"]
                     if "others:one-other-individual-overflows" in base_classes else []), sample=None)
        # ---------------------------------------------------------------- alone
        from leaspy.io.data import Dataset

        df, data, _ = gen.dataset_from_case(cohort)
        ds1 = Dataset(data[[keep]], no_warning=True)
        s1 = fresh_state(sA)
        with s1.auto_fork(None):
            mA.put_data_variables(s1, ds1)
            for k in ind_vars:
                s1[k] = sA._values[k][i:i + 1].clone()
        # an attachment term is a sum of entries 0.5 r^2/sigma^2 + log sigma + const that may cancel to ~0: the admitted
        # summation-order error is relative to the summed magnitudes of the entries, not to the net value
        mag = 0.0
        if "y" in sA.dag and "noise_std" in sA.dag:
            n_obs_i = float(sA["y"].weight[i].sum())
            mag = n_obs_i * (float(tval(sA["noise_std"]).double().log().abs().max()) + 1.0)
        mag_all = 0.0
        if "y" in sA.dag and "noise_std" in sA.dag:
            mag_all = float(sA["y"].weight.sum(dim=tuple(range(1, sA["y"].weight.ndim))).max()) * (float(tval(sA["noise_std"]).double().log().abs().max()) + 1.0)
        for t, vA in termsA.items():
            v1 = tval(s1[t])
            atol = 1e-6 + (1e-5 * (mag + float(vA[i].double().abs().sum())) if t.startswith("nll_attach") and bool(torch.isfinite(vA[i]).all()) else 0.0)
            if not torch.allclose(v1[0].double(), vA[i].double(), rtol=1e-5, atol=atol, equal_nan=True):
                raise Fail(f"alone:{t}-alone-differs-from-batch", v1[0].tolist(), vA[i].tolist())
        col.case(classes=["alone"], sample=None)
        # ---------------------------------------------------------------- permute (+ relabel)
        perm = sorted(range(n), key=lambda j: (case["perm"][j % len(case["perm"])], j))
        cohP, new_ids = permute_cohort(cohort, perm, case["relabel"])
        mP, dsP, sP = build(cfg, cohP, case["lat"])
        # initialisation is a function of the cohort, not of the order or names of individuals
        for p, v in mA.parameters.items():
            vP = mP.parameters[p]
            # initial values are rounded to multiples of 2^-16: a summation-order difference may move a value by one grid step
            if not torch.allclose(v.double(), vP.double(), rtol=2e-5, atol=2.0 ** -15):
                raise Fail("permute:initial-parameters-depend-on-order-or-names-of-individuals", f"{p} = {vP.flatten()[:4].tolist()}", f"{p} = {v.flatten()[:4].tolist()}")
        sA0 = mA_state0 = None
        # initial individual latent values are paired with the right individuals
        mA2, dsA2, sA2 = build(cfg, cohort, case["lat"])
        for k in (ind_vars if cfg["kind"] in ("joint", "mixture_logistic") else ()):  # other kinds start from random prior samples
            a, b = sA2._values[k], sP._values[k]
            if not torch.allclose(a[perm].double(), b.double(), rtol=1e-6, atol=1e-9):
                raise Fail("permute:initial-latent-values-paired-with-wrong-individuals", f"{k} = {b.flatten()[:6].tolist()}", f"{k} = {a[perm].flatten()[:6].tolist()}")
        col.case(classes=["permute:initialisation"], sample=None)
        # same population values, permuted latents -> per-individual terms permuted exactly
        sP = fresh_state(sA)
        with sP.auto_fork(None):
            mA.put_data_variables(sP, dsP)
            for k in ind_vars:
                sP[k] = sA._values[k][perm].clone()
        for t, vA in termsA.items():
            vP = tval(sP[t])
            # vectorised element-wise kernels may round differently by an ulp depending on the position in the vector
            eps = 1.2e-7 if vA.dtype == torch.float32 else 2.3e-16
            # (attachment terms: entries of both signs may cancel, the rounding error is relative to their summed magnitudes)
            atol_p = 64 * eps * (1.0 + (mag_all if t.startswith("nll_attach") else 0.0))
            if not torch.allclose(vA[perm].double(), vP.double(), rtol=64 * eps, atol=atol_p, equal_nan=True):
                raise Fail(f"permute:{t}-not-permuted", vP.tolist(), vA[perm].tolist())
        for tot, per in TOTALS:
            if tot in sA.dag:
                a, b = tval(sA[tot]).double(), tval(sP[tot]).double()
                per_abs = tval(sA[per]).double().abs()
                atol = 1e-6 * (float(per_abs[torch.isfinite(per_abs)].sum()) + 1)  # as in the totals relation: terms of both signs may cancel
                if not torch.allclose(a, b, rtol=1e-5, atol=atol, equal_nan=True):
                    raise Fail(f"permute:{tot}-changes-with-order", float(b), float(a))
        if case["algo"] == "scipy_minimize":
            twin = loaded_twin(mA)
            draw_of = {str(old): 1000 + 17 * j for j, old in enumerate(ids)}  # one start-point draw per individual
            draw_of_P = {str(new_ids[j]): draw_of[str(ids[p])] for j, p in enumerate(perm)}
            pA = personalize(twin, cohort, "scipy_minimize", case["seed"], seed_by_id=draw_of)
            pP = personalize(twin, cohP, "scipy_minimize", case["seed"], seed_by_id=draw_of_P)
            if list(pP) != [str(x) for x in new_ids]:
                raise Fail("permute:personalised-ids-not-in-input-order", list(pP), [str(x) for x in new_ids])
            for j, old in enumerate([ids[p] for p in perm]):
                a, b = pA[str(old)], pP[str(new_ids[j])]
                for k in a:
                    # same data, same start point (draws permuted with the individuals), single-individual states: same optimum
                    if not torch.allclose(a[k].double(), b[k].double(), rtol=1e-4, atol=1e-4):
                        raise Fail("permute:personalised-scipy_minimize-not-permuted", f"{k} = {b[k].tolist()}", f"{k} = {a[k].tolist()}")
    except Fail as f:
        col.fail("relations", f.bucket, case, observed=f.observed, expected=f.expected)
        col.case(classes=base_classes)
        return
    except gen.InitRejected as e:
        col.exclude(str(e))
        return
    except (RuntimeError, ValueError, TypeError, IndexError, KeyError, AssertionError, AttributeError) as e:
        col.fail("relations", "unexpected-exception:" + exc_bucket(e), case, observed=repr(e)[:400], expected="relations evaluated")
        col.case(classes=base_classes)
        return
    nonid = perm != list(range(n))
    nt = n >= 3 and nonid and len(stats["visit_counts"]) >= 2
    classes = ["permute"] + (["permute:non-identity"] if nonid else []) + (["permute:relabelled"] if case["relabel"] else []) + (["nontrivial"] if nt else [])
    col.case(classes=classes, nontrivial=jhash(case) if nt else None, sample=sample)


@st.composite
def rel_case(draw, kinds):
    cfg = draw(gen.model_cfg(kinds=kinds, dim=(1, 3)))
    feats = [f"f{j}" for j in range(cfg["kwargs"]["dimension"])]
    cohort = draw(gen.cohort(kind=gen.data_kind_for(cfg), n_ind=(max(3, gen.min_ind_for(cfg)), 8), n_visits=(1, 5), features=feats, event=cfg["kind"] == "joint",
                             id_kinds=("s", "digits"), shuffle=False))
    return dict(cfg=cfg, cohort=cohort, focus=draw(st.integers(0, 7)), lat=draw(st.lists(gen.f32(-1.5, 1.5), min_size=3, max_size=9)),
                other_vals=draw(st.lists(gen.f32(-1, 1), min_size=2, max_size=8)), perm=draw(st.lists(st.integers(0, 20), min_size=3, max_size=8)),
                relabel=draw(st.booleans()), var=draw(st.integers(0, 2)), seed=draw(st.integers(0, 9999)),
                std_factor=draw(st.sampled_from([0.1, 1.0, 1.0, 5.0])),
                algo=draw(st.sampled_from(["none", "none", "scipy_minimize", "mode_posterior", "mean_posterior"])),
                other_huge=draw(st.sampled_from([None, None, None, 1e20, -1e20, 1e30])))


def shard_rel(kinds, seed: int, n_examples: int, shard: int = 0):
    env.import_leaspy()
    col = Collector(PROP, f"relations-{'+'.join(kinds)}-{shard}")
    drive(col, rel_case(tuple(kinds)), body, n_examples=n_examples, seed=shard_seed(seed, shard, 7))
    return col


# ------------------------------------------------------------------------------------------------
# workers / hash seeds
# ------------------------------------------------------------------------------------------------
def fixed_case(k: int):
    """small deterministic cohorts + models for the process-level relations"""
    from vf.checks.c05 import fixed_cohort

    cfgs = [dict(kind="logistic", kwargs=dict(dimension=2, source_dimension=1, obs_models="gaussian-diagonal")),
            dict(kind="linear", kwargs=dict(dimension=2, source_dimension=1, obs_models="gaussian-scalar")),
            dict(kind="logistic", kwargs=dict(dimension=2, source_dimension=1, obs_models="gaussian-scalar")),
            dict(kind="joint", kwargs=dict(dimension=2, source_dimension=1, nb_events=1))]
    cfg = cfgs[k % len(cfgs)]
    return cfg, fixed_cohort("linear" if cfg["kind"] == "linear" else "logistic", 2, event=cfg["kind"] == "joint")


def digest(p):
    return hashlib.sha1(json.dumps({i: {k: v.tolist() for k, v in d.items()} for i, d in p.items()}, sort_keys=True).encode()).hexdigest()


def shard_workers(seed: int, n_cases: int):
    env.import_leaspy()
    col = Collector(PROP, "workers")
    for k in range(n_cases):
        cfg, cohort = fixed_case(k + seed)
        try:
            m, ds, s = build(cfg, cohort, [0.1])
            twin = loaded_twin(m)
            ref = personalize(twin, cohort, "scipy_minimize", 3, n_jobs=1)
            for nj in (2, 4):
                got = personalize(twin, cohort, "scipy_minimize", 3, n_jobs=nj)
                bad = [(i, kk) for i in ref for kk in ref[i] if not same(ref[i][kk], got[i][kk])]
                if list(got) != list(ref) or bad:
                    col.fail("workers", "result-depends-on-number-of-workers", dict(k=k + seed, n_jobs=nj), observed=str(bad[:3]), expected="identical to n_jobs=1")
                col.case(classes=["workers", f"n_jobs={nj}"], nontrivial=f"workers:{k + seed}:{nj}", sample=dict(model=cfg, n_jobs=nj, n_ind=len(ref)))
        except gen.InitRejected as e:
            col.exclude(str(e))
    # joblib keeps its (loky) worker processes alive for minutes: stop them so that this shard's process can exit at once
    try:
        from joblib.externals.loky import get_reusable_executor

        get_reusable_executor().shutdown(wait=True, kill_workers=True)
    except Exception:
        pass
    return col


_HS_SNIPPET = r"""
import json, sys, warnings
warnings.filterwarnings('ignore')
import io, contextlib
from vf.core import env
env.quiet_torch(); env.enter_scratch(); env.import_leaspy()
from vf.checks import c07
out = {}
with contextlib.redirect_stdout(io.StringIO()):
    for k in json.loads(sys.argv[1]):
        cfg, cohort = c07.fixed_case(k)
        import torch; torch.manual_seed(11)
        m, ds, s = c07.build(cfg, cohort, [0.1])
        twin = c07.loaded_twin(m)
        p = c07.personalize(twin, cohort, 'scipy_minimize', 3, n_jobs=1)
        terms = [float(x) for x in s['nll_regul_ind_sum_ind'].flatten()]
        out[str(k)] = [c07.digest(p), terms]
sys.stdout.write(json.dumps(out))
"""


def shard_hashseed(seed: int, ks):
    col = Collector(PROP, "hashseed")
    outs = {}
    for hs in ("0", "1", "2", "3"):
        p = subprocess.run([sys.executable, "-c", _HS_SNIPPET, json.dumps(list(ks))], env=env.child_env({"PYTHONHASHSEED": hs}),
                           capture_output=True, text=True, timeout=1200)
        if p.returncode != 0:
            raise RuntimeError(f"hash-seed sub-process failed: {p.stderr[-2000:]}")
        outs[hs] = json.loads(p.stdout.strip().splitlines()[-1])
    for k in outs["0"]:
        vals = {hs: outs[hs][k] for hs in outs}
        if len({json.dumps(v) for v in vals.values()}) != 1:
            col.fail("hashseed", "result-depends-on-string-hash-seed", dict(k=int(k)), observed={hs: v[0][:10] for hs, v in vals.items()}, expected="identical results in every process")
        col.case(classes=["hashseed"], nontrivial=f"hashseed:{k}", sample=dict(case=int(k), digests={hs: v[0][:10] for hs, v in vals.items()}))
    return col


def shards(tier: str, seed: int):
    n = dict(quick=22, thorough=160)[tier]
    ksets = [("logistic",), ("joint",), ("linear",), ("shared_speed_logistic",), ("logistic", "joint"), ("joint",), ("logistic", "linear")]
    specs = [(MOD, "shard_hashseed", dict(seed=seed, ks=[0, 1, 3] if tier == "quick" else list(range(8)))),
             (MOD, "shard_workers", dict(seed=seed, n_cases=3 if tier == "quick" else 12))]
    for k in range(14):
        specs.append((MOD, "shard_rel", dict(kinds=ksets[k % len(ksets)], seed=seed, n_examples=n, shard=k)))
    return specs


def replay(sub_check: str, inp):
    env.import_leaspy()
    col = Collector(PROP, "replay")
    if sub_check == "relations":
        body(col, inp)
    elif sub_check == "workers":
        return shard_workers(inp["k"], 1).failures
    elif sub_check == "hashseed":
        return shard_hashseed(0, [inp["k"]]).failures
    return col.failures
