"""C02 - a rejected proposal leaves no trace in the state.

Sub-checks (all on the real graphs of shipped model kinds, generated cohorts):
  ind-proposal : additive proposal on an individual latent variable, generated reads of individual-axis variables,
                 per-individual rejection mask, generated following history.
  pop-proposal : proposal on a population latent variable / parameter (block shapes of the population samplers) or on an
                 individual one, any reads, full rejection or acceptance, following history.
  sampler-step : the same invariants driven end-to-end through `sampler.sample` with recorded draws and decisions.
Oracles: (1) row-wise snapshot oracle: rejected rows == pre-proposal snapshot, accepted rows == from-scratch values at the
proposed point (bit-exact, NaN-aware); (2) twin oracle: every later read equals, bit for bit, the same read on a twin state in
which only the accepted part of the proposal was ever applied; (3) C01's scratch oracle on every later read.
"""
from __future__ import annotations

from hypothesis import strategies as st

from vf.checks.c01 import Unset, brief, fast_copy, fresh_state, same, scratch_eval
from vf.core import env, gen, observe
from vf.core.harness import Collector, drive, exc_bucket, jhash, shard_seed

PROP = "C02"
MOD = "vf.checks.c02"
RULE = (
    "Hypothesis cases on live model states (logistic/linear/shared-speed/joint/mixture; scalar/diagonal noise; 0-2 sources; n_ind 3-8): "
    "a latent variable, an additive proposal in one of the classes {normal, big, overflow (|d xi| up to 400, d tau 1e6, d sources 1e30)}, "
    "fork mode REF/COPY, a generated set of reads between proposal and decision (individual-axis variables only before a per-individual "
    "decision), a rejection mask (all / none / arbitrary subset), and a following history (aggregated reads, a second proposal, a parameter "
    "update). Sampler steps: all four sampler kinds with generated (possibly huge) proposal scales. "
    "Non-trivial = mixed mask (>=1 accepted and >=1 rejected) with >=1 derived individual-axis read before the decision and >=1 aggregated "
    "read afterwards (ind-proposal), or a rejected block proposal followed by >=1 derived read (pop-proposal / sampler-step); distinct by case."
)
ASSUMPTIONS = [
    "Reads between a proposal and a per-individual decision are restricted to variables carrying the individual axis (documented contract); a read that would evaluate a still-uncached variable without that axis is skipped and counted.",
    "Bit-exact comparison (NaN == NaN, -0.0 == 0.0); WeightedTensor values are compared where the weight is non-zero, weights exactly.",
    "The twin state is built by the harness with torch.where(accepted, proposed, previous) on the proposed variable only.",
]
REQUIRED_CLASSES = {"ind:mixed-mask": 100, "ind:overflow": 40, "pop:rejected": 80, "step:individual": 40, "step:population": 40, "toy-weighted": 300, "ind:proposal-other-dtype": 60, "step:extreme-state": 80, "ind:tensor-accessor-reads": 150, "nontrivial": 150}

OVERFLOW_SCALE = {"xi": 100.0, "tau": 2.5e5}


# ------------------------------------------------------------------------------------------------
def _ctx(cfg, cohort):
    """live state + name classification (cached per (cfg, cohort) within the process)."""
    key = jhash([cfg, cohort])
    hit = _CTX.get(key)
    if hit is not None:
        return hit
    _CTX.clear()
    import torch

    from leaspy.variables.specs import IndividualLatentVariable, LinkedVariable, ModelParameter, PopulationLatentVariable

    try:
        m, ds, s = gen.live_state(cfg, cohort, latents="mode")
    except gen.InitRejected as e:
        _CTX[key] = str(e)
        return _CTX[key]
    if any(not bool(torch.isfinite(s._values[k]).all()) for k in s.dag.sorted_variables_by_type.get(ModelParameter, {}) if s._values[k] is not None):
        _CTX[key] = "initialisation-produced-non-finite-parameters"
        return _CTX[key]
    # individuals away from the prior mode (deterministic pattern; prior sampling is not available for every kind)
    with s.auto_fork(None):
        for k in sorted(s.dag.sorted_variables_by_type.get(IndividualLatentVariable, {})):
            cur = s._values[k]
            s[k] = cur + 0.3 * gen.tensor_from([0.5, -0.7, 0.2, 1.1, -0.4, 0.9, -1.2], tuple(cur.shape), like=cur)
    s.precompute_all()
    dag = s.dag
    n = ds.n_individuals
    c = dict(model=m, ds=ds, state0=s, dag=dag, n=n)
    c["ind_axis"] = {k for k in dag.sorted_variables_names if s._values[k] is not None and s._values[k].ndim >= 1 and s._values[k].shape[0] == n}
    c["derived"] = [k for k in dag.sorted_variables_names if isinstance(dag[k], LinkedVariable)]
    c["ind_latent"] = sorted(dag.sorted_variables_by_type.get(IndividualLatentVariable, {}))
    c["pop_latent"] = sorted(dag.sorted_variables_by_type.get(PopulationLatentVariable, {}))
    c["params"] = sorted(k for k, v in dag.sorted_variables_by_type.get(ModelParameter, {}).items())
    c["ind_derived"] = [k for k in c["derived"] if k in c["ind_axis"]]
    c["agg_derived"] = [k for k in c["derived"] if k not in c["ind_axis"]]
    _CTX[key] = c
    return c


_CTX = {}


def _pick(lst, i):
    return lst[i % len(lst)]


def _delta(c, s, name, vals, klass):
    import torch

    cur = s._values[name]
    d = gen.tensor_from(vals, tuple(cur.shape), like=cur)
    if klass == "normal":
        return 0.3 * d
    if klass == "big":
        return 40.0 * d
    scale = OVERFLOW_SCALE.get(name, 1e30)
    d = torch.where(d == 0, torch.ones_like(d), d)  # make sure the extreme class is extreme
    return scale * d


def _safe_read(c, s, name, *, ind_only):
    """Read through the State; returns False if skipped because of the per-individual read contract."""
    if ind_only:
        touched = [name] + [a for a in c["dag"].sorted_ancestors[name] if a in c["derived_set"] and s._values[a] is None]
        if any(t not in c["ind_axis"] for t in touched):
            return False
    s[name]
    return True


def _as64(v):
    from leaspy.utils.weighted_tensor import WeightedTensor

    if isinstance(v, WeightedTensor):
        return WeightedTensor(v.value.double(), None if v.weight is None else v.weight.double())
    return v.double()


def _rows_equal(a, b, rows):
    """exact equality of values (compared in float64: a proposal may carry another floating dtype than the value it replaces)"""
    if a is None or b is None:
        return a is None and b is None
    return same(_as64(a[rows]), _as64(b[rows]))


def _tensor_reads(c, s, names, tag):
    """reads through the tensor accessor used by the samplers must agree with the mapping access"""
    from leaspy.utils.weighted_tensor import WeightedTensor

    vals = s.get_tensor_values(tuple(names))
    for nm, tv in zip(names, vals):
        ref = s[nm]
        ref = ref.weighted_value if isinstance(ref, WeightedTensor) else ref
        if isinstance(tv, WeightedTensor) or not same(tv, ref):
            raise Fail(f"{tag}:get_tensor_values-disagrees-with-state", f"{nm} = {brief(tv)}", f"{nm} = {brief(ref)}")


class Fail(Exception):
    def __init__(self, bucket, observed="", expected=""):
        self.bucket, self.observed, self.expected = bucket, observed, expected


def _check_scratch(c, s, name, tag):
    try:
        exp = scratch_eval(c["dag"], s._values, name)
    except Unset:
        return
    got = s[name]
    if not same(got, exp):
        raise Fail(f"{tag}:later-read-differs-from-definition", f"{name} = {brief(got)}", f"{name} = {brief(exp)}")


def _post_history(c, s, twin, post, tag):
    """Apply the same following history to the state under test and to the twin; every read must agree bit for bit."""
    import torch

    from leaspy.exceptions import LeaspyModelInputError

    n_reads = 0
    for op in post:
        if op[0] == "read":
            for i in op[1]:
                name = _pick(c["derived"], i)
                try:
                    got = s[name]
                except LeaspyModelInputError:
                    # the model refuses to evaluate an incoherent (kept) population value - documented error family;
                    # the twin holds the same values and must refuse as well; nothing further to compare
                    try:
                        twin[name]
                    except LeaspyModelInputError:
                        return n_reads
                    raise Fail(f"{tag}:read-refused-only-on-the-state-with-a-rejection-history", name, "same outcome as the twin state")
                ref = twin[name]
                if not same(got, ref):
                    raise Fail(f"{tag}:later-read-differs-from-twin", f"{name} = {brief(got)}", f"{name} = {brief(ref)} (state in which the rejected part was never proposed)")
                _check_scratch(c, s, name, tag)
                if name not in c["ind_axis"]:
                    n_reads += 1
        elif op[0] == "propose":  # second proposal on another variable, fully reverted or kept
            _, vi, vals, keep = op
            name = _pick(c["ind_latent"] + c["pop_latent"], vi)
            d = _delta(c, s, name, vals, "normal")
            for st_ in (s, twin):
                st_.put(name, d, accumulate=True)
                try:
                    st_[_pick(c["derived"], vi + 1)]
                except LeaspyModelInputError:
                    st_.revert()
                    continue
                if not keep:
                    st_.revert()
        elif op[0] == "param":  # parameter update, as the maximisation step does (auto-fork off)
            _, pi, vals = op
            name = _pick(c["params"], pi)
            cur = s._values[name]
            fac = torch.exp(0.2 * gen.tensor_from(vals, tuple(cur.shape), like=cur))
            for st_ in (s, twin):
                with st_.auto_fork(None):
                    st_[name] = st_._values[name] * fac if name.endswith("_std") else st_._values[name] + (fac - 1)
    return n_reads


# ------------------------------------------------------------------------------------------------
# ind-proposal
# ------------------------------------------------------------------------------------------------
def body_ind(col: Collector, case):
    import torch

    from leaspy.variables.state import StateForkType

    c = _ctx(case["cfg"], case["cohort"])
    if isinstance(c, str):
        col.exclude(c)
        return
    c["derived_set"] = set(c["derived"])
    n = c["n"]
    s = fresh_state(c["state0"])
    s.auto_fork_type = StateForkType.REF if case["fork"] == "ref" else StateForkType.COPY
    name = _pick(c["ind_latent"], case["var"])
    classes = ["ind-proposal", "ind:" + case["klass"], "kind:" + case["cfg"]["kind"]]
    try:
        # partially cached start: drop the cache of a drawn subset of derived variables by re-assigning an ancestor
        if case["cold"]:
            with s.auto_fork(None):
                s[name] = fast_copy(s._values[name])
            for i in case["pre_reads"]:
                s[_pick(c["derived"], i)]
        S0 = {k: fast_copy(v) for k, v in s._values.items()}
        old = fast_copy(s._values[name])
        delta = _delta(c, s, name, case["vals"], case["klass"])
        if case.get("delta64") and delta.dtype == torch.float32 and name != "sources":  # (matrix products need one dtype)
            delta = delta.double()  # a proposal computed in higher precision than the stored value
            classes.append("ind:proposal-other-dtype")
        s.put(name, delta, accumulate=True)
        proposed = fast_copy(s._values[name])
        mid = 0
        for i in case["mid_reads"]:
            if _safe_read(c, s, _pick(c["ind_derived"], i), ind_only=True):
                mid += 1
                if case.get("tensor_reads"):
                    _tensor_reads(c, s, [_pick(c["ind_derived"], i)], "ind")
            else:
                col.exclude("mid-read-skipped(would evaluate a non-individual variable)")
        # from-scratch values at the fully proposed point
        full = fresh_state(s)
        S1 = {}
        for k in (name,) + tuple(c["dag"].sorted_children[name]):
            if k in c["ind_axis"]:
                S1[k] = scratch_eval(c["dag"], full._values, k) if k != name else proposed
        mask_l = [bool(case["mask"][i % len(case["mask"])]) for i in range(n)]
        rejected = torch.tensor(mask_l)
        accepted = ~rejected
        s.revert(rejected)
        # (1) row-wise snapshot oracle
        for k in (name,) + tuple(c["dag"].sorted_children[name]):
            v = s._values[k]
            if v is None:
                continue
            if k not in c["ind_axis"]:
                raise Fail("aggregate-survived-partial-revert", f"{k} = {brief(v)}", "None (must be recomputed)")
            if S0[k] is None:
                raise Fail("value-appeared-after-partial-revert", f"{k} = {brief(v)}", "None (was not cached before the proposal)")
            if rejected.any() and not _rows_equal(v, S0[k], rejected):
                raise Fail("rejected-rows-differ-from-pre-proposal", f"{k}[rejected] = {brief(v[rejected])}", f"{brief(S0[k][rejected])}")
            if accepted.any() and not _rows_equal(v, S1[k], accepted):
                raise Fail("accepted-rows-differ-from-proposed", f"{k}[accepted] = {brief(v[accepted])}", f"{brief(S1[k][accepted])}")
        if case.get("tensor_reads"):
            cached = [k for k in (name,) + tuple(c["dag"].sorted_children[name]) if s._values[k] is not None]
            _tensor_reads(c, s, cached, "ind")
            classes.append("ind:tensor-accessor-reads")
        for k, v0 in S0.items():  # everything outside the fork is untouched
            if k == name or k in c["dag"].sorted_children[name]:
                continue
            if not same(s._values[k], v0):
                raise Fail("unrelated-value-changed", f"{k} = {brief(s._values[k])}", f"{brief(v0)}")
        # (2)+(3) following history vs twin. Not for proposals of another dtype: the restored rows then hold up-cast
        # single-precision values, which legitimately differ (by rounding only) from a from-scratch double-precision evaluation
        if case.get("delta64") and proposed.dtype != old.dtype:
            mixed = bool(rejected.any() and accepted.any())
            classes.append("ind:mixed-mask" if mixed else ("ind:all-rejected" if rejected.all() else "ind:none-rejected"))
            col.case(classes=classes)
            return
        twin = fresh_state(c["state0"])
        twin.auto_fork_type = s.auto_fork_type
        if case["cold"]:
            with twin.auto_fork(None):
                twin[name] = fast_copy(twin._values[name])
        with twin.auto_fork(None):
            m_ = rejected.reshape((n,) + (1,) * (old.ndim - 1))
            twin[name] = torch.where(m_, old.to(proposed.dtype), proposed)
        n_agg = _post_history(c, s, twin, case["post"], "ind")
    except Fail as f:
        col.fail("ind-proposal", f.bucket, case, observed=f.observed, expected=f.expected)
        col.case(classes=classes)
        return
    except AssertionError as e:
        col.fail("ind-proposal", "assertion:" + exc_bucket(e), case, observed=repr(e), expected="no assertion")
        col.case(classes=classes)
        return
    except (RuntimeError, ValueError, TypeError, IndexError, KeyError) as e:
        col.fail("ind-proposal", "unexpected-exception:" + exc_bucket(e), case, observed=repr(e), expected="operations succeed")
        col.case(classes=classes)
        return
    mixed = bool(rejected.any() and accepted.any())
    if mixed:
        classes.append("ind:mixed-mask")
    elif rejected.all():
        classes.append("ind:all-rejected")
    else:
        classes.append("ind:none-rejected")
    nt = mixed and mid >= 1 and n_agg >= 1
    if nt:
        classes.append("nontrivial")
    col.case(classes=classes, nontrivial=jhash(case) if nt else None,
             sample=dict(sub_check="ind-proposal", kind=case["cfg"]["kind"], var=name, klass=case["klass"], fork=case["fork"], mask=mask_l,
                         mid_reads=[_pick(c["ind_derived"], i) for i in case["mid_reads"]], post=case["post"]))


# ------------------------------------------------------------------------------------------------
# pop-proposal (full rejection / acceptance)
# ------------------------------------------------------------------------------------------------
def body_pop(col: Collector, case):
    import torch

    from leaspy.exceptions import LeaspyModelInputError
    from leaspy.variables.state import StateForkType

    c = _ctx(case["cfg"], case["cohort"])
    if isinstance(c, str):
        col.exclude(c)
        return
    c["derived_set"] = set(c["derived"])
    s = fresh_state(c["state0"])
    s.auto_fork_type = StateForkType.REF if case["fork"] == "ref" else StateForkType.COPY
    pool = c["pop_latent"] + c["pop_latent"] + c["ind_latent"]
    name = _pick(pool, case["var"])
    classes = ["pop-proposal", "pop:" + case["klass"], "kind:" + case["cfg"]["kind"], "pop:var-ind" if name in c["ind_latent"] else "pop:var-pop"]
    try:
        S0 = {k: fast_copy(v) for k, v in s._values.items()}
        cur = s._values[name]
        delta = _delta(c, s, name, case["vals"], case["klass"])
        # block shapes of the population samplers: one coordinate, one row, the whole variable
        block = case["block"]
        if name in c["pop_latent"] and cur.ndim >= 1 and block != "whole":
            idx = tuple(i % d for i, d in zip(case["idx"], cur.shape))
            if block == "row" or cur.ndim == 1:
                idx = idx[:1]
            s.put(name, delta[idx], indices=idx, accumulate=True)
        else:
            s.put(name, delta, accumulate=True)
        n_mid = 0
        refused = False
        for i in case["mid_reads"]:
            try:
                s[_pick(c["derived"], i)]
                if case.get("tensor_reads"):
                    s.get_tensor_value(_pick(c["derived"], i))
            except LeaspyModelInputError:
                # the model refuses to evaluate an incoherent population value (documented error family):
                # no decision can be taken on it; the caller can only go back, which must still work
                refused = True
                classes.append("pop:evaluation-refused")
                break
            n_mid += 1
        proposed_state = fresh_state(s)
        if case["klass"] == "overflow" and name in c["pop_latent"] and not case["reject"]:
            # keeping an overflowing population value only leads to the model's documented refusal at the next read
            # (LeaspyModelInputError): nothing to judge on the accepted side, so such a proposal is always rejected here
            refused = True
            classes.append("pop:overflow-forced-rejection")
        if case["reject"] or refused:
            s.revert()
            for k, v0 in S0.items():
                v = s._values[k]
                if v is None and (k == name or k in c["dag"].sorted_children[name]) and k != name:
                    continue  # allowed: not cached (only if it was not cached before) -- checked next line
                if not same(v, v0):
                    raise Fail("full-revert-did-not-restore", f"{k} = {brief(v)}", f"{brief(v0)}")
            twin = fresh_state(c["state0"])
        else:
            for k in (name,) + tuple(c["dag"].sorted_children[name]):
                v = s._values[k]
                if v is None:
                    continue
                exp = scratch_eval(c["dag"], proposed_state._values, k) if k != name else proposed_state._values[name]
                if not same(v, exp):
                    raise Fail("accepted-value-differs-from-proposed", f"{k} = {brief(v)}", f"{brief(exp)}")
            twin = fresh_state(c["state0"])
            with twin.auto_fork(None):
                twin[name] = fast_copy(proposed_state._values[name])
        twin.auto_fork_type = s.auto_fork_type
        if case.get("tensor_reads"):
            try:
                _tensor_reads(c, s, [_pick(c["derived"], i) for i in case["mid_reads"]] + ["nll_attach"], "pop")
            except LeaspyModelInputError:
                classes.append("pop:evaluation-refused")  # kept (accepted) population value the model refuses to evaluate
        n_agg = _post_history(c, s, twin, case["post"], "pop")
    except Fail as f:
        col.fail("pop-proposal", f.bucket, case, observed=f.observed, expected=f.expected)
        col.case(classes=classes)
        return
    except AssertionError as e:
        col.fail("pop-proposal", "assertion:" + exc_bucket(e), case, observed=repr(e), expected="no assertion")
        col.case(classes=classes)
        return
    except LeaspyModelInputError:
        # the model's documented refusal of an incoherent (kept) population value reached through a path not anticipated
        # above: nothing of the property can be judged on it
        col.exclude("pop:model-refused-to-evaluate-a-kept-population-value")
        return
    except (RuntimeError, ValueError, TypeError, IndexError, KeyError) as e:
        col.fail("pop-proposal", "unexpected-exception:" + exc_bucket(e), case, observed=repr(e), expected="operations succeed")
        col.case(classes=classes)
        return
    classes.append("pop:rejected" if (case["reject"] or refused) else "pop:accepted")
    nt = (case["reject"] or refused) and (n_mid + n_agg) >= 1
    if nt:
        classes.append("nontrivial")
    col.case(classes=classes, nontrivial=jhash(case) if nt else None,
             sample=dict(sub_check="pop-proposal", kind=case["cfg"]["kind"], var=name, block=case["block"], klass=case["klass"], reject=case["reject"], post=case["post"]))


# ------------------------------------------------------------------------------------------------
# sampler-step
# ------------------------------------------------------------------------------------------------
def body_step(col: Collector, case):
    import torch

    from leaspy.exceptions import LeaspyModelInputError

    c = _ctx(case["cfg"], case["cohort"])
    if isinstance(c, str):
        col.exclude(c)
        return
    c["derived_set"] = set(c["derived"])
    if case["cfg"]["kind"] == "mixture_logistic" and case["which"] == "ind":
        pass  # mixture individual steps go through the same revert path: included
    s = fresh_state(c["state0"])
    classes = ["sampler-step", "kind:" + case["cfg"]["kind"]]
    try:
        algo = observe.make_samplers(s, c["ds"], sampler_pop=case["sampler_pop"])
        pool = c["ind_latent"] if case["which"] == "ind" else c["pop_latent"]
        name = _pick(pool, case["var"])
        sampler = algo.samplers[name]
        # huge scales are only meaningful for individual variables (population values the model refuses to evaluate
        # abort the step with the documented LeaspyModelInputError: no decision is taken, nothing to judge)
        factor = float(case["std_factor"]) if case["which"] == "ind" else min(float(case["std_factor"]), 30.0)
        sampler.std = sampler.std * factor
        torch.manual_seed(case["seed"])
        import random as _r

        _r.seed(case["seed"])
        if case.get("extreme") is not None and "xi" in c["ind_latent"]:
            # a current state in which one individual has a non-finite energy term: proposals evaluate to nan / inf,
            # are refused, and must leave no trace either
            with s.auto_fork(None):
                v = fast_copy(s._values["xi"])
                v[case["extreme"] % c["n"]] = 100.0
                s["xi"] = v
            classes.append("step:extreme-state")
        if case["cold"]:
            with s.auto_fork(None):
                s[name] = fast_copy(s._values[name])
        S0 = {k: fast_copy(v) for k, v in s._values.items()}
        s_pre = fresh_state(s)  # the state right before the step (twin = this state with only the kept moves applied)
        pre = fast_copy(s._values[name])
        decisions = []
        hook = "_group_metropolis_step" if case["which"] == "ind" else "_metropolis_step"
        with observe.record_rng() as rec, observe.wrap_method(sampler, hook, after=lambda out, *a, **k: decisions.append(out.clone() if hasattr(out, "clone") else out)):
            sampler.sample(s, temperature_inv=float(case["beta"]))
        post = s._values[name]
        n_rej = 0
        if case["which"] == "ind":
            classes.append("step:individual")
            acc = decisions[0].to(torch.bool)
            change = sampler.std.reshape((-1,) + (1,) * (pre.ndim - 1)) * rec.of("randn")[0]
            prop = pre + change
            exp = torch.where(acc.reshape((-1,) + (1,) * (pre.ndim - 1)), prop, pre)
            if not same(post, exp):
                raise Fail("step:latent-value-after-step", brief(post), brief(exp))
            rej = ~acc
            n_rej = int(rej.sum())
            for k in c["dag"].sorted_children[name]:
                v = s._values[k]
                if v is None:
                    continue
                if k not in c["ind_axis"]:
                    raise Fail("step:aggregate-survived-partial-revert", f"{k} = {brief(v)}", "None")
                if S0[k] is not None and rej.any() and not _rows_equal(v, S0[k], rej):
                    raise Fail("step:rejected-rows-differ-from-pre-step", f"{k}[rejected] = {brief(v[rej])}", brief(S0[k][rej]))
        else:
            classes.append("step:population")
            classes.append("step:" + case["sampler_pop"])
            order = rec.of("shuffle")[-1] if rec.of("shuffle") else sampler._get_iterator_indices()
            exp = pre.clone()
            draws = rec.of("randn")
            if len(draws) != len(order) or len(decisions) != len(order):
                raise Fail("step:draw-count", f"{len(draws)} proposals, {len(decisions)} decisions", f"{len(order)} blocks")
            for idx, z, a in zip(order, draws, decisions):
                idx = tuple(idx)
                if bool(a):
                    exp[idx] = exp[idx] + sampler.std[idx] * z
                else:
                    n_rej += 1
            if not same(post, exp):
                raise Fail("step:latent-value-after-step", brief(post), brief(exp))
        # everything cached afterwards agrees with its definition, later reads too
        for k in c["derived"]:
            if s._values[k] is not None:
                _check_scratch(c, s, k, "step")
        twin = fresh_state(s_pre)
        twin.auto_fork_type = s.auto_fork_type
        with twin.auto_fork(None):
            twin[name] = fast_copy(post)
        n_agg = _post_history(c, s, twin, case["post"], "step")
    except Fail as f:
        col.fail("sampler-step", f.bucket, case, observed=f.observed, expected=f.expected)
        col.case(classes=classes)
        return
    except AssertionError as e:
        col.fail("sampler-step", "assertion:" + exc_bucket(e), case, observed=repr(e), expected="no assertion")
        col.case(classes=classes)
        return
    except LeaspyModelInputError:
        col.exclude("step-aborted:model-refused-to-evaluate-the-proposed-population-value")
        return
    except gen.InitRejected as e:
        col.exclude(str(e))
        return
    except (RuntimeError, ValueError, TypeError, IndexError, KeyError) as e:
        col.fail("sampler-step", "unexpected-exception:" + exc_bucket(e), case, observed=repr(e), expected="step succeeds")
        col.case(classes=classes)
        return
    nt = n_rej >= 1 and n_agg >= 1
    if nt:
        classes.append("nontrivial")
    if n_rej:
        classes.append("step:has-rejection")
    col.case(classes=classes, nontrivial=jhash(case) if nt else None,
             sample=dict(sub_check="sampler-step", kind=case["cfg"]["kind"], var=name, sampler=case["sampler_pop"] if case["which"] == "pop" else "individual Gibbs",
                         std_factor=case["std_factor"], beta=case["beta"], n_rejected=n_rej))


# ------------------------------------------------------------------------------------------------
# strategies
# ------------------------------------------------------------------------------------------------
def _post():
    idxs = st.lists(st.integers(0, 60), min_size=1, max_size=4)
    vals = st.lists(gen.f32(-3, 3), min_size=1, max_size=4)
    op = st.one_of(
        st.tuples(st.just("read"), idxs).map(list),
        st.tuples(st.just("read"), idxs).map(list),
        st.tuples(st.just("propose"), st.integers(0, 9), vals, st.booleans()).map(list),
        st.tuples(st.just("param"), st.integers(0, 9), vals).map(list),
    )
    return st.lists(op, min_size=0, max_size=4)


@st.composite
def base_case(draw, kinds):
    cfg = draw(gen.model_cfg(kinds=kinds, dim=(1, 3)))
    feats = [f"f{j}" for j in range(cfg["kwargs"]["dimension"])]
    n = draw(st.sampled_from([4, 5, 7, 8] if cfg["kind"] != "mixture_logistic" else [7, 8]))
    cohort = draw(gen.cohort(kind=gen.data_kind_for(cfg), n_ind=(n, n), n_visits=(1, 4), features=feats,
                             event=cfg["kind"] == "joint", id_kinds=("s",), shuffle=False))
    return dict(cfg=cfg, cohort=cohort)


@st.composite
def ind_case(draw, kinds):
    c = draw(base_case(kinds))
    c.update(
        var=draw(st.integers(0, 5)), vals=draw(st.lists(gen.f32(-4, 4), min_size=1, max_size=8)),
        klass=draw(st.sampled_from(["normal", "normal", "big", "overflow"])), fork=draw(st.sampled_from(["ref", "copy"])),
        cold=draw(st.booleans()), pre_reads=draw(st.lists(st.integers(0, 60), max_size=4)),
        mid_reads=draw(st.lists(st.integers(0, 40), min_size=0, max_size=4)),
        mask=draw(st.one_of(st.just([1]), st.just([0]), st.lists(st.integers(0, 1), min_size=2, max_size=8), st.lists(st.integers(0, 1), min_size=2, max_size=8))),
        post=draw(_post()), delta64=draw(st.sampled_from([False, False, True])), tensor_reads=draw(st.booleans()),
    )
    return c


@st.composite
def pop_case(draw, kinds):
    c = draw(base_case(kinds))
    c.update(
        var=draw(st.integers(0, 11)), vals=draw(st.lists(gen.f32(-4, 4), min_size=1, max_size=8)),
        klass=draw(st.sampled_from(["normal", "normal", "big", "overflow"])), fork=draw(st.sampled_from(["ref", "copy"])),
        block=draw(st.sampled_from(["coord", "row", "whole"])), idx=[draw(st.integers(0, 5)), draw(st.integers(0, 5))],
        mid_reads=draw(st.lists(st.integers(0, 60), min_size=0, max_size=4)), reject=draw(st.sampled_from([True, True, False])),
        post=draw(_post()), tensor_reads=draw(st.booleans()),
    )
    return c


@st.composite
def step_case(draw, kinds):
    c = draw(base_case(kinds))
    c.update(
        which=draw(st.sampled_from(["ind", "pop"])), var=draw(st.integers(0, 7)),
        sampler_pop=draw(st.sampled_from(["Gibbs", "FastGibbs", "Metropolis-Hastings"])),
        std_factor=draw(st.sampled_from([1.0, 1.0, 0.01, 30.0, 1e4, 1e30])), beta=draw(st.sampled_from([1.0, 0.5, 0.1])),
        seed=draw(st.integers(0, 10_000)), cold=draw(st.booleans()), post=draw(_post()),
        extreme=draw(st.sampled_from([None, None, None, 0, 2])),
    )
    return c


# ------------------------------------------------------------------------------------------------
# toy-weighted: block proposals (indexed put) on a WeightedTensor-valued variable of a small custom graph
# ------------------------------------------------------------------------------------------------
def body_toy(col: Collector, case):
    import torch

    from leaspy.utils.weighted_tensor import WeightedTensor
    from leaspy.variables.dag import VariablesDAG
    from leaspy.variables.specs import DataVariable, LinkedVariable
    from leaspy.variables.state import State, StateForkType

    n = case["n"]
    specs = {"x": DataVariable(), "p": DataVariable(),
             "d1": LinkedVariable(eval("lambda *, x, p: x * p")), "d2": LinkedVariable(eval("lambda *, d1: d1.sum(dim=0)")),
             "d3": LinkedVariable(eval("lambda *, x: x * x"))}
    dag = VariablesDAG.from_dict(specs)
    s = State(dag, auto_fork_type=StateForkType.REF if case["fork"] == "ref" else StateForkType.COPY)
    w = torch.tensor([[(i + j) % 3 != 0 for j in range(2)] for i in range(n)])
    x0 = gen.tensor_from(case["x"], (n, 2))
    with s.auto_fork(None):
        s["x"] = WeightedTensor(x0.clone(), w) if case["weighted"] else x0.clone()
        s["p"] = torch.tensor(float(case["p"]))
    for nm in case["pre"]:
        s[nm]
    S0 = {k: fast_copy(v) for k, v in s._values.items()}
    classes = ["toy-weighted" if case["weighted"] else "toy-plain", "toy:" + case["fork"]]
    try:
        rows = sorted({r % n for r in case["rows"]})
        delta = gen.tensor_from(case["delta"], (len(rows), 2))
        s.put("x", delta, indices=(rows,), accumulate=case["acc"])
        for nm in case["mid"]:
            s[nm]
        if case["reject"]:
            s.revert()
            for k, v0 in S0.items():
                if not same(s._values[k], v0):
                    raise Fail("toy:full-revert-did-not-restore", f"{k} = {brief(s._values[k])}", brief(v0))
        for nm in ("d1", "d2", "d3"):
            exp = scratch_eval(dag, s._values, nm)
            if not same(s[nm], exp):
                raise Fail("toy:later-read-differs-from-definition", f"{nm} = {brief(s[nm])}", brief(exp))
    except Fail as f:
        col.fail("toy-weighted", f.bucket, case, observed=f.observed, expected=f.expected)
        col.case(classes=classes)
        return
    except (RuntimeError, ValueError, TypeError, IndexError, AssertionError) as e:
        col.fail("toy-weighted", "unexpected-exception:" + exc_bucket(e), case, observed=repr(e), expected="operations succeed")
        col.case(classes=classes)
        return
    nt = case["reject"] and bool(case["mid"])
    col.case(classes=classes + (["nontrivial"] if nt else []), nontrivial=jhash(case) if nt else None,
             sample=dict(sub_check="toy-weighted", **{k: case[k] for k in ("weighted", "fork", "rows", "acc", "reject", "mid")}))


@st.composite
def toy_case(draw, kinds=None):
    names = ["d1", "d2", "d3"]
    return dict(n=draw(st.sampled_from([3, 4, 6])), weighted=draw(st.sampled_from([True, True, False])), fork=draw(st.sampled_from(["ref", "copy"])),
                x=draw(st.lists(gen.f32(-3, 3), min_size=1, max_size=6)), p=draw(gen.f32(-2, 2)),
                pre=draw(st.lists(st.sampled_from(names), max_size=3)), mid=draw(st.lists(st.sampled_from(names), max_size=3)),
                rows=draw(st.lists(st.integers(0, 11), min_size=1, max_size=3)), delta=draw(st.lists(gen.f32(-2, 2), min_size=1, max_size=4)),
                acc=draw(st.booleans()), reject=draw(st.sampled_from([True, True, False])))


BODIES = {"ind-proposal": (ind_case, body_ind), "pop-proposal": (pop_case, body_pop), "sampler-step": (step_case, body_step),
          "toy-weighted": (toy_case, body_toy)}


def shard_run(sub: str, kinds, seed: int, n_examples: int, shard: int = 0):
    env.import_leaspy()
    col = Collector(PROP, f"{sub}-{'+'.join(kinds)}-{shard}")
    strat, body = BODIES[sub]
    drive(col, strat(tuple(kinds)), body, n_examples=n_examples, seed=shard_seed(seed, shard, hash(sub) % 97 if False else len(sub)))
    return col


def shards(tier: str, seed: int):
    n = dict(quick=300, thorough=4000)[tier]
    kind_sets = [("logistic",), ("joint",), ("linear", "shared_speed_logistic"), ("mixture_logistic",), ("logistic", "joint")]
    specs = []
    k = 0
    for sub in ("ind-proposal", "pop-proposal", "sampler-step"):
        for ks in kind_sets:
            specs.append((MOD, "shard_run", dict(sub=sub, kinds=ks, seed=seed, n_examples=n, shard=k)))
            k += 1
    specs.append((MOD, "shard_run", dict(sub="ind-proposal", kinds=("logistic", "linear"), seed=seed, n_examples=n, shard=k)))
    specs.append((MOD, "shard_run", dict(sub="toy-weighted", kinds=("toy",), seed=seed, n_examples=4 * n, shard=k + 1)))
    return specs


def replay(sub_check: str, inp):
    env.import_leaspy()
    col = Collector(PROP, "replay")
    BODIES[sub_check][1](col, inp)
    return col.failures
