"""Shared Hypothesis strategies and builders: cohorts (as plain-JSON dicts), model configurations,
live model states. All sizes are drawn; construction rather than rejection.
"""
from __future__ import annotations

import math

from hypothesis import strategies as st

ID_ALPHABETS = {
    "s": lambda i: f"s{i}",
    "digits": lambda i: str(100 + 7 * i),
    "zeros": lambda i: f"00{i}",
    "unicode": lambda i: f"pätient-{i}µ",
    "int": lambda i: 3 + 11 * i,
    "words": lambda i: ["alpha", "Beta", "gamma x", "d", "E5", "zulu", "mike", "Kilo", "j j", "i", "h0", "G"][i % 12] + ("" if i < 12 else str(i)),
}


def _f32_in(x, up):
    """nearest float32-representable value inside the interval side"""
    import numpy as np

    y = float(np.float32(x))
    if up and y < x:
        y = float(np.nextafter(np.float32(y), np.float32(np.inf)))
    if (not up) and y > x:
        y = float(np.nextafter(np.float32(y), np.float32(-np.inf)))
    return y


def f32(lo, hi, **kw):
    return st.floats(_f32_in(lo, True), _f32_in(hi, False), width=32, allow_nan=False, allow_infinity=False, **kw)


# ------------------------------------------------------------------------------------------------
# cohorts
# ------------------------------------------------------------------------------------------------
@st.composite
def cohort(draw, *, kind="logistic", n_ind=(1, 12), n_visits=(1, 8), n_feat=(1, 4), event=False,
           min_two_visits=False, id_kinds=("s", "digits", "zeros", "unicode", "int", "words"),
           missing=True, features=None, shuffle=True, fit_ready=True):
    """A longitudinal table as plain JSON: dict(features, rows=[[id, age, v1, ...]], id_kind, [events]).

    kind: 'logistic' (values in (0.01, 0.99) along a noisy sigmoid), 'linear' ([-3, 3] along a noisy line),
    'bernoulli' ({0,1}). Missing cells are None. Ages are rounded to 4 decimals and >= 0.05 apart per individual.
    """
    nf = len(features) if features else draw(st.integers(*n_feat))
    feats = list(features) if features else [f"f{j}" for j in range(nf)]
    n = draw(st.integers(max(n_ind[0], 2 if fit_ready else 1), max(n_ind[1], 2 if fit_ready else 1)))
    id_kind = draw(st.sampled_from(list(id_kinds)))
    ids = [ID_ALPHABETS[id_kind](i) for i in range(n)]
    slope = [draw(f32(0.05, 0.5)) for _ in range(nf)]
    offset = [draw(f32(-1.5, 1.5)) for _ in range(nf)]
    miss_mode = draw(st.sampled_from(["complete", "sparse", "sparse", "feature-missing"])) if (missing and nf > 1) else (
        draw(st.sampled_from(["complete", "sparse"])) if missing else "complete")
    rows, per_ind = [], {}
    for i, id_ in enumerate(ids):
        lo = max(n_visits[0], 2 if min_two_visits else 1)
        if fit_ready and i < 2:
            # initialisation regresses each feature on age per individual: needs individuals with >= 2 complete visits
            lo = max(lo, min(3, n_visits[1]))
        k = draw(st.integers(lo, max(lo, n_visits[1])))
        t0 = draw(f32(45, 85))
        gaps = [draw(f32(0.05, 4.0)) for _ in range(k - 1)]
        ages = [round(float(t0), 4)]
        for g in gaps:
            ages.append(round(ages[-1] + max(0.05, float(g)), 4))
        shift = draw(f32(-8, 8))
        acc = draw(f32(-0.7, 0.7))
        whole_missing_ft = draw(st.integers(0, nf - 1)) if (miss_mode == "feature-missing" and i == (2 if fit_ready else 0)) else None
        ind_rows = []
        for a in ages:
            vals = []
            for j in range(nf):
                eps = draw(f32(-0.06, 0.06))
                x = math.exp(acc) * slope[j] * (a - 65 - shift) + offset[j]
                if kind == "logistic":
                    v = min(0.99, max(0.01, 1 / (1 + math.exp(-x)) + eps))
                elif kind == "linear":
                    v = min(3.0, max(-3.0, 0.3 * x + eps))
                else:  # bernoulli
                    v = 1.0 if (1 / (1 + math.exp(-x)) + 4 * eps) > 0.5 else 0.0
                vals.append(round(float(v), 5))
            if miss_mode in ("sparse", "feature-missing") and nf > 1 and not (fit_ready and i < 2):
                m = [draw(st.booleans()) and draw(st.booleans()) for _ in range(nf)]  # p = 1/4 per cell
                if all(m):
                    m[draw(st.integers(0, nf - 1))] = False
                vals = [None if mm else v for mm, v in zip(m, vals)]
            if whole_missing_ft is not None:
                vals[whole_missing_ft] = None
                if all(v is None for v in vals):
                    vals[(whole_missing_ft + 1) % nf] = 0.5 if kind != "bernoulli" else 1.0
            ind_rows.append([id_, a] + vals)
        per_ind[i] = ind_rows
        rows.extend(ind_rows)
    case = dict(kind=kind, features=feats, id_kind=id_kind, miss_mode=miss_mode)
    if event:
        evs = []
        for i, id_ in enumerate(ids):
            last = per_ind[i][-1][1]
            et = round(last + float(draw(f32(0.1, 6.0))), 4)
            eb = 1 if (draw(st.booleans()) or draw(st.booleans())) else 0  # ~3/4 observed: the initial Weibull fit needs events
            evs.append([et, eb])
        if n >= 2:  # JointModel needs at least one observed event; keep a censored one as well
            evs[0][1] = 1
            evs[1][1] = 0
        else:
            evs[0][1] = 1
        case["events"] = {str(i): e for i, e in enumerate(evs)}
        rows = [r + evs[ids.index(r[0])] for r in rows]
    if shuffle and draw(st.booleans()):
        rows = list(draw(st.permutations(rows)))
        case["shuffled"] = True
    case["rows"] = rows
    return case


def cohort_df(case):
    import pandas as pd

    cols = ["ID", "TIME"] + list(case["features"]) + (["EVENT_TIME", "EVENT_BOOL"] if "events" in case else [])
    df = pd.DataFrame([[(float("nan") if v is None else v) for v in r] for r in case["rows"]], columns=cols)
    for f in case["features"]:
        df[f] = df[f].astype(float)
    df["TIME"] = df["TIME"].astype(float)
    if "events" in case:
        df["EVENT_BOOL"] = df["EVENT_BOOL"].astype(int)
    return df


def cohort_stats(case):
    """Classification helpers: n individuals, distinct visit counts, partially-missing visits."""
    per = {}
    partial = 0
    nf = len(case["features"])
    for r in case["rows"]:
        per.setdefault(str(r[0]), 0)
        per[str(r[0])] += 1
        vals = r[2:2 + nf]
        k = sum(v is None for v in vals)
        if 0 < k < nf:
            partial += 1
    return dict(n_ind=len(per), visit_counts=sorted(set(per.values())), partial_visits=partial,
                single_visit_inds=sum(1 for v in per.values() if v == 1))


def dataset_from_case(case):
    from leaspy.io.data import Data, Dataset

    df = cohort_df(case)
    if "events" in case:
        data = Data.from_dataframe(df, "joint")
    else:
        data = Data.from_dataframe(df)
    return df, data, Dataset(data)


# ------------------------------------------------------------------------------------------------
# models
# ------------------------------------------------------------------------------------------------
MODEL_KINDS = ("logistic", "linear", "shared_speed_logistic", "joint", "mixture_logistic")


@st.composite
def model_cfg(draw, *, kinds=("logistic", "linear", "shared_speed_logistic", "joint"), dim=(1, 4), noises=("gaussian-scalar", "gaussian-diagonal"),
              allow_bernoulli=False):
    kind = draw(st.sampled_from(list(kinds)))
    d = draw(st.integers(max(dim[0], 2 if kind in ("shared_speed_logistic", "mixture_logistic") else 1), dim[1]))
    sd = draw(st.integers(0, d - 1))
    if kind == "mixture_logistic":
        sd = max(sd, 1) if d > 1 else 0
    kw = dict(dimension=d, source_dimension=sd)
    if kind == "joint":
        kw["nb_events"] = 1
        if d >= 2 and sd == 0:
            kw["source_dimension"] = 1  # dimension>=2, source_dimension=0 joint model is not constructible (see DESIGN C12)
    elif kind == "mixture_logistic":
        kw["n_clusters"] = 2
        kw["obs_models"] = "gaussian-diagonal"
    else:
        opts = list(noises) + (["bernoulli"] if allow_bernoulli and kind == "logistic" else [])
        kw["obs_models"] = draw(st.sampled_from(opts))
    return dict(kind=kind, kwargs=kw)


def min_ind_for(cfg):
    """Smallest cohort the kind's initialisation supports (mixture splits individuals into equal initial clusters:
    an empty initial cluster gives NaN parameters)."""
    if cfg["kind"] == "mixture_logistic":
        return 3 * cfg["kwargs"].get("n_clusters", 2)
    return 2


def data_kind_for(cfg):
    if cfg["kwargs"].get("obs_models") == "bernoulli":
        return "bernoulli"
    return "linear" if cfg["kind"] == "linear" else "logistic"


def build_model(cfg, name=None):
    from leaspy.models.factory import model_factory

    return model_factory(cfg["kind"], instance_name=name, **cfg["kwargs"])


class InitRejected(Exception):
    """The cohort does not satisfy a precondition of model initialisation (counted as excluded, not judged)."""


def is_zero_scale_refusal(e) -> bool:
    """The initial proposal scale of a population variable is |its initial value|; a value that is exactly 0 (feature mean
    exactly 0.5 -> log_g = 0) makes every MCMC algorithm refuse to start. An input precondition, not a property matter."""
    return type(e).__name__ == "LeaspyInputError" and "Scale of variable" in str(e)


def live_state(cfg, case, *, latents="mode", seed=0):
    """Model initialised on the cohort with data and individual latent variables in its state
    (what `_initialize_algo` of the MCMC algorithms does)."""
    import torch

    from leaspy.variables.specs import LatentVariableInitType

    df, data, ds = dataset_from_case(case)
    m = build_model(cfg)
    try:
        m.initialize(ds)
    except Exception as e:
        if type(e).__name__ == "ConvergenceError" and "lifelines" in type(e).__module__:
            raise InitRejected("joint-init-weibull-fit-not-converged") from e
        raise
    s = m.state
    with s.auto_fork(None):
        m.put_data_variables(s, ds)
        if latents == "mode":
            pass
        else:
            torch.manual_seed(seed)
            s.put_individual_latent_variables(LatentVariableInitType.PRIOR_SAMPLES, n_individuals=ds.n_individuals)
    if latents == "mode":
        m.put_individual_parameters(s, ds)  # what `_initialize_algo` of the MCMC algorithms does
    return m, ds, s


def tensor_from(vals, shape, like=None):
    """Tensor of `shape` filled cyclically from the list `vals` (keeps generated data small)."""
    import torch

    n = 1
    for d in shape:
        n *= d
    if not vals:
        vals = [0.0]
    flat = [vals[i % len(vals)] for i in range(n)]
    t = torch.tensor(flat, dtype=torch.float32).reshape(shape)
    if like is not None:
        t = t.to(like.dtype)
    return t
