"""Deterministic process set-up shared by every check.

Each check is a pure function of (/repo working tree, VERIF_SEED): the entry point re-executes itself once
with a pinned environment (hash seed, single-threaded BLAS, Agg backend, PYTHONPATH pointing at the
working tree under test), then works from a fresh scratch directory that is removed at exit.
"""
from __future__ import annotations

import atexit
import os
import shutil
import sys
import tempfile
from pathlib import Path

VERIF_ROOT = Path(__file__).resolve().parents[2]
REPO_ROOT = Path(os.environ.get("VERIF_REPO", "/repo")).resolve()
DEPS = VERIF_ROOT / ".deps"

PINNED = {
    "PYTHONHASHSEED": "0",
    "OMP_NUM_THREADS": "1",
    "MKL_NUM_THREADS": "1",
    "OPENBLAS_NUM_THREADS": "1",
    "NUMEXPR_NUM_THREADS": "1",
    "MPLBACKEND": "Agg",
    "PYTHONWARNINGS": "ignore",
    "PYTHONDONTWRITEBYTECODE": "1",
    "LEASPY_VERIF": "1",
}


def child_env(extra: dict | None = None) -> dict:
    env = dict(os.environ)
    env.update(PINNED)
    env["PYTHONPATH"] = os.pathsep.join(
        [str(REPO_ROOT / "src"), str(VERIF_ROOT), str(DEPS)]
    )
    env["VERIF_REPO"] = str(REPO_ROOT)
    env["VF_CHILD"] = "1"
    if extra:
        env.update(extra)
    return env


def ensure_env() -> None:
    """Re-exec the current command once with the pinned environment."""
    if os.environ.get("VF_CHILD") == "1":
        return
    env = child_env()
    os.execve(sys.executable, [sys.executable, "-m", "vf.run", *sys.argv[1:]], env)


def ensure_deps() -> None:
    """Make hypothesis importable (fresh restores: install from the offline wheelhouse)."""
    try:
        import hypothesis  # noqa: F401
        return
    except Exception:
        pass
    import subprocess

    DEPS.mkdir(exist_ok=True)
    subprocess.run(
        [sys.executable, "-m", "pip", "install", "--quiet", "--no-index", "--find-links",
         "/opt/veriftools/wheels", "--target", str(DEPS), "hypothesis"],
        check=False, stdout=subprocess.DEVNULL, stderr=subprocess.DEVNULL,
    )
    import importlib

    importlib.invalidate_caches()
    import hypothesis  # noqa: F401


def out_root() -> Path:
    """Where evidence/ and replays/ are written: /verif, unless VF_OUT redirects (mutation-testing runs)."""
    o = os.environ.get("VF_OUT")
    return Path(o) if o else VERIF_ROOT


_SCRATCH = None


def enter_scratch() -> Path:
    """chdir to a fresh scratch directory (leaspy writes `_outputs/` relative to cwd)."""
    global _SCRATCH
    if _SCRATCH is None:
        base = os.environ.get("VF_SCRATCH_BASE") or tempfile.gettempdir()
        _SCRATCH = Path(tempfile.mkdtemp(prefix="vf_", dir=base))
        atexit.register(shutil.rmtree, str(_SCRATCH), True)
    os.chdir(_SCRATCH)
    return _SCRATCH


def quiet_torch() -> None:
    import warnings

    warnings.filterwarnings("ignore")
    import torch

    torch.set_num_threads(1)
    try:
        torch.set_num_interop_threads(1)
    except RuntimeError:
        pass


def import_leaspy():
    """`leaspy.models` must be the first leaspy import (circular import otherwise)."""
    quiet_torch()
    import leaspy.models  # noqa: F401
    import leaspy

    src = Path(leaspy.__file__).resolve()
    if not str(src).startswith(str(REPO_ROOT / "src")):
        raise RuntimeError(f"leaspy imported from {src}, expected under {REPO_ROOT}/src")
    return leaspy
