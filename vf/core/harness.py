"""Collector, Hypothesis driver (collect-then-shrink), sharding, evidence and findings protocol."""
from __future__ import annotations

import hashlib
import importlib
import json
import os
import sys
import time
import traceback
from collections import Counter
from concurrent.futures import ProcessPoolExecutor
from pathlib import Path

from . import env

MAX_SAMPLES = 6
MAX_FAIL_PER_BUCKET = 3


def jhash(obj) -> str:
    return hashlib.sha1(
        json.dumps(obj, sort_keys=True, default=str).encode()
    ).hexdigest()[:16]


def jsonable(obj):
    """Best-effort conversion of harness values to plain JSON."""
    import numpy as np

    try:
        import torch
    except Exception:  # pragma: no cover
        torch = None
    if obj is None or isinstance(obj, (bool, int, str)):
        return obj
    if isinstance(obj, float):
        if obj != obj:
            return "nan"
        if obj in (float("inf"), float("-inf")):
            return "inf" if obj > 0 else "-inf"
        return obj
    if isinstance(obj, (np.floating, np.integer, np.bool_)):
        return jsonable(obj.item())
    if isinstance(obj, np.ndarray):
        return jsonable(obj.tolist())
    if torch is not None and isinstance(obj, torch.Tensor):
        return jsonable(obj.detach().cpu().tolist())
    if isinstance(obj, dict):
        return {str(k): jsonable(v) for k, v in obj.items()}
    if isinstance(obj, (list, tuple, set, frozenset)):
        return [jsonable(v) for v in obj]
    return repr(obj)


class Collector:
    """Per-shard accumulator. Oracle failures are *recorded*, not raised, so the search continues."""

    def __init__(self, prop: str, shard: str = ""):
        self.prop = prop
        self.shard = shard
        self.evaluations = 0
        self.nontrivial: set[str] = set()
        self.classes: Counter = Counter()
        self.samples: list = []
        self.failures: list[dict] = []
        self._fail_count: Counter = Counter()
        self.excluded: Counter = Counter()
        self.notes: list[str] = []
        self.extra: dict = {}
        self.nontrivial_bulk = 0  # non-trivial cases that are distinct *by construction* (exhaustive enumerations)

    # -- cases -----------------------------------------------------------------------------
    def case(self, *, classes=(), nontrivial=None, sample=None, n: int = 1):
        """Count `n` oracle evaluations; `nontrivial` is the case's distinct signature if it is non-trivial."""
        self.evaluations += n
        for c in classes:
            self.classes[c] += 1
        if nontrivial is not None:
            sig = nontrivial if isinstance(nontrivial, str) else jhash(nontrivial)
            if sig not in self.nontrivial and sample is not None and len(self.samples) < MAX_SAMPLES:
                self.samples.append(jsonable(sample))
            self.nontrivial.add(sig)

    def cls(self, name: str, n: int = 1):
        self.classes[name] += n

    def exclude(self, name: str, n: int = 1):
        self.excluded[name] += n

    # -- failures --------------------------------------------------------------------------
    def fail(self, sub_check: str, bucket: str, input, observed="", expected=""):
        key = f"{sub_check}|{bucket}"
        self._fail_count[key] += 1
        if self._fail_count[key] <= MAX_FAIL_PER_BUCKET:
            self.failures.append(
                dict(sub_check=sub_check, bucket=bucket, input=jsonable(input),
                     observed=str(observed)[:2000], expected=str(expected)[:2000])
            )

    def n_failures(self) -> int:
        return sum(self._fail_count.values())

    def result(self) -> dict:
        return dict(
            shard=self.shard, evaluations=self.evaluations, nontrivial=sorted(self.nontrivial),
            classes=dict(self.classes), samples=self.samples, failures=self.failures,
            fail_counts=dict(self._fail_count), excluded=dict(self.excluded), notes=self.notes,
            extra=self.extra, nontrivial_bulk=self.nontrivial_bulk,
        )


def leaspy_frame(exc: BaseException) -> str:
    """Innermost frame inside leaspy of an exception: 'file.py:func' (root-cause bucketing)."""
    tb = traceback.extract_tb(exc.__traceback__)
    inner = ""
    for fr in tb:
        if "/leaspy/" in fr.filename:
            inner = f"{Path(fr.filename).name}:{fr.name}"
    return inner or "outside-leaspy"


def exc_bucket(exc: BaseException) -> str:
    return f"{type(exc).__name__}@{leaspy_frame(exc)}"


# ------------------------------------------------------------------------------------------------
# Hypothesis driver
# ------------------------------------------------------------------------------------------------
def drive(col: Collector, strategy, body, *, n_examples: int, seed: int, sub_check: str = "",
          shrink_new: bool = True, known_buckets=()):
    """Run `body(col, case)` on `n_examples` generated cases. `body` records failures on `col`.

    After generation, one representative of every *new* failure bucket is shrunk by Hypothesis
    (re-running generation with a body that raises only for that bucket) and stored as the first
    failure of that bucket.
    """
    import hypothesis
    from hypothesis import HealthCheck, Phase, given, settings

    st_settings = settings(
        max_examples=n_examples, database=None, deadline=None, derandomize=False,
        report_multiple_bugs=False, phases=[Phase.generate],
        suppress_health_check=[HealthCheck.too_slow, HealthCheck.data_too_large,
                               HealthCheck.large_base_example],
        print_blob=False,
    )

    @hypothesis.seed(seed)
    @st_settings
    @given(strategy)
    def _run(case):
        body(col, case)

    _run()

    if not shrink_new:
        return
    # keep the smallest recorded input per bucket first, then let Hypothesis shrink new buckets within a budget
    col.failures.sort(key=lambda f: len(json.dumps(f["input"], default=str)))
    budget = float(os.environ.get("VF_SHRINK_BUDGET_S", "20"))
    t_start = time.time()
    new_buckets = []
    for f in col.failures:
        key = (f["sub_check"], f["bucket"])
        if f["bucket"] in known_buckets or key in new_buckets:
            continue
        new_buckets.append(key)
    for sc, bucket in new_buckets[:3]:
        left = budget - (time.time() - t_start)
        if left <= 1:
            break
        minimal = shrink(strategy, body, col.prop, sc, bucket, seed=seed, n_examples=n_examples, budget_s=left)
        if minimal is not None:
            minimal["shrunk"] = True
            col.failures = [minimal] + col.failures


def shrink(strategy, body, prop, sub_check, bucket, *, seed, n_examples, budget_s: float = 120.0):
    import hypothesis
    from hypothesis import HealthCheck, Phase, given, settings

    last = {}
    t0 = time.time()

    class _Hit(Exception):
        pass

    class _Stop(BaseException):
        pass

    @hypothesis.seed(seed)
    @settings(max_examples=n_examples, database=None, deadline=None, report_multiple_bugs=False,
              phases=[Phase.generate, Phase.shrink],
              suppress_health_check=list(HealthCheck), print_blob=False)
    @given(strategy)
    def _run(case):
        tmp = Collector(prop)
        body(tmp, case)
        for f in tmp.failures:
            if f["sub_check"] == sub_check and f["bucket"] == bucket:
                last.clear()
                last.update(f)
                raise _Hit()
        if time.time() - t0 > budget_s:
            raise _Stop()

    try:
        _run()
    except _Hit:
        pass
    except _Stop:
        pass
    except Exception:
        pass
    return dict(last) if last else None


# ------------------------------------------------------------------------------------------------
# sharding
# ------------------------------------------------------------------------------------------------
def _worker(spec):
    module, func, kwargs = spec
    env.quiet_torch()
    env.enter_scratch()
    # leaspy prints progress lines; only the parent talks on stdout (VIOLATION / KNOWN-FINDING / OK lines)
    sys.stdout = open(os.devnull, "w")
    t0 = time.time()
    try:
        mod = importlib.import_module(module)
        res = getattr(mod, func)(**kwargs)
        if isinstance(res, Collector):
            res = res.result()
        res["wall_s"] = time.time() - t0
        res.setdefault("shard", f"{func}{kwargs.get('shard', '')}")
        return res
    except BaseException as e:  # harness error: reported as exit 2 by the parent
        return dict(harness_error="".join(traceback.format_exception(type(e), e, e.__traceback__))[-6000:],
                    shard=f"{module}.{func} {kwargs}")


def run_shards(specs, workers: int = 16, timeout_s: float | None = None):
    import multiprocessing as mp

    ctx = mp.get_context("spawn")
    results = []
    # one fresh process per shard: Hypothesis mixes constants harvested from the modules present in sys.modules into its
    # draws, so a re-used worker would make a shard's cases depend on which shard ran before it
    with ProcessPoolExecutor(max_workers=min(workers, max(1, len(specs))), mp_context=ctx, max_tasks_per_child=1) as ex:
        futs = [ex.submit(_worker, s) for s in specs]
        for f in futs:
            results.append(f.result(timeout=timeout_s))
    return results


# ------------------------------------------------------------------------------------------------
# findings + evidence + exit protocol
# ------------------------------------------------------------------------------------------------
def load_findings(prop: str):
    p = env.VERIF_ROOT / "known_findings.json"
    if not p.exists():
        return []
    data = json.loads(p.read_text())
    return [f for f in data.get("findings", []) if f.get("property") == prop]


def finalize(prop: str, tier: str, seed: int, results: list[dict], *, rule: str, assumptions: list[str],
             replay_fn, t0: float, required_classes: dict | None = None, exhaustive: bool = False,
             extra_cov: dict | None = None) -> int:
    """Merge shard results, apply the known-findings protocol, write evidence, print lines, return exit code."""
    harness_errors = [r for r in results if "harness_error" in r]
    evaluations = 0
    nontrivial: set[str] = set()
    classes: Counter = Counter()
    excluded: Counter = Counter()
    samples, failures, notes = [], [], []
    fail_counts: Counter = Counter()
    shard_info = []
    extra = {}
    bulk = 0
    for r in results:
        if "harness_error" in r:
            continue
        evaluations += r["evaluations"]
        bulk += r.get("nontrivial_bulk", 0)
        nontrivial.update(r["nontrivial"])
        classes.update(r["classes"])
        excluded.update(r.get("excluded", {}))
        fail_counts.update(r.get("fail_counts", {}))
        for s in r["samples"]:
            if len(samples) < MAX_SAMPLES:
                samples.append(s)
        failures.extend(r["failures"])
        notes.extend(r.get("notes", []))
        shard_info.append(dict(shard=r.get("shard"), evaluations=r["evaluations"], wall_s=round(r.get("wall_s", 0), 2)))
        for k, v in (r.get("extra") or {}).items():
            if isinstance(v, (int, float)) and isinstance(extra.get(k, 0), (int, float)):
                extra[k] = extra.get(k, 0) + v
            else:
                extra.setdefault(k, v)

    findings = load_findings(prop)
    open_f = [f for f in findings if f.get("status") == "open"]
    lines = []
    violations = []

    # 1. reproducers of recorded findings (open -> KNOWN-FINDING, fixed -> regression case)
    known_still_failing = set()
    for f in findings:
        rep = f.get("reproducer")
        if not rep:
            continue
        try:
            import contextlib
            import io

            with contextlib.redirect_stdout(io.StringIO()):  # leaspy prints progress lines
                fl = replay_fn(rep["sub_check"], rep["input"])
        except Exception as e:  # the reproducer itself must be runnable
            harness_errors.append(dict(harness_error=f"reproducer {f['id']} crashed: {e!r}\n{traceback.format_exc()[-3000:]}", shard="reproducer"))
            continue
        evaluations += 1
        hit = [x for x in fl if x["bucket"] == f["bucket"]]
        other = [x for x in fl if x["bucket"] != f["bucket"]]
        if f.get("status") == "open":
            if hit:
                known_still_failing.add(f["id"])
                lines.append(f"KNOWN-FINDING: property={prop} {f['id']} {f['what_fails']}")
            else:
                notes.append(f"known finding {f['id']} no longer reproduces")
            failures.extend(other)
        else:
            failures.extend(fl)  # a fixed finding that fails again is a violation

    # 2. generated failures: suppressed only if their bucket AND input class match an open finding
    # open findings are excluded / neutralised *by construction* in the search, so a generated failure is never hidden because
    # its bucket resembles a known one - unless the finding explicitly asks for it (input class that cannot be predicted)
    open_buckets = {f["bucket"]: f for f in open_f if f.get("suppress_generated")}
    suppressed = Counter()
    seen_buckets = {}
    for f in failures:
        of = open_buckets.get(f["bucket"])
        if of is not None:
            suppressed[of["id"]] += 1
            continue
        key = (f["sub_check"], f["bucket"])
        if key in seen_buckets and not f.get("shrunk"):
            continue
        if key not in seen_buckets or f.get("shrunk"):
            seen_buckets[key] = f
    rep_dir = env.out_root() / "replays" / prop
    for (sc, bucket), f in seen_buckets.items():
        rep_dir.mkdir(parents=True, exist_ok=True)
        path = rep_dir / f"{jhash([sc, bucket])}.json"
        path.write_text(json.dumps(dict(property=prop, sub_check=sc, bucket=bucket, seed=seed,
                                        input=f["input"], observed=f["observed"], expected=f["expected"],
                                        shrunk=bool(f.get("shrunk"))), indent=1))
        violations.append((bucket, path))
        lines.append(f"VIOLATION property={prop} replay={path}")
        print(f"  sub_check={sc} bucket={bucket}\n  observed={f['observed'][:600]}\n  expected={f['expected'][:600]}",
              file=sys.stderr)

    # 3. generator health: classes that matter must actually be produced
    gen_defects = []
    for cname, min_frac in (required_classes or {}).items():
        # value < 1: minimal fraction of all evaluations; value >= 1: minimal absolute count
        frac = classes.get(cname, 0) / max(1, evaluations) if min_frac < 1 else classes.get(cname, 0)
        if classes.get(cname, 0) == 0 or frac < min_frac:
            gen_defects.append(f"class {cname!r} is {classes.get(cname, 0)}/{evaluations} (< {min_frac})")

    cov = dict(
        evaluations=int(evaluations), distinct_nontrivial=len(nontrivial) + bulk, rule=rule, samples=samples or ["<none>"],
        classes=dict(sorted(classes.items())), excluded=dict(excluded), shards=shard_info,
        failure_buckets={k: v for k, v in fail_counts.items()},
        known_findings_reproduced=sorted(known_still_failing), suppressed_by_known_finding=dict(suppressed),
        notes=notes[:20], exhaustive=bool(exhaustive),
    )
    cov.update(extra)
    if extra_cov:
        cov.update(extra_cov)
    evidence = dict(property_id=prop, tier=tier, seed=int(seed), level="exploration", coverage=cov,
                    assumptions=assumptions, wall_s=round(time.time() - t0, 2), violations=len(violations))
    ev_dir = env.out_root() / "evidence"
    ev_dir.mkdir(parents=True, exist_ok=True)
    (ev_dir / f"{prop}.json").write_text(json.dumps(evidence, indent=1, sort_keys=False) + "\n")

    for ln in lines:
        print(ln)
    if harness_errors:
        for h in harness_errors:
            print(f"HARNESS-ERROR {h.get('shard')}\n{h['harness_error']}", file=sys.stderr)
        if not violations:
            return 2
    if violations:
        return 1
    if gen_defects:
        print("GENERATOR-DEFECT " + "; ".join(gen_defects), file=sys.stderr)
        return 2
    print(f"OK property={prop} tier={tier} seed={seed} evaluations={evaluations} "
          f"distinct_nontrivial={len(nontrivial) + bulk} wall_s={evidence['wall_s']}")
    return 0


def shard_seed(seed: int, shard: int, salt: int = 0) -> int:
    return (seed * 1_000_003 + shard * 7919 + salt * 104_729 + 17) % (2**31 - 1)
