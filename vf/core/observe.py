"""Harness-side recorders: pass-through wrappers that record RNG draws / method calls ("recorded, not replaced")."""
from __future__ import annotations

import contextlib


class Draws:
    def __init__(self):
        self.events = []  # list of (kind, tensor|list)

    def of(self, kind):
        return [v for k, v in self.events if k == kind]


@contextlib.contextmanager
def record_rng():
    """Record every torch.randn / torch.rand call and every shuffle done by the samplers module."""
    import torch

    import leaspy.samplers.gibbs as G

    rec = Draws()
    o_randn, o_rand, o_shuffle = torch.randn, torch.rand, G.shuffle

    def randn(*a, **k):
        out = o_randn(*a, **k)
        rec.events.append(("randn", out.clone()))
        return out

    def rand(*a, **k):
        out = o_rand(*a, **k)
        rec.events.append(("rand", out.clone()))
        return out

    def shuffle(x, *a, **k):
        o_shuffle(x, *a, **k)
        rec.events.append(("shuffle", list(x)))

    torch.randn, torch.rand, G.shuffle = randn, rand, shuffle
    try:
        yield rec
    finally:
        torch.randn, torch.rand, G.shuffle = o_randn, o_rand, o_shuffle


@contextlib.contextmanager
def wrap_method(obj, name, before=None, after=None):
    """Wrap `obj.name` pass-through on an *instance* (bound method) or a class (plain function);
    `before(*args, **kw)` / `after(result, *args, **kw)` may record. Restored on exit."""
    is_class = isinstance(obj, type)
    had_own = name in vars(obj)
    raw = vars(obj)[name] if had_own else None
    orig = getattr(obj, name)

    if is_class:
        def wrapper(self, *a, **k):
            if before is not None:
                before(self, *a, **k)
            out = orig(self, *a, **k)
            if after is not None:
                after(out, self, *a, **k)
            return out
    else:
        def wrapper(*a, **k):
            if before is not None:
                before(*a, **k)
            out = orig(*a, **k)
            if after is not None:
                after(out, *a, **k)
            return out

    setattr(obj, name, wrapper)
    try:
        yield
    finally:
        if had_own:
            setattr(obj, name, raw)
        else:
            delattr(obj, name)


def make_samplers(state, dataset, *, sampler_pop="Gibbs", sampler_ind="Gibbs", pop_params=None, ind_params=None, extra=None):
    """Samplers exactly as the MCMC algorithms build them (through the algorithm's own initialiser)."""
    from leaspy.algo import AlgorithmSettings, algorithm_factory

    kw = dict(n_iter=10, progress_bar=False, sampler_pop=sampler_pop, sampler_ind=sampler_ind)
    if pop_params:
        kw["sampler_pop_params"] = pop_params
    if ind_params:
        kw["sampler_ind_params"] = ind_params
    if extra:
        kw.update(extra)
    settings = AlgorithmSettings("mcmc_saem", **kw)
    algo = algorithm_factory(settings)
    from leaspy.exceptions import LeaspyInputError

    from . import gen

    try:
        algo._initialize_samplers(state, dataset)
    except LeaspyInputError as e:
        if "Scale of variable" in str(e):
            # the initial proposal scale of a population variable is |its value|: a value that is exactly 0 (e.g. feature mean
            # exactly 0.5 -> log_g = 0) is refused at construction. No sampler, nothing to judge.
            raise gen.InitRejected("sampler-refused:zero-initial-scale") from e
        raise
    return algo
