"""Regenerate the generated parts of DESIGN.md from the committed data.

  python -m vf.tools.design_tables seeds     # table of section 12 from seeded/*/meta.json (between the table header and "Lessons")
  python -m vf.tools.design_tables counts    # prints evaluations / distinct non-trivial per property from evidence/*.json
"""
from __future__ import annotations

import json
import sys
from pathlib import Path

VERIF = Path(__file__).resolve().parents[2]
HEADER = "| id | what the change needs in order to manifest | caught by | strengthening |\n|---|---|---|---|\n"


def seeds_table():
    rows, n, first, other = [], 0, 0, []
    for d in sorted((VERIF / "seeded").iterdir()):
        mp = d / "meta.json"
        if not mp.exists():
            continue
        m = json.loads(mp.read_text())
        by = m.get("detected_by") or []
        st = (m.get("strengthening") or "").strip()
        n += 1
        if by and (not st or st.startswith("detected by the check as it stood") or st.startswith("caught by the")):
            first += 1
        if by and m["property"] not in by:
            other.append(f"{d.name} by {'+'.join(by)}")
        if st.startswith("detected by the check as it stood"):
            st = "—"
        rows.append(f"| {d.name} | {m.get('needs_to_manifest', '?')} | {', '.join(by) if by else '**missed**'} | {st or '—'} |")
    return "".join(r + "\n" for r in rows), n, first, other


def main():
    what = sys.argv[1] if len(sys.argv) > 1 else "seeds"
    if what == "counts":
        for p in sorted((VERIF / "evidence").glob("C*.json")):
            e = json.loads(p.read_text())
            print(p.stem, e.get("tier"), e.get("seed"), e["coverage"]["evaluations"], e["coverage"]["distinct_nontrivial"], e.get("wall_s"))
        return
    table, n, first, other = seeds_table()
    dp = VERIF / "DESIGN.md"
    s = dp.read_text()
    i = s.index(HEADER)
    j = s.index("\nLessons folded back", i)
    s = s[:i] + HEADER + table + s[j:]
    dp.write_text(s)
    print(f"{n} seeds, {first} caught without strengthening, caught by another property's check: {other}")


if __name__ == "__main__":
    main()
