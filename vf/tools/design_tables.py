"""Regenerate the generated parts of DESIGN.md from the committed data.

  python -m vf.tools.design_tables seeds     # table of section 12 from seeded/*/meta.json (between the table header and "Lessons")
  python -m vf.tools.design_tables refresh-counts   # counts column of the table of section 9.2 from evidence/*.json
  python -m vf.tools.design_tables counts    # prints evaluations / distinct non-trivial per property from evidence/*.json
"""
from __future__ import annotations

import json
import sys
from pathlib import Path

VERIF = Path(__file__).resolve().parents[2]
HEADER = "| id | what the change needs in order to manifest | caught by | strengthening |\n|---|---|---|---|\n"


def seeds_table():
    rows, n, first, other = [], 0, 0, []
    for d in sorted((VERIF / "seeded").iterdir()):
        mp = d / "meta.json"
        if not mp.exists():
            continue
        m = json.loads(mp.read_text())
        by = m.get("detected_by") or []
        st = (m.get("strengthening") or "").strip()
        n += 1
        if by and (not st or st.startswith("detected by the check as it stood") or st.startswith("caught by the")):
            first += 1
        if by and m["property"] not in by:
            other.append(f"{d.name} by {'+'.join(by)}")
        if st.startswith("detected by the check as it stood"):
            st = "—"
        rows.append(f"| {d.name} | {m.get('needs_to_manifest', '?')} | {', '.join(by) if by else '**missed**'} | {st or '—'} |")
    return "".join(r + "\n" for r in rows), n, first, other


def main():
    what = sys.argv[1] if len(sys.argv) > 1 else "seeds"
    if what == "counts":
        for p in sorted((VERIF / "evidence").glob("C*.json")):
            e = json.loads(p.read_text())
            print(p.stem, e.get("tier"), e.get("seed"), e["coverage"]["evaluations"], e["coverage"]["distinct_nontrivial"], e.get("wall_s"))
        return
    table, n, first, other = seeds_table()
    dp = VERIF / "DESIGN.md"
    s = dp.read_text()
    i = s.index(HEADER)
    j = s.index("\nLessons folded back", i)
    s = s[:i] + HEADER + table + s[j:]
    dp.write_text(s)
    print(f"{n} seeds, {first} caught without strengthening, caught by another property's check: {other}")




def _fmt(n):
    if n >= 1e6:
        return f"{n / 1e6:.2f} M"
    if n >= 1e4:
        return f"{n / 1e3:.0f} k" if n >= 1e5 else f"{n / 1e3:.1f} k"
    if n >= 1e3:
        return f"{n / 1e3:.1f} k"
    return str(n)


def refresh_counts():
    """Third cell of every row of the table of section 9.2 <- evidence/<id>.json (quick tier)."""
    import re

    dp = VERIF / "DESIGN.md"
    lines = dp.read_text().split("\n")
    out = []
    for ln in lines:
        m = re.match(r"^\| (C\d\d) \| (.*?) \| ([^|]*?) \| (.*) \|$", ln)
        ev = VERIF / "evidence" / f"{m.group(1)}.json" if m else None
        if m and ev.exists() and re.search(r"\d", m.group(3)) and "/" in m.group(3):
            e = json.loads(ev.read_text())
            if e.get("tier") == "quick":
                c = e["coverage"]
                ln = f"| {m.group(1)} | {m.group(2)} | {_fmt(c['evaluations'])} / {_fmt(c['distinct_nontrivial'])} | {m.group(4)} |"
        out.append(ln)
    dp.write_text("\n".join(out))


if __name__ == "__main__":
    if len(sys.argv) > 1 and sys.argv[1] == "refresh-counts":
        refresh_counts()
    else:
        main()
