"""Regenerate /verif/MANIFEST.json from the check modules present (python -m vf.tools.manifest)."""
from __future__ import annotations

import json
from pathlib import Path

VERIF = Path(__file__).resolve().parents[2]
PY = "/venv/bin/python"

BASELINE_CMD = ("cd /repo && /venv/bin/python -m pytest -ra -q -p no:cacheprovider --timeout=900 "
                "--continue-on-collection-errors")

# property -> (technique, level text, level note, design ref)
CHECKS = {
    "C01": ("bounded-exhaustive operation histories + Hypothesis rule-based state machines vs memo-free scratch evaluation",
            "Every history of bounded length over a 14-operation alphabet on two toy graphs is executed against the real State and compared bit-exactly with a memo-free evaluation of each variable's definition; Hypothesis state machines extend this to random toy DAGs and the graphs of all shipped model kinds. Exploration, not proof: histories longer than the bounds are only sampled.",
            "Trusts torch arithmetic and the LinkedVariable definitions themselves (the oracle re-evaluates the same definitions without any cache); partial reverts are only issued under the documented precondition.",
            "DESIGN.md section 5/C01"),
    "C02": ("generated proposals/rejection masks/read sets on model graphs; snapshot differential oracle (pre-proposal vs fully-proposed clone)",
            "Generated proposals (incl. overflowing ones), read sets and rejection masks on the real model graphs; after revert each cached row must equal the pre-proposal snapshot (rejected) or the from-scratch proposed value (accepted), bit-exact, and later aggregated reads equal scratch evaluation. Also driven end-to-end through sampler.sample.",
            "Reads between proposal and decision respect the documented contract; trusts torch.", "DESIGN.md section 5/C02"),
    "C03": ("recorded-draw differential oracle on 1-3 consecutive sampler calls (Hypothesis-generated states incl. extreme and far-from-mode ones, temperatures, scales, block orders)",
            "Each generated sampler step is re-derived from the recorded normal/uniform draws and from likelihood terms evaluated on a fresh clone: proposal support and value, acceptance iff u < exp(-D), post-state, locality, and draw accounting. Per-step rule only; not a statement about stationarity.",
            "torch.randn/rand are wrapped pass-through; terms are validated against scipy by C08.", "DESIGN.md section 5/C03"),
    "C04": ("generated cohorts + short seeded fits; float64 reference of the documented update formulas at every iteration",
            "Every maximisation step of generated short fits (all kinds/noise structures/missingness) is compared with an independent float64 implementation of the documented closed forms using the statistics in force and the pre-step parameters; mixture per-cluster means and probabilities against floored-softmax responsibilities, also on pre-step states with one individual moved far from every cluster.",
            "Tolerance derived from conditioning of the variance formula in float32; LeaspyConvergenceError counts as a rejected input.", "DESIGN.md section 5/C04"),
    "C05": ("exhaustive configuration grid + Hypothesis configurations; recorded s_k / S_k vs reference Robbins-Monro schedule",
            "Grid of (n_iter, burn-in fraction or count, power, annealing block shorter/longer than the memory-less phase, second run of one algorithm object) is enumerated and each run's recorded statistics are compared with the documented schedule bit-exactly; out-of-range powers (incl. NaN and infinities) must be refused.",
            "Reads int(frac*n_iter) as the documented float formula.", "DESIGN.md section 5/C05"),
    "C06": ("metamorphic: fill values under the mask and extra padding must not change any result (generated cohorts, tensor surgery)",
            "Generated cohorts are evaluated twice - as loaded and with masked entries overwritten by {0,1e30,-7.5,NaN,inf} and/or extra padded visits - and likelihood terms, statistics, updates, fits, personalisation and estimates must agree.",
            "Bit-exact unless padding changes reduction order (rtol 1e-5).", "DESIGN.md section 5/C06"),
    "C07": ("metamorphic: perturb/permute other individuals, alone-vs-batch, worker count and hash-seed sub-processes",
            "Generated cohorts and latents: individual i's terms, sampler decisions and personalised parameters are compared bit-exactly after replacing the other individuals (incl. one neighbour whose likelihood overflows), permuting them (with permuted draws), and across n_jobs and PYTHONHASHSEED values.",
            "Draws are position-indexed; totals and alone-vs-batch compared at rtol 1e-5 plus 1e-5 of the summed magnitudes of cancelling attachment entries.", "DESIGN.md section 5/C07"),
    "C08": ("generated values/parameters/layouts vs scipy.stats reference densities",
            "Generated inputs in all broadcasting layouts used by the models; Normal, Bernoulli and right-censored Weibull terms must equal -log density from scipy entry by entry, plus metamorphic censoring/penalty relations, at distribution and at model level.",
            "Ranges keep the Weibull hazard inside float64 normal range; mixture/multivariate families out of scope.", "DESIGN.md section 5/C08"),
    "C09": ("generated parameters/individuals/age containers vs float64 closed-form reference + layout predicates",
            "Generated admissible parameters and age containers of every shape: estimates must match the documented closed form, stay in [0,1], be monotone, and be returned for exactly the requested ids/ages in order.",
            "float32 tolerance rtol 2e-5 / atol 2e-6.", "DESIGN.md section 5/C09"),
    "C10": ("generated states: before/after re-centring invariance + independent orthogonality predicate",
            "Generated states with non-zero mean xi: re-centring must leave model/attachments unchanged and zero the mean; mixing-matrix rows must be orthogonal to the metric-weighted velocity (cosines; velocity scales from 1e-12 to 1e6, float32 and float64, every strip column).",
            "rtol 1e-5 (re-centring changes float32 operands).", "DESIGN.md section 5/C10"),
    "C11": ("differential: same seeded call under generated prior activity and logging configurations must be bit-identical",
            "Generated (algorithm, kind, seed incl. 0 and 2**31-1, prior RNG activity, logging options, n_jobs, settings given in memory or through a JSON file, reuse of one algorithm object): results must be bit-identical to the quiet reference run and the run must complete.",
            "Only documented-valid OutputsSettings combinations.", "DESIGN.md section 5/C11"),
    "C12": ("round-trip save/load/save on generated and fitted models + prior-mode self-consistency",
            "Generated hyperparameters/parameters/names and really fitted models (algorithm configuration drawn per fit: burn-in fraction or explicit count, annealing, sampler kind): population variables equal their prior modes after fit, derived quantities agree with what is saved, save->load->save must reproduce class, hyperparameters, parameters, estimates and the file.",
            "leaspy_version key ignored in the byte comparison.", "DESIGN.md section 5/C12"),
    "C13": ("bounded-exhaustive call histories + Hypothesis state machine; snapshot and twin-model differential oracles",
            "All call histories up to length 3 and generated longer ones: model parameters bit-identical around non-fit calls, no data left behind, inputs unmodified, and results equal those of a save/load twin.",
            "Twin = model reloaded from its saved parameters.", "DESIGN.md section 5/C13"),
    "C14": ("generated tables x permutations x malformations vs independent pandas reference reader; round trip",
            "Generated tables in all four layouts: tensors must equal an independent pandas reference, be row-order independent, round-trip, and each injected malformation must raise LeaspyDataInputError; caller frame untouched.",
            "Ages distinct after 6-digit rounding (documented precondition).", "DESIGN.md section 5/C14"),
    "C15": ("bounded-exhaustive digraph enumeration + Hypothesis graphs + model spec graphs vs Floyd-Warshall reference",
            "All digraphs on <=4 nodes (incl. self-loops; thorough: all loop-free on 5 nodes) under 3 name assignments, sampled 6-40 node graphs (layered and deep chains, names equal up to case, definitions given as explicit dependency sets or as functions with defaulted keyword-only parameters / functools.partial) and all shipped model graphs are built with the real code and compared with an independent closure/validity oracle; determinism checked against insertion order and string-hash seeds.",
            "Exhaustive only up to the stated sizes; larger graphs sampled.", "DESIGN.md section 5/C15"),
    "C16": ("round trips across dict/table/tensor/CSV/JSON on generated ids/names/shapes/values + rejection predicates",
            "Generated identifiers, names, shapes and values are pushed through every conversion and back; ids, names, shapes (modulo scalar == length-1 in 2-D forms) and values must be preserved; malformed additions must be refused and leave the container unchanged.",
            "Scalar identified with length-1 vector in table/tensor forms as documented.", "DESIGN.md section 5/C16"),
    "C17": ("generated cohorts/settings; recorded-chain oracle for mean/mode posterior, independent objective evaluation for scipy_minimize",
            "Generated cohorts and settings: ids aligned, shapes, finiteness; scipy result never worse than its start (objective recomputed independently); mean/mode posterior equal the mean / arg-min over the recorded kept draws of the same chain.",
            "Configurations keeping no draw are excluded.", "DESIGN.md section 5/C17"),
    "C18": ("generated designs (valid and invalid) with validity predicates over the simulated output",
            "Generated random and table-driven designs (tables with default, permuted, gapped, string and duplicated row labels, any row order; reused design objects; consecutive simulations in one process): exact ids, increasing unique ages, finite values in [0,1], one parameter row per id; invalid designs refused with LeaspyAlgoInputError before any draw.",
            "Designs with non-positive mean spacing and positive std excluded (possible non-termination).", "DESIGN.md section 5/C18"),
    "C19": ("exhaustive annealing grid + Hypothesis acceptance histories + real fits and personalisations with the temperature and scales handed to every sampler call recorded, vs reference schedules",
            "Grid of annealing configurations and generated acceptance histories, plus real mcmc_saem / mean_posterior / mode_posterior runs: temperature trace and proposal scales must match the documented envelopes and change points; every accepted configuration must run.",
            "|T-1| <= 1e-9 counts as exactly 1 (accumulated decrement).", "DESIGN.md section 5/C19"),
    "C20": ("generated histories/cohorts vs pandas reference (constant) and statsmodels MixedLM refit + closed-form BLUP (LME)",
            "Generated visit histories and univariate cohorts: constant predictions equal the pandas reference at all ages (also when one model object personalises several cohorts with permuted columns); LME random effects equal statsmodels' conditional means and the closed form; trajectories affine and equal to the line of the current parameters along fit / estimate / refit histories on one object.",
            "statsmodels convergence failures discard the case (counted).", "DESIGN.md section 5/C20"),
}


# checks that have been accepted (quiet on the unchanged tree at several seeds, mutants run); others stay "not claimed"
READY = [f"C{i:02d}" for i in range(1, 21)]


def main():
    checks, na = [], []
    for pid in sorted(CHECKS):
        tech, text, note, ref = CHECKS[pid]
        if pid in READY and (VERIF / "vf" / "checks" / f"{pid.lower()}.py").exists():
            checks.append(dict(
                property_id=pid,
                quick_cmd=f"{PY} -m vf.run {pid} --tier quick",
                thorough_cmd=f"{PY} -m vf.run {pid} --tier thorough",
                evidence_file=f"/verif/evidence/{pid}.json",
                replay_cmd_template=f"{PY} -m vf.run {pid} --replay {{path}}",
                engine="vf",
                level_claimed=dict(category="exploration", text=text, design_ref=ref),
                level_note=note,
                technique="property-based testing: " + tech,
            ))
        else:
            na.append(dict(property_id=pid, reason="check not built yet at this commit (planned; see DESIGN.md section 5)"))
    manifest = dict(
        version=1,
        setup_cmd="/venv/bin/python -c 'import hypothesis' 2>/dev/null || /venv/bin/pip install --no-index --find-links /opt/veriftools/wheels --target /verif/.deps hypothesis",
        hooks=dict(guard="LEASPY_VERIF", enable="no source hooks: checks observe leaspy from outside (wrapping in the harness process); they import /repo/src directly via PYTHONPATH",
                   baseline_off_cmd=BASELINE_CMD, source_commits=[], add_only=True),
        engines=[dict(name="vf", path="/verif/vf", serves_properties=[c["property_id"] for c in checks],
                      kind_free_text="Hypothesis 6.168 generators/state machines + bounded-exhaustive enumerations, sharded over 16 processes, explicit oracles, collect-then-shrink, JSON replay files")],
        checks=checks,
        notes="All checks: exit 0 held / 1 VIOLATION line / 2 harness or generator error. VERIF_SEED selects the Hypothesis seeds; VERIF_REPO (default /repo) selects the tree under test.",
        not_applicable=na,
    )
    (VERIF / "MANIFEST.json").write_text(json.dumps(manifest, indent=1) + "\n")
    print(f"{len(checks)} checks, {len(na)} not claimed")


if __name__ == "__main__":
    main()
