"""Sensitivity (mutation) runner: apply a hand-made mutant to a scratch copy of /repo/src (outside /repo and
/verif), run a check's quick tier against it via VERIF_REPO, report whether it was killed, remove the copy.

usage: python -m vf.tools.mut <catalog.json> [--prop Cxx] [--id mutant-id] [--tier quick] [--jobs 1]
catalog entry: {"id": "...", "property": "C15", "file": "src/leaspy/...", "old": "...", "new": "...", "note": "..."}
"""
from __future__ import annotations

import argparse
import json
import os
import shutil
import subprocess
import sys
import tempfile
import time
from pathlib import Path

VERIF = Path(__file__).resolve().parents[2]


def run_one(m, tier):
    tmp = Path(tempfile.mkdtemp(prefix="vfmut_"))
    try:
        shutil.copytree("/repo/src", tmp / "src", ignore=shutil.ignore_patterns("__pycache__"))
        edits = m.get("edits") or [dict(file=m["file"], old=m["old"], new=m["new"])]
        for e in edits:
            f = tmp / e["file"]
            s = f.read_text()
            if s.count(e["old"]) != 1:
                return dict(id=m["id"], status="bad-mutant", detail=f"old string occurs {s.count(e['old'])}x in {e['file']}")
            f.write_text(s.replace(e["old"], e["new"]))
        env = dict(os.environ, VERIF_REPO=str(tmp), VF_OUT=str(tmp / "out"))
        env.pop("VF_CHILD", None)
        t0 = time.time()
        props = m["property"] if isinstance(m["property"], list) else [m["property"]]
        out = []
        for prop in props:
            p = subprocess.run([sys.executable, "-m", "vf.run", prop, "--tier", tier], cwd=VERIF, env=env,
                               capture_output=True, text=True)
            viol = [l for l in p.stdout.splitlines() if l.startswith("VIOLATION")]
            detail = ""
            if viol:
                detail = "; ".join(l for l in p.stderr.splitlines() if "bucket=" in l)[:300]
            elif p.returncode not in (0, 1):
                detail = p.stderr[-600:]
            out.append(dict(prop=prop, exit=p.returncode, killed=bool(p.returncode == 1 and viol), detail=detail))
        return dict(id=m["id"], status="ran", results=out, wall_s=round(time.time() - t0, 1))
    finally:
        shutil.rmtree(tmp, ignore_errors=True)


def main():
    ap = argparse.ArgumentParser()
    ap.add_argument("catalog")
    ap.add_argument("--prop")
    ap.add_argument("--id")
    ap.add_argument("--tier", default="quick")
    a = ap.parse_args()
    cat = json.loads(Path(a.catalog).read_text())
    res = []
    for m in cat:
        props = m["property"] if isinstance(m["property"], list) else [m["property"]]
        if a.prop and a.prop not in props:
            continue
        if a.id and a.id != m["id"]:
            continue
        r = run_one(m, a.tier)
        print(json.dumps(r), flush=True)
        res.append(r)
    killed = sum(1 for r in res if r.get("status") == "ran" and any(x["killed"] for x in r["results"]))
    print(f"SUMMARY mutants={len(res)} killed={killed}")


if __name__ == "__main__":
    main()
