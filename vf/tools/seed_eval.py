"""Evaluate seeded regressions (written by independent sub-agents) against the checks.

For every /verif/seeded/<id>/ (patch.diff, demo.py, meta.json with at least {"property": "Cxx"}):
  1. scratch git worktree of /repo HEAD under /tmp, `git apply patch.diff`
  2. demo.py on the clean tree (expect exit 0) and on the patched tree (expect exit != 0)
  3. the property's quick check against the patched tree (VERIF_REPO) - expect exit 1 + VIOLATION line
  4. optionally (--tests) the repository's pytest baseline on the patched tree
Results are written back into meta.json (keys: demo_clean_exit, demo_patched_exit, check: {...}, tests: "...").

usage: python -m vf.tools.seed_eval [--id C01-A] [--tests] [--tier quick] [--extra-props C02,C03]
"""
from __future__ import annotations

import argparse
import json
import os
import shutil
import subprocess
import sys
import tempfile
import time
from pathlib import Path

VERIF = Path(__file__).resolve().parents[2]
PY = sys.executable


def sh(cmd, **kw):
    return subprocess.run(cmd, capture_output=True, text=True, **kw)


def evaluate(sdir: Path, run_tests: bool, tier: str, extra_props):
    meta_p = sdir / "meta.json"
    meta = json.loads(meta_p.read_text()) if meta_p.exists() else {}
    wt = Path(tempfile.mkdtemp(prefix="vfseed_")) / "wt"
    try:
        r = sh(["git", "-C", "/repo", "worktree", "add", "--detach", str(wt), "HEAD"])
        if r.returncode:
            raise RuntimeError(r.stderr)
        env_clean = dict(os.environ, PYTHONPATH=f"{wt}/src", PYTHONHASHSEED="0", OMP_NUM_THREADS="2")
        d0 = sh([PY, str(sdir / "demo.py")], env=env_clean, cwd=str(wt.parent), timeout=900)
        meta["demo_clean_exit"] = d0.returncode
        a = sh(["git", "-C", str(wt), "apply", str(sdir / "patch.diff")])
        meta["patch_applies"] = a.returncode == 0
        if a.returncode:
            meta["patch_error"] = a.stderr[-500:]
            return meta
        d1 = sh([PY, str(sdir / "demo.py")], env=env_clean, cwd=str(wt.parent), timeout=900)
        meta["demo_patched_exit"] = d1.returncode
        meta["demo_patched_tail"] = (d1.stdout + d1.stderr)[-400:]
        checks = {}
        props = [meta["property"]] + [p for p in extra_props if p != meta["property"]]
        for prop in props:
            out = Path(tempfile.mkdtemp(prefix="vfseedout_"))
            env = dict(os.environ, VERIF_REPO=str(wt), VF_OUT=str(out))
            env.pop("VF_CHILD", None)
            t0 = time.time()
            p = sh([PY, "-m", "vf.run", prop, "--tier", tier], cwd=str(VERIF), env=env)
            viol = [l for l in p.stdout.splitlines() if l.startswith("VIOLATION")]
            buckets = sorted({l.strip() for l in p.stderr.splitlines() if "bucket=" in l})[:6]
            checks[prop] = dict(exit=p.returncode, detected=bool(p.returncode == 1 and viol), buckets=buckets, wall_s=round(time.time() - t0, 1),
                                tail=(p.stderr[-300:] if p.returncode not in (0, 1) else ""))
            shutil.rmtree(out, ignore_errors=True)
        meta["check"] = checks
        meta["detected_by"] = [p for p, c in checks.items() if c["detected"]]
        if run_tests:
            t = sh([PY, "-m", "pytest", "-q", "-p", "no:cacheprovider", "--timeout=900", "--continue-on-collection-errors", "tests"],
                   cwd=str(wt), env=dict(os.environ, PYTHONPATH=f"{wt}/src", OMP_NUM_THREADS="2"))
            lines = [l for l in t.stdout.splitlines() if " passed" in l or " failed" in l or " error" in l]
            meta["tests"] = lines[-1] if lines else t.stdout[-300:]
        meta["evaluated_at_repo_head"] = sh(["git", "-C", "/repo", "rev-parse", "--short", "HEAD"]).stdout.strip()
        return meta
    finally:
        sh(["git", "-C", "/repo", "worktree", "remove", "--force", str(wt)])
        shutil.rmtree(wt.parent, ignore_errors=True)
        meta_p.write_text(json.dumps(meta, indent=1) + "\n")


def main():
    ap = argparse.ArgumentParser()
    ap.add_argument("--id")
    ap.add_argument("--tests", action="store_true")
    ap.add_argument("--tier", default="quick")
    ap.add_argument("--extra-props", default="")
    a = ap.parse_args()
    extra = [x for x in a.extra_props.split(",") if x]
    for sdir in sorted((VERIF / "seeded").iterdir()):
        if not sdir.is_dir() or (a.id and sdir.name != a.id):
            continue
        m = evaluate(sdir, a.tests, a.tier, extra)
        print(json.dumps({k: m.get(k) for k in ("property", "patch_applies", "demo_clean_exit", "demo_patched_exit", "detected_by", "tests")} | {"id": sdir.name}), flush=True)


if __name__ == "__main__":
    main()
