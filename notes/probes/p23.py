from common import *
from leaspy.variables.specs import LatentVariableInitType
rng = np.random.RandomState(0)
def joint_df(n=8, nft=2):
    d = synth(n=n, nft=nft, miss=0.1)
    last = d.groupby("ID")["TIME"].max()
    eb = (rng.rand(len(last))<0.5).astype(int); eb[0]=1; eb[1]=0
    ev = pd.DataFrame({"EVENT_TIME": last + rng.rand(len(last))*3+0.1, "EVENT_BOOL": eb}, index=last.index)
    return d.merge(ev, left_on="ID", right_index=True)
for name, M, kw, dt in [("shared", SharedSpeedLogisticModel, dict(source_dimension=1, dimension=3), "visit"), ("linear", LinearModel, dict(source_dimension=2, dimension=3), "visit"), ("joint", JointModel, dict(source_dimension=1, dimension=2, nb_events=1), "joint")]:
    df = joint_df(nft=2) if dt=="joint" else synth(n=6, nft=3, miss=0.1)
    data = Data.from_dataframe(df, dt) if dt=="joint" else Data.from_dataframe(df)
    ds = Dataset(data); m = M(name, **kw); m.initialize(ds); st = m.state
    with st.auto_fork(None):
        m.put_data_variables(st, ds); torch.manual_seed(0)
        st.put_individual_latent_variables(LatentVariableInitType.PRIOR_SAMPLES, n_individuals=ds.n_individuals)
        st["xi"] = st["xi"] + 0.6
        if "betas" in st.dag: st["betas"] = torch.randn(st["betas"].shape)*0.3
    print(name, "has recentre:", hasattr(m, "_center_xi_realizations"))
    keys = ["model","nll_attach_ind"] + (["nll_attach_event_ind","nll_attach_y_ind"] if dt=="joint" else [])
    b = {k: st[k].clone() for k in keys}
    if hasattr(m, "_center_xi_realizations"):
        with st.auto_fork(None): m._center_xi_realizations(st)
        print("   mean xi", st["xi"].mean().item(), {k: ((st[k]-b[k]).abs().max()/(b[k].abs().max())).item() for k in keys})
    mm = st["mixing_matrix"]
    if name=="shared": w = st["g_metric"]*st["collin_to_d_gamma_t0"]
    else: w = st["metric_sqr"]*st["v0"]
    print("   orth:", (mm@w).abs().max().item()/ (mm.norm()*w.norm()).item(), "basis orthonormal err", (st["orthonormal_basis"].T@st["orthonormal_basis"]-torch.eye(mm.shape[0] if False else st["orthonormal_basis"].shape[1])).abs().max().item())
