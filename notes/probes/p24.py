import warnings; warnings.filterwarnings('ignore')
import os, time, torch, leaspy.models, hypothesis
from hypothesis import settings, strategies as st, seed, Phase, HealthCheck
from hypothesis.stateful import RuleBasedStateMachine, rule, invariant, precondition, run_state_machine_as_test, initialize
from leaspy.variables.dag import VariablesDAG
from leaspy.variables.specs import DataVariable, LinkedVariable
from leaspy.variables.state import State, StateForkType
from leaspy.exceptions import LeaspyInputError
N=4
def mk():
    return {"a": DataVariable(), "b": DataVariable(), "p": DataVariable(),
            "c": LinkedVariable(lambda *, a, b: a+b), "d": LinkedVariable(lambda *, c, p: c*p),
            "e": LinkedVariable(lambda *, d: d.sum(dim=0)), "f": LinkedVariable(lambda *, a, p: a*p+1)}
IND = {"a","b","c","d","f"}
def scratch(dag, vals, name, memo=None):
    var = dag[name]
    if not isinstance(var, LinkedVariable): return vals[name]
    args = {k: scratch(dag, vals, k) for k in var.parameters}
    if any(v is None for v in args.values()): return None
    return var.f(**args)
cnt={"steps":0,"machines":0}
vec = st.lists(st.floats(-4,4,width=32), min_size=N, max_size=N).map(lambda l: torch.tensor(l).reshape(N,1))
class M(RuleBasedStateMachine):
    def __init__(self):
        super().__init__(); self.dag=VariablesDAG.from_dict(mk()); self.s=State(self.dag, auto_fork_type=StateForkType.REF); self.nonind_read=False; self.last_ind=False; cnt["machines"]+=1
    @rule(n=st.sampled_from(["a","b"]), v=vec)
    def set_ind(self, n, v): self.s[n]=v; self.nonind_read=False; self.last_ind=True; cnt["steps"]+=1
    @rule(v=st.floats(-2,2,width=32))
    def set_p(self, v): self.s["p"]=torch.tensor(v); self.nonind_read=False; self.last_ind=False; cnt["steps"]+=1
    @rule(n=st.sampled_from(["a","b"]), v=vec)
    def acc(self, n, v):
        if self.s._values[n] is None: return
        self.s.put(n, v, accumulate=True); self.nonind_read=False; self.last_ind=True; cnt["steps"]+=1
    @rule(names=st.lists(st.sampled_from(sorted(mk())), min_size=1, max_size=3))
    def read(self, names):
        cnt["steps"]+=1
        for n in names:
            if n not in IND: self.nonind_read=True
            indep = {k: self.s._values[k] for k in ("a","b","p")}
            exp = scratch(self.dag, indep, n)
            if exp is None:
                try: self.s[n]; assert False, f"read {n} should raise"
                except LeaspyInputError: pass
            else:
                got = self.s[n]; assert torch.equal(got, exp), (n, got, exp)
    @rule()
    def revert(self):
        cnt["steps"]+=1
        try: self.s.revert()
        except LeaspyInputError: pass
    @precondition(lambda self: not self.nonind_read and self.last_ind)
    @rule(mask=st.lists(st.booleans(), min_size=N, max_size=N))
    def prevert(self, mask):
        cnt["steps"]+=1
        try: self.s.revert(torch.tensor(mask))
        except LeaspyInputError: pass
    @rule(t=st.sampled_from([None, StateForkType.REF, StateForkType.COPY]))
    def switch(self, t): self.s.auto_fork_type=t
    @rule(n=st.sampled_from(["a","b"]), v=vec, t=st.sampled_from([None, StateForkType.COPY]))
    def set_under(self, n, v, t):
        with self.s.auto_fork(t): self.s[n]=v
        self.nonind_read=False; self.last_ind=True; cnt["steps"]+=1
    @rule()
    def clone(self): self.s = self.s.clone(keep_last_fork=True)
t=time.time()
try:
    run_state_machine_as_test(seed(int(os.environ.get("VERIF_SEED","1")))(M), settings=settings(max_examples=300, stateful_step_count=30, deadline=None, database=None, report_multiple_bugs=False, suppress_health_check=list(HealthCheck)))
    print("no failure")
except AssertionError as e:
    print("FAIL", str(e)[:200])
print(cnt, "%.1fs"%(time.time()-t))
