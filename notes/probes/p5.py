from common import *
df = synth(n=8, nft=2, miss=0.1)
m = LogisticModel(name="logistic", source_dimension=1)
with quiet(): m.fit(df, "mcmc_saem", n_iter=40, seed=0, progress_bar=False)
base = dict(patient_number=4, visit_type="random", first_visit_mean=0., first_visit_std=0.4, time_follow_up_mean=3, time_follow_up_std=0.5, distance_visit_mean=0.5, distance_visit_std=0.1)
def run(vp, **kw):
    try:
        with quiet(): r = m.simulate(algorithm="simulate", features=["f0","f1"], visit_parameters=vp, seed=0, **kw)
        d = r.data.to_dataframe(); print("OK", {k:v for k,v in vp.items() if k not in base or base[k]!=v}, d.shape, d["ID"].nunique(), type(r.individual_parameters).__name__, r.individual_parameters.shape)
    except Exception as e:
        print("ERR", {k:v for k,v in vp.items() if k not in base or base[k]!=v}, type(e).__name__, str(e)[:100])
run(base)
run({**base, "min_spacing_between_visits": 0})
run({**base, "min_spacing_between_visits": 0.0005})
run({**base, "min_spacing_between_visits": 2})
run({**base, "distance_visit_std": 0})
run({**base, "distance_visit_std": 2.0})
run({**base, "patient_number": 1})
run(dict(visit_type="dataframe", df_visits=pd.DataFrame({"ID":["a","a","b"],"TIME":[70.,71.,65.]})))
run(dict(visit_type="dataframe", df_visits=pd.DataFrame({"ID":[1,1,2],"TIME":[70.,71.,65.]})))
run(dict(visit_type="dataframe", df_visits=pd.DataFrame({"ID":["a","a","b"],"TIME":[70.,70.0001,65.]})))
run(dict(visit_type="dataframe", df_visits=pd.DataFrame({"ID":["b","a","a"],"TIME":[70.,72,71.]})))
