from common import *
from scipy import stats
from leaspy.io.outputs import IndividualParameters as IP
rng=np.random.RandomState(1)
# C09 shared-speed & linear closed forms vs code, random params
def mk(kind, dim, sd):
    p = {"tau_mean":[70.], "tau_std":[5.], "xi_std":[0.5], "noise_std":[0.1]*dim}
    if kind=="logistic": p.update(log_g_mean=rng.randn(dim).tolist(), log_v0_mean=(-4+rng.randn(dim)*0.5).tolist())
    if kind=="linear": p.update(g_mean=rng.rand(dim).tolist(), log_v0_mean=(-4+rng.randn(dim)*0.5).tolist())
    if kind=="shared": p.update(log_g_mean=[rng.randn()], xi_mean=[-3.+rng.randn()*0.3], deltas_mean=rng.randn(dim-1).tolist())
    if sd>0: p.update(betas_mean=(rng.randn(dim-1, sd)*0.5).tolist())
    M={"logistic":LogisticModel,"linear":LinearModel,"shared":SharedSpeedLogisticModel}[kind]
    m=M({"shared":"shared_speed_logistic"}.get(kind,kind), dimension=dim, source_dimension=sd); m.load_parameters(p); m._is_initialized=True; m.features=[f"f{i}" for i in range(dim)]
    return m,p
worst={}
for it in range(200):
    kind = ["logistic","linear","shared"][it%3]; dim=rng.randint(2,5); sd=rng.randint(0,dim)
    m,p = mk(kind,dim,sd)
    xi=rng.randn()*0.8; tau=70+rng.randn()*8; src=rng.randn(sd)
    t = np.sort(rng.uniform(40,110,size=5))
    ip=IP(); d={"xi":[xi],"tau":[tau]}; 
    if sd>0: d["sources"]=src.tolist()
    ip.add_individual_parameters("x", d)
    est = m.estimate({"x":t.tolist()}, ip)["x"].astype(np.float64)
    mm = m.state["mixing_matrix"].double().numpy() if sd>0 else None
    w = src@mm if sd>0 else np.zeros(dim)
    rt = np.exp(np.float32(xi).astype(np.float64))*(t.astype(np.float32).astype(np.float64)-np.float64(np.float32(tau)))
    if kind=="logistic":
        g=np.exp(np.array(p["log_g_mean"],dtype=np.float32).astype(np.float64)); v0=np.exp(np.array(p["log_v0_mean"],dtype=np.float32).astype(np.float64))
        ref = 1/(1+g*np.exp(-(g+1)**2/g*(v0*rt[:,None]+w)))
    elif kind=="linear":
        g=np.array(p["g_mean"],dtype=np.float32).astype(np.float64); v0=np.exp(np.array(p["log_v0_mean"],dtype=np.float32).astype(np.float64))
        ref = g + v0*rt[:,None]+w
    else:
        g=np.exp(np.float64(np.float32(p["log_g_mean"][0]))); dl=np.concatenate([[0.],np.array(p["deltas_mean"],dtype=np.float32).astype(np.float64)])
        gd = g*np.exp(-dl); metric=(gd+1)**2/gd
        # documented: logit = metric*w + rt + deltas - log g   (rt uses xi with prior mean xi_mean; alpha=exp(xi))
        ref = 1/(1+np.exp(-(metric*w + rt[:,None] + dl - np.log(g))))
    err = np.abs(est-ref).max(); worst[kind]=max(worst.get(kind,0), err)
    if kind!="linear": assert (est>=0).all() and (est<=1).all() and (np.diff(est,axis=0)>=-1e-6).all(), (kind, est)
print("max abs err", worst)
