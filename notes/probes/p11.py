from common import *
# C14 event-only order and joint
ev = pd.DataFrame({"ID":["b","a","c"],"EVENT_TIME":[5.,6.,7.],"EVENT_BOOL":[1,0,1]})
d = Data.from_dataframe(ev, "event"); print("event-only order:", list(d.individuals))
ds = Dataset(d); print(ds.indices, ds.event_time.tolist(), ds.event_bool.tolist(), ds.dimension)
print(ds.to_pandas())
# visit order & row perm
df = pd.DataFrame({"ID":["b","a","b","a"],"TIME":[2.,1.,1.,3.],"x":[.2,.1,np.nan,.3]})
d = Data.from_dataframe(df); ds=Dataset(d); print(ds.indices, ds.timepoints.tolist(), ds.values[...,0].tolist(), ds.mask[...,0].tolist())
# int ids; rounding dup
try: Data.from_dataframe(pd.DataFrame({"ID":[1,1],"TIME":[1.0000001,1.0000002],"x":[.1,.2]})); print("dup-after-round accepted")
except Exception as e: print("dup rounding:", type(e).__name__)
# full-nan row dropping changes first appearance?
df = pd.DataFrame({"ID":["b","a","b"],"TIME":[2.,1.,3.],"x":[np.nan,.1,.3]})
print(list(Data.from_dataframe(df).individuals))
# inf value
for bad in [dict(x=[np.inf,.1,.2]), dict(x=["a",.1,.2]), dict(TIME=[np.nan,1.,2.]), dict(TIME=[np.inf,1.,2.]), dict(ID=[None,"a","b"]), dict(ID=["","a","b"]), dict(ID=[1.5,2.5,3.5]), dict(ID=[-1,2,3])]:
    base = dict(ID=["a","b","c"], TIME=[1.,2.,3.], x=[.1,.2,.3]); base.update(bad)
    try: Data.from_dataframe(pd.DataFrame(base)); print(bad, "ACCEPTED")
    except Exception as e: print(bad, type(e).__name__)
