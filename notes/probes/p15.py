import warnings; warnings.filterwarnings('ignore')
import torch, numpy as np, leaspy.models
from scipy import stats
from leaspy.variables.distributions import WeibullRightCensoredFamily as W, WeibullRightCensoredWithSourcesFamily as WS, NormalFamily as N, BernoulliFamily as B
from leaspy.utils.weighted_tensor import WeightedTensor
x = WeightedTensor(torch.tensor([[70.],[66.],[70.],[60.]],dtype=torch.double), torch.tensor([[True],[True],[False],[True]]))
nu=torch.tensor([10.]); rho=torch.tensor([2.5]); xi=torch.tensor([[0.2],[-0.1],[0.1],[0.]]); tau=torch.tensor([[65.],[65.],[62.],[65.]])
r = W._nll(x,nu,rho,xi,tau); print(r.value.flatten().tolist(), r.value.dtype, r.weight)
s = (x.value-tau).numpy().flatten(); sc = (nu*torch.exp(-xi)).numpy().flatten()
ref = [-(stats.weibull_min.logsf(max(si,0),2.5,scale=sci) + (stats.weibull_min.logpdf(si,2.5,scale=sci)-stats.weibull_min.logsf(si,2.5,scale=sci) if (e and si>0) else 0)) for si,sci,e in zip(s,sc,[1,1,0,1])]
print(ref)
ss = torch.tensor([[0.3],[0.],[-0.2],[0.1]])
print(WS._nll(x,nu,rho,xi,tau,ss).value.flatten().tolist())
# sum_dim on nll
from leaspy.utils.weighted_tensor import sum_dim
print(sum_dim(r, but_dim=0))
