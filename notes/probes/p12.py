from common import *
from leaspy.variables.specs import LatentVariableInitType
df = synth(n=6, nft=2, miss=0.15)
m = LogisticModel(name="logistic", source_dimension=1)
with quiet(): m.fit(df, "mcmc_saem", n_iter=40, seed=0, progress_bar=False)
import tempfile; d=tempfile.mkdtemp(); m.save(d+"/m.json"); m = BaseModel.load(d+"/m.json")
# C07: n_jobs & permutation & subset
with quiet():
    a = m.personalize(df, "scipy_minimize", seed=3, progress_bar=False).to_dataframe()
    b = m.personalize(df, "scipy_minimize", seed=3, progress_bar=False, n_jobs=2).to_dataframe()
print("n_jobs 1 vs 2 equal:", a.equals(b), (a-b).abs().max().max())
ids = df.ID.unique()[::-1]
dfp = pd.concat([df[df.ID==i] for i in ids])
with quiet(): c = m.personalize(dfp, "scipy_minimize", seed=3, progress_bar=False).to_dataframe()
print("perm: ", list(c.index), (a.loc[c.index]-c).abs().max().max())
with quiet(): s = m.personalize(df[df.ID.isin(["s2"])], "scipy_minimize", seed=3, progress_bar=False).to_dataframe()
print("alone vs cohort s2:", (a.loc[["s2"]]-s).abs().max().max())
# C10 recentre invariance
ds = Dataset(Data.from_dataframe(df)); st = m.state.clone(disable_auto_fork=True)
m.put_data_variables(st, ds); torch.manual_seed(0)
st.put_individual_latent_variables(LatentVariableInitType.PRIOR_SAMPLES, n_individuals=ds.n_individuals)
st["xi"] = st["xi"] + 0.7
mod0 = st["model"].clone(); att0 = st["nll_attach_ind"].clone(); ss0 = st["space_shifts"].clone()
m._center_xi_realizations(st)
print("recentre: mean xi", st["xi"].mean().item(), "model diff", (st["model"]-mod0).abs().max().item(), "attach diff", (st["nll_attach_ind"]-att0).abs().max().item(), "ss diff", (st["space_shifts"]-ss0).abs().max().item())
v0 = st["v0"]; msq = st["metric_sqr"]; mm = st["mixing_matrix"]
print("orthogonality mm @ (metric_sqr*v0):", (mm @ (msq*v0)).abs().max().item())
