from common import *
from leaspy.samplers import IndividualGibbsSampler, PopulationGibbsSampler, PopulationFastGibbsSampler, PopulationMetropolisHastingsSampler
# C19 std schedule: drive _update_acceptation_rate/_update_std with generated histories
rng=np.random.RandomState(0)
bad=0
for cls, shape in [(PopulationGibbsSampler,(2,3)),(PopulationFastGibbsSampler,(2,3)),(PopulationMetropolisHastingsSampler,(2,3)),(IndividualGibbsSampler,(1,))]:
    for trial in range(30):
        L=rng.randint(1,12); lo=rng.uniform(0.05,0.4); hi=rng.uniform(lo+0.05,0.95); f=rng.uniform(0.01,0.9)
        kw=dict(acceptation_history_length=L, mean_acceptation_rate_target_bounds=(lo,hi), adaptive_std_factor=f)
        s = cls("v", shape, scale=1.0, **kw) if cls is not IndividualGibbsSampler else cls("v", shape, n_patients=4, scale=1.0, **kw)
        shp = s.shape_acceptation; hist=[torch.zeros(shp) for _ in range(L)]; std=s.std.clone()
        for k in range(1, 40):
            acc = torch.tensor(rng.rand(*shp) < rng.choice([0.05,0.3,0.9])).float() if shp!=() else torch.tensor(float(rng.rand()<0.5))
            s._update_acceptation_rate(acc); s._update_std()
            hist = hist[1:]+[acc]
            exp = std.clone()
            if k % L == 0:
                mean = torch.stack(hist).mean(0)
                exp = torch.where(mean<lo, std*(1-f), torch.where(mean>hi, std*(1+f), std))
            if not torch.allclose(s.std, exp, rtol=1e-6): bad+=1; print("MISMATCH", cls.__name__, k, L)
            std = s.std.clone()
            assert (s.std>0).all() and torch.isfinite(s.std).all()
print("std schedule mismatches:", bad)
