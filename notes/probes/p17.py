from common import *
from leaspy.models import ConstantModel, LMEModel
import statsmodels.api as sm
from statsmodels.regression.mixed_linear_model import MixedLM
# constant
df = pd.DataFrame({"ID":["a","a","a","b","b"],"TIME":[3.,1.,2.,5.,4.],"x":[.3,.1,np.nan,np.nan,.4],"y":[np.nan,np.nan,np.nan,.5,.6]})
for pt in ["last","last-known","max","mean"]:
    m = ConstantModel("constant")
    try:
        with quiet(): ip = m.personalize(df, "constant_prediction", prediction_type=pt)
        est = m.estimate({"a":[10.,20.,30.],"b":[1.]}, ip)
        print(pt, ip._individual_parameters, {k:v.tolist() for k,v in est.items()})
    except Exception as e:
        import traceback; traceback.print_exc(); print(pt, "ERR", type(e).__name__, e)
