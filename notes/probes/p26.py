from common import *
import tempfile, json, os
d=tempfile.mkdtemp()
rng=np.random.RandomState(0)
def params_for(kind, dim, sd, noise_dim, nb_events=1):
    p = {"tau_mean":[70.+rng.randn()], "tau_std":[5.+rng.rand()], "xi_std":[0.5], "noise_std":(0.05+0.1*rng.rand(noise_dim)).tolist()}
    if kind in ("logistic","joint"): p.update(log_g_mean=rng.randn(dim).tolist(), log_v0_mean=(-4+rng.randn(dim)*0.3).tolist())
    if kind=="linear": p.update(g_mean=rng.rand(dim).tolist(), log_v0_mean=(-4+rng.randn(dim)*0.3).tolist())
    if kind=="shared": p.update(log_g_mean=[rng.randn()], xi_mean=[-4.0], deltas_mean=rng.randn(dim-1).tolist())
    if sd>0: p.update(betas_mean=(rng.randn(dim-1, sd)*0.2).tolist())
    if kind=="joint":
        p.update(n_log_nu_mean=[-2.0]*nb_events, log_rho_mean=[0.5]*nb_events)
        if sd>0: p.update(zeta_mean=(rng.randn(sd, nb_events)*0.1).tolist())
    return p
K = {"logistic":LogisticModel,"linear":LinearModel,"shared":SharedSpeedLogisticModel,"joint":JointModel}
kn = {"logistic":"logistic","linear":"linear","shared":"shared_speed_logistic","joint":"joint"}
for kind in K:
    for dim, sd, obs in [(1,0,"gaussian-scalar"),(3,0,"gaussian-diagonal"),(3,2,"gaussian-diagonal"),(3,1,"gaussian-scalar")]:
        if kind=="shared" and dim==1: continue
        try:
            feats=[f"ft {i}é" for i in range(dim)]
            kw = dict(features=feats, source_dimension=sd, obs_models=obs) 
            m = K[kind](kn[kind], **kw)
            m.load_parameters(params_for(kind, dim, sd, 1 if (obs=="gaussian-scalar" or dim==1) else dim)); m._is_initialized=True
            f1=d+"/a.json"; m.save(f1); m2 = BaseModel.load(f1); f2=d+"/b.json"; m2.save(f2)
            same_file = open(f1).read()==open(f2).read()
            ip = {"xi":[0.1], "tau":[71.]}; 
            if sd>0: ip["sources"]=[0.3]*sd
            from leaspy.io.outputs import IndividualParameters as IP
            ips=IP(); ips.add_individual_parameters("x", ip)
            e1 = m.estimate({"x":[60.,70.,80.]}, ips)["x"]; e2 = m2.estimate({"x":[60.,70.,80.]}, ips)["x"]
            pe = all(torch.equal(torch.as_tensor(m.parameters[k]), torch.as_tensor(m2.parameters[k])) for k in m.parameters)
            print(kind, dim, sd, obs, "file same:", same_file, "params eq:", pe, "est eq:", np.array_equal(e1,e2), "type", type(m2).__name__, m2.features==feats)
        except Exception as e:
            import traceback; print(kind, dim, sd, obs, "ERR", type(e).__name__, str(e)[:150])
