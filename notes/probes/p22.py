import warnings; warnings.filterwarnings('ignore')
import hashlib, leaspy.models
from leaspy.models import LogisticModel, LinearModel, SharedSpeedLogisticModel, JointModel, LogisticMultivariateMixtureModel
from leaspy.variables.dag import VariablesDAG
out=[]
for name, m in [("log", LogisticModel("logistic", dimension=3, source_dimension=2)), ("lin", LinearModel("linear", dimension=3, source_dimension=1)), ("ss", SharedSpeedLogisticModel("shared_speed_logistic", dimension=3, source_dimension=2)), ("joint", JointModel("joint", dimension=3, source_dimension=2, nb_events=1)), ("mix", LogisticMultivariateMixtureModel("mixture_logistic", obs_models="gaussian-diagonal", dimension=3, source_dimension=1, n_clusters=2))]:
    dag = VariablesDAG.from_dict(m.get_variables_specs())
    h = hashlib.md5(repr((dag.sorted_variables_names, sorted(dag.sorted_children.items()), sorted(dag.sorted_ancestors.items()))).encode()).hexdigest()[:8]
    f = dag["nll_regul_ind_sum_ind"].f
    out.append(f"{name}:{len(dag)}:{h}:{f.parameters}")
print(" | ".join(out))
