from common import *
df = synth(n=6, nft=2, miss=0.1)
m = LogisticModel(name="logistic", source_dimension=1)
with quiet(): m.fit(df, "mcmc_saem", n_iter=30, seed=0, progress_bar=False)
with quiet(): ip = m.personalize(df, "mode_posterior", seed=0, n_iter=20, progress_bar=False)
# dict
e = m.estimate({"s1":[75., 70., 75.], "s0": [60.]}, ip)
print({k: v.shape for k,v in e.items()}, list(e))
print(m.estimate({"s1": 72.}, ip)["s1"].shape)
ix = pd.MultiIndex.from_tuples([("s1",75.),("s0",60.),("s1",70.),("s1",75.)], names=["ID","TIME"])
r = m.estimate(ix, ip); print(r)
try:
    print(m.estimate({"s1":[75., 70.]}, ip, to_dataframe=True))
except Exception as ex: print("ERR", type(ex).__name__, ex)
# formula check
p = {k: v for k,v in m.parameters.items()}
st = m.state
g = st["g"]; v0 = st["v0"]; mm = st["mixing_matrix"]
i = ip["s1"]; t = torch.tensor([75.,70.])
rt = np.exp(i["xi"][0])*(t - i["tau"][0]); w = torch.tensor(i["sources"])@mm
ref = 1/(1+g*torch.exp(-(g+1)**2/g*(v0*rt[:,None]+w)))
print(torch.tensor(e["s1"][:2]) - ref)
