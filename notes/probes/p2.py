from common import *
from leaspy.variables.specs import LatentVariableInitType
df = synth(n=6, nft=3, miss=0.3)
for kw in [dict(source_dimension=1), dict(source_dimension=1, dimension=3)]:
    m = LogisticModel(name="logistic", **kw)
    ds = Dataset(Data.from_dataframe(df))
    m.initialize(ds)
    st = m.state
    with st.auto_fork(None):
        m.put_data_variables(st, ds)
        st.put_individual_latent_variables(LatentVariableInitType.PRIOR_SAMPLES, n_individuals=ds.n_individuals)
    ss = m.compute_sufficient_statistics(st)
    model = st["model"]; y = ds.values; mask = ds.mask.bool()
    res = ((y-model)**2)[mask]
    if kw.get("dimension"):
        ref = torch.stack([(((y-model)**2)[...,j][mask[...,j]]).mean().sqrt() for j in range(3)])
    else:
        ref = res.mean().sqrt()
    m.update_parameters(st, ss, burn_in=True)
    print(kw, "noise_std updated", st["noise_std"].tolist(), "reference RMS over observed", ref.tolist())
