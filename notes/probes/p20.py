from common import *
from leaspy.algo.personalize.mcmc import McmcPersonalizeAlgorithm
import leaspy.algo.personalize.scipy_minimize as SM
df = synth(n=6, nft=2, miss=0.15)
m = LogisticModel(name="logistic", source_dimension=1)
with quiet(): m.fit(df, "mcmc_saem", n_iter=40, seed=0, progress_bar=False)
import tempfile; d=tempfile.mkdtemp(); m.save(d+"/m.json"); m = BaseModel.load(d+"/m.json")
hist=[]; cap={}
oi = McmcPersonalizeAlgorithm._initialize_algo; ou = McmcPersonalizeAlgorithm._update_temperature
def wi(self, model, dataset):
    s = oi(self, model, dataset); cap["state"]=s; return s
def wu(self):
    s=cap["state"]; hist.append((self.current_iteration, {n: s[n].clone() for n in ("xi","tau","sources")}, (s.get_tensor_value("nll_attach_ind")+s.get_tensor_value("nll_regul_ind_sum_ind")).clone()))
    return ou(self)
McmcPersonalizeAlgorithm._initialize_algo = wi; McmcPersonalizeAlgorithm._update_temperature = wu
for algo in ["mean_posterior","mode_posterior"]:
    for kw in [dict(n_iter=20), dict(n_iter=21, n_burn_in_iter_frac=0.33), dict(n_iter=10, n_burn_in_iter_frac=0.9)]:
        hist.clear()
        with quiet(): ip = m.personalize(df, algo, seed=2, progress_bar=False, **kw)
        n_iter=kw["n_iter"]; nb=int(kw.get("n_burn_in_iter_frac",0.5)*n_iter)
        kept=[h for h in hist if h[0]>nb]
        _, pt = ip.to_pytorch()
        if algo=="mean_posterior":
            exp={n: torch.stack([h[1][n] for h in kept]).mean(0) for n in ("xi","tau","sources")}
        else:
            L=torch.stack([h[2] for h in kept]); am=L.argmin(0)
            exp={n: torch.stack([h[1][n] for h in kept])[am, torch.arange(len(am))] for n in ("xi","tau","sources")}
        print(algo, kw, "kept", len(kept), "match:", all(torch.equal(exp[n].float().reshape(pt[n].shape), pt[n]) for n in exp), list(ip._indices)==list(df.ID.unique()))
McmcPersonalizeAlgorithm._initialize_algo = oi; McmcPersonalizeAlgorithm._update_temperature = ou
# scipy
calls=[]; om = SM.minimize
def wm(fun, x0, args=(), **k):
    r = om(fun, x0=x0, args=args, **k); calls.append((np.array(x0), np.array(r.x), fun(np.array(x0), *args), fun(np.array(r.x), *args))); return r
SM.minimize = lambda fun, **k: wm(fun, **k)
with quiet(): ip = m.personalize(df, "scipy_minimize", seed=2, progress_bar=False)
SM.minimize = om
print("scipy obj start->end", [(round(c[2],3), round(c[3],3)) for c in calls], "non-worsening:", all(c[3] <= c[2]+1e-6 for c in calls))
