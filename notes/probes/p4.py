from common import *
df = synth(n=5, nft=2, miss=0.1)
# C19
for n_iter, ann in [(10, dict(do_annealing=True)), (20, dict(do_annealing=True, n_plateau=4, initial_temperature=5)), (30, dict(do_annealing=True, n_plateau=1)), (30, dict(do_annealing=True, n_plateau=3, initial_temperature=1.0))]:
    m = LogisticModel(name="logistic", source_dimension=1)
    try:
        s = AlgorithmSettings("mcmc_saem", n_iter=n_iter, seed=0, progress_bar=False, annealing=ann)
        with quiet(): m.fit(df, algorithm_settings=s)
        print(n_iter, ann, "OK")
    except Exception as e:
        print(n_iter, ann, "ERR", type(e).__name__, e)
T=5.0; dec=(5-1)/3
for _ in range(3): T-=dec; T=max(T,1)
print("T after 3 decrements", repr(T))
