from common import *
from leaspy.algo.fit.mcmc_saem import TensorMcmcSaemAlgorithm as A
from leaspy.algo import algorithm_factory
df = synth(n=5, nft=2, miss=0.1)
rec=[]
om = A._maximization_step
def wm(self, model, state):
    ocs = model.compute_sufficient_statistics
    box={}
    def wcs(st):
        s = ocs(st); box["s"]={k:(v.value.clone() if hasattr(v,'value') else v.clone()) for k,v in s.items()}; return s
    model.compute_sufficient_statistics = wcs
    try: r = om(self, model, state)
    finally: del model.compute_sufficient_statistics
    S = {k:(v.value.clone() if hasattr(v,'value') else v.clone()) for k,v in self.sufficient_statistics.items()}
    rec.append((self.current_iteration, self._is_burn_in(), box["s"], S)); return r
A._maximization_step = wm
def run(**kw):
    rec.clear()
    m = LogisticModel(name="logistic", source_dimension=1)
    try:
        s = AlgorithmSettings("mcmc_saem", seed=0, progress_bar=False, **kw)
        algo = algorithm_factory(s)
        with quiet(): m.fit(df, algorithm_settings=s)
    except Exception as e:
        return f"ERR {type(e).__name__}: {str(e)[:80]}"
    n_iter=kw["n_iter"]; nb = kw.get("n_burn_in_iter") if kw.get("n_burn_in_iter") is not None else int(kw.get("n_burn_in_iter_frac",0.9)*n_iter)
    p = kw.get("burn_in_step_power",0.8); ok=True; prev=None
    for k,b,s_k,S_k in rec:
        if k<=nb+1: exp=s_k
        else:
            e=(k-nb)**(-p); exp={q: prev[q]*(1.0-e)+e*s_k[q] for q in s_k}
        ok &= all(torch.equal(exp[q], S_k[q]) for q in exp) and (b==(k<=nb))
        prev=S_k
    return f"iters {len(rec)} nb {nb} ok {ok}"
for kw in [dict(n_iter=10), dict(n_iter=10, n_burn_in_iter_frac=0.5), dict(n_iter=7, n_burn_in_iter_frac=0.0), dict(n_iter=7, n_burn_in_iter_frac=1.0), dict(n_iter=10, n_burn_in_iter=3, n_burn_in_iter_frac=None), dict(n_iter=10, n_burn_in_iter=12, n_burn_in_iter_frac=None), dict(n_iter=1), dict(n_iter=6, n_burn_in_iter_frac=0.5, burn_in_step_power=1.0), dict(n_iter=6, burn_in_step_power=0.5), dict(n_iter=6, burn_in_step_power=1.01), dict(n_iter=100, n_burn_in_iter_frac=0.29)]:
    print(kw, "->", run(**kw))
A._maximization_step = om
