from common import *
import tempfile, os
df = synth(n=6, nft=2, miss=0.1)
m = LogisticModel(name="logistic", source_dimension=1)
with quiet(): m.fit(df, "mcmc_saem", n_iter=40, seed=0, progress_bar=False)
d = tempfile.mkdtemp(); m.save(d+"/m.json"); m2 = BaseModel.load(d+"/m.json")
print("params equal after load:", all(torch.allclose(m.parameters[k].float(), m2.parameters[k].float(), atol=1e-6) for k in m.parameters))
print("state has xi after fit:", m.state.is_variable_set("xi"), "loaded:", m2.state.is_variable_set("xi"))
df2 = synth(n=3, nft=2, miss=0.1, seed=5)
for algo, kw in [("scipy_minimize", dict(seed=1, progress_bar=False)), ("mean_posterior", dict(seed=1, n_iter=30, progress_bar=False)), ("mode_posterior", dict(seed=1, n_iter=30, progress_bar=False))]:
    try:
        with quiet():
            a = m.personalize(df2, algo, **kw); b = m2.personalize(df2, algo, **kw)
        print(algo, "fitted-object vs reloaded equal:", a.to_dataframe().equals(b.to_dataframe()), (a.to_dataframe()-b.to_dataframe()).abs().max().max())
    except Exception as e:
        print(algo, "ERR", type(e).__name__, e)
    print(" after", algo, "model.state xi set:", m.state.is_variable_set("xi"), "t set:", m.state.is_variable_set("t"))
# estimate
ip = b
est1 = m.estimate({"s0":[70.,75.]}, ip); est2 = m2.estimate({"s0":[70.,75.]}, ip)
print("estimate equal", np.array_equal(est1["s0"], est2["s0"]))
