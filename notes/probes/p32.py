from common import *
from leaspy.algo.fit.mcmc_saem import TensorMcmcSaemAlgorithm as A
df = synth(n=7, nft=3, miss=0.25)
rec=[]
om = A._maximization_step
def T(v): return (v.value if hasattr(v,'value') else v).double().clone()
def wm(self, model, state):
    pre = {k: state[k].clone() for k in model.parameters_names}
    r = om(self, model, state)
    S = {k:(v) for k,v in self.sufficient_statistics.items()}
    post = {k: state[k].clone() for k in model.parameters_names}
    rec.append((self.current_iteration, self._is_burn_in(), pre, S, post, T(state["y"]), state["y"].weight.clone())); return r
A._maximization_step = wm
for M,kw in [(LogisticModel, dict(source_dimension=1, dimension=3)), (LinearModel, dict(source_dimension=2, dimension=3)), (SharedSpeedLogisticModel, dict(source_dimension=1, dimension=3)), (LogisticModel, dict(source_dimension=1))]:
    rec.clear(); m=M(name="x", **kw)
    with quiet(): m.fit(df, "mcmc_saem", n_iter=12, n_burn_in_iter_frac=0.5, seed=1, progress_bar=False)
    worst=0
    for k,b,pre,S,post,y,w in rec:
        exp={}
        for p in post:
            if p.endswith("_mean") and p[:-5] in S and p[:-5] not in ("tau","xi"): exp[p]=T(S[p[:-5]])
        for ip in ("tau","xi"):
            x=T(S[ip]); x2=T(S[ip+"_sqr"])
            if ip+"_mean" in post: exp[ip+"_mean"]=x.mean(0)
            if b: exp[ip+"_std"]=x.std(0, unbiased=True)
            else:
                mo = pre[ip+"_mean"].double() if ip+"_mean" in pre else T(m.state[ip+"_mean"])
                exp[ip+"_std"]=(x2.mean(0)-2*mo*x.mean(0)+mo**2).sqrt()
        yxm=T(S["y_x_model"]); mxm=T(S["model_x_model"]); wd=w.double()
        if post["noise_std"].numel()==1 and kw.get("dimension") is None:
            exp["noise_std"]=(((y*y*wd).sum() - 2*(yxm*wd).sum() + (mxm*wd).sum())/wd.sum()).sqrt()
        else:
            exp["noise_std"]=(((y*y*wd).sum((0,1)) - 2*(yxm*wd).sum((0,1)) + (mxm*wd).sum((0,1)))/wd.sum((0,1))).sqrt()
        for p in exp:
            e=(exp[p]-post[p].double()).abs().max().item()/(1e-12+exp[p].abs().max().item())
            if e>1e-4: print("  MISMATCH", M.__name__, "iter",k,"burn",b,p, exp[p].flatten().tolist(), post[p].flatten().tolist())
            worst=max(worst,e)
        assert set(exp)==set(post), (set(post)-set(exp))
    print(M.__name__, kw, "worst rel err %.2e"%worst)
A._maximization_step = om
