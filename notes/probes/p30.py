from common import *
rng=np.random.RandomState(3)
bad=0
for it in range(300):
    n=rng.randint(1,7); nft=rng.randint(1,4)
    rows=[]
    ids = [f"s{rng.randint(100)}_{i}" for i in range(n)] if it%2 else list(rng.choice(1000, size=n, replace=False))
    for i in ids:
        k=rng.randint(1,6); ts=np.round(rng.choice(np.arange(40,90,0.37), size=k, replace=False),4)
        for t in ts:
            v=rng.rand(nft); v[rng.rand(nft)<0.3]=np.nan
            rows.append((i,float(t),*v))
    df=pd.DataFrame(rows, columns=["ID","TIME"]+[f"f{j}" for j in range(nft)]).sample(frac=1, random_state=it).reset_index(drop=True)
    dfc=df.copy(deep=True)
    try:
        ds=Dataset(Data.from_dataframe(df))
    except Exception as e:
        kept = df.dropna(how="all", subset=[c for c in df.columns if c.startswith("f")])
        if len(kept)==0: continue
        print("ERR", type(e).__name__, e); bad+=1; continue
    assert df.equals(dfc)
    kept = df.dropna(how="all", subset=[c for c in df.columns if c.startswith("f")])
    order = list(dict.fromkeys(kept.ID.tolist()))
    ok = ds.indices==order
    for r,i in enumerate(order):
        g=kept[kept.ID==i].sort_values("TIME"); k=len(g)
        ok &= ds.n_visits_per_individual[r]==k
        ok &= np.array_equal(ds.timepoints[r,:k].numpy(), g.TIME.values.astype(np.float32)) and (ds.timepoints[r,k:]==0).all().item()
        vals=g[[c for c in df.columns if c.startswith("f")]].values
        ok &= np.array_equal(ds.mask[r,:k].numpy(), (~np.isnan(vals)).astype(np.float32)) and (ds.mask[r,k:]==0).all().item()
        ok &= np.array_equal(ds.values[r,:k].numpy(), np.nan_to_num(vals).astype(np.float32))
    ok &= ds.n_observations == int((~np.isnan(kept[[c for c in df.columns if c.startswith("f")]].values)).sum()) and ds.n_visits==len(kept)
    # round trip
    ds2=Dataset(Data.from_dataframe(ds.to_pandas().reset_index()))
    perm=[ds2.indices.index(i) for i in ds.indices]; ok2 = sorted(map(str,ds2.indices))==sorted(map(str,ds.indices)) and torch.equal(ds2.values[perm], ds.values) and torch.equal(ds2.mask[perm], ds.mask) and torch.allclose(ds2.timepoints[perm], ds.timepoints, atol=1e-4)
    if not ok2: print("RT mismatch", it)
    ok &= ok2
    if not ok: bad+=1; print("MISMATCH at", it, ds.indices, order)
print("done, bad =", bad)
