from common import *
import tempfile, json
df = synth(n=6, nft=2, miss=0.0)
d=tempfile.mkdtemp()
for kw in [dict(source_dimension=1), dict(source_dimension=1, dimension=2)]:
    m = LogisticModel(name="logistic", **kw)
    with quiet(): m.fit(df, "mcmc_saem", n_iter=20, seed=0, progress_bar=False)
    m.save(d+"/a.json"); m2=BaseModel.load(d+"/a.json"); m2.save(d+"/b.json")
    a=json.load(open(d+"/a.json")); b=json.load(open(d+"/b.json"))
    diff = {k:(a["parameters"][k], b["parameters"][k]) for k in a["parameters"] if a["parameters"][k]!=b["parameters"][k]}
    print(kw, "noise shape fitted", tuple(m.parameters["noise_std"].shape), "loaded", tuple(m2.parameters["noise_std"].shape), "| files equal:", a==b, "| differing:", {k:v for k,v in diff.items()} , [k for k in a if a[k]!=b[k]])
    # population variables equal prior mode after fit?
    st=m.state
    print("   pop==mode:", all(torch.equal(st[p], st[p+"_mean"]) for p in ("log_g","log_v0","betas")))
    vp = dict(patient_number=3, visit_type="random", first_visit_mean=0., first_visit_std=0.4, time_follow_up_mean=3, time_follow_up_std=0.5, distance_visit_mean=0.5, distance_visit_std=0.1)
    for mm,nm in [(m,"fitted"),(m2,"loaded")]:
        try:
            with quiet(): mm.simulate(algorithm="simulate", features=["f0","f1"], visit_parameters=vp, seed=3)
            print("   simulate on", nm, "OK")
        except Exception as e: print("   simulate on", nm, "ERR", type(e).__name__, str(e)[:60])
