from common import *
import copy, tempfile
def snap(m):
    return {k: (copy.deepcopy(v)) for k,v in m.state._values.items()}
def same(a,b):
    for k in a:
        x,y=a[k],b[k]
        if (x is None)!=(y is None): return f"{k}: None-ness"
        if x is None: continue
        xv = x.value if hasattr(x,'value') else x; yv = y.value if hasattr(y,'value') else y
        if xv.shape!=yv.shape or not torch.equal(xv,yv): return f"{k}: differs"
    return True
df = synth(n=6, nft=2, miss=0.15); df2 = synth(n=3, nft=2, miss=0.1, seed=7)
m = LogisticModel(name="logistic", source_dimension=1)
with quiet(): m.fit(df, "mcmc_saem", n_iter=30, seed=0, progress_bar=False)
d=tempfile.mkdtemp(); m.save(d+"/m.json"); m = BaseModel.load(d+"/m.json")
s0 = snap(m)
for algo, kw in [("scipy_minimize", {}), ("mean_posterior", dict(n_iter=20)), ("mode_posterior", dict(n_iter=20))]:
    dfc = df2.copy(deep=True); st = AlgorithmSettings(algo, seed=1, progress_bar=False, **kw); pc = copy.deepcopy(st.parameters)
    with quiet(): a = m.personalize(df2, algorithm_settings=st)
    s1 = snap(m)
    with quiet(): b = m.personalize(df2, algorithm_settings=st)
    print(algo, "state same:", same(s0,s1), "| df untouched:", dfc.equals(df2), "| settings untouched:", pc==st.parameters, "| repeat equal:", a.to_dataframe().equals(b.to_dataframe()))
ip=a
e = m.estimate({"s0":[70.,75.]}, ip); print("estimate state same:", same(s0, snap(m)))
vp = dict(patient_number=4, visit_type="random", first_visit_mean=0., first_visit_std=0.4, time_follow_up_mean=3, time_follow_up_std=0.5, distance_visit_mean=0.5, distance_visit_std=0.1)
vpc = copy.deepcopy(vp)
with quiet(): r1 = m.simulate(algorithm="simulate", features=["f0","f1"], visit_parameters=vp, seed=3); r2 = m.simulate(algorithm="simulate", features=["f0","f1"], visit_parameters=vp, seed=3)
print("simulate state same:", same(s0, snap(m)), "| vp untouched", vp==vpc, "| repeat equal", r1.data.to_dataframe().equals(r2.data.to_dataframe()))
dv = pd.DataFrame({"ID":["a","a","b"],"TIME":[70.00011,71.,65.]}); dvc=dv.copy(deep=True)
with quiet(): r = m.simulate(algorithm="simulate", features=["f0","f1"], visit_parameters=dict(visit_type="dataframe", df_visits=dv), seed=3)
print("df_visits untouched:", dv.equals(dvc), r.data.to_dataframe()[["ID","TIME"]].values.tolist())
