import warnings; warnings.filterwarnings('ignore')
import torch, leaspy.models
from leaspy.variables.dag import VariablesDAG
from leaspy.variables.specs import IndepVariable, LinkedVariable, DataVariable
from leaspy.variables.state import State, StateForkType
d = {"a": DataVariable(), "b": DataVariable(), "c": LinkedVariable(lambda *, a, b: a+b), "d": LinkedVariable(lambda *, a: 2*a)}
dag = VariablesDAG.from_dict(d)
s = State(dag, auto_fork_type=StateForkType.REF)
s["a"]=torch.tensor(1.); s["b"]=torch.tensor(10.); print(s["c"], s["d"])
s["a"]=torch.tensor(2.)   # fork holds a=1, c=11, d=2
with s.auto_fork(None):
    s["b"]=torch.tensor(20.)
print("c now", s["c"])
s.revert()
print("after revert: a", s["a"], "b", s["b"], "c (should be 21)", s["c"])
