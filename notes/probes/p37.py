from common import *
from scipy import stats
from leaspy.variables.specs import LatentVariableInitType
rng=np.random.RandomState(0)
worst={}
for it in range(40):
    nft=rng.randint(1,4); df=synth(n=rng.randint(2,7), nft=nft, miss=rng.choice([0,0.3]), seed=it)
    diag = bool(it%2) and nft>1
    kw = dict(dimension=nft) if diag else {}
    sd = rng.randint(0,nft) if nft>1 else 0
    m=LogisticModel("logistic", source_dimension=sd, **kw); ds=Dataset(Data.from_dataframe(df)); m.initialize(ds); st=m.state
    with st.auto_fork(None):
        m.put_data_variables(st, ds); torch.manual_seed(it)
        st.put_individual_latent_variables(LatentVariableInitType.PRIOR_SAMPLES, n_individuals=ds.n_individuals)
        st["noise_std"] = torch.tensor(rng.uniform(0.02,0.5,size=(nft if diag else 1,)), dtype=torch.float32)
    model=st["model"].double().numpy(); y=ds.values.double().numpy(); mask=ds.mask.bool().numpy()
    sig=st["noise_std"].double().numpy()
    full=-stats.norm.logpdf(y, loc=model, scale=sig)
    ref=(full*mask).sum(axis=(1,2))
    got=st["nll_attach_ind"].double().numpy()
    e=np.abs(ref-got).max()/ (1+np.abs(ref).max()); worst["attach"]=max(worst.get("attach",0),e)
    for ip in ["xi","tau"]+(["sources"] if sd>0 else []):
        x=st[ip].double().numpy(); mu=st[ip+"_mean"].double().numpy(); s=st[ip+"_std"].double().numpy()
        r=(-stats.norm.logpdf(x, loc=mu, scale=s)).sum(axis=1); g=st.get_tensor_value(f"nll_regul_{ip}_ind").double().numpy()
        worst[ip]=max(worst.get(ip,0), np.abs(r-g).max()/(1+np.abs(r).max()))
    for pp in ["log_g","log_v0"]+(["betas"] if sd>0 else []):
        x=st[pp].double().numpy(); mu=st[pp+"_mean"].double().numpy(); s=st[pp+"_std"].double().numpy()
        r=(-stats.norm.logpdf(x, loc=mu, scale=s)).sum(); g=st[f"nll_regul_{pp}"].double().item()
        worst[pp]=max(worst.get(pp,0), abs(r-g)/(1+abs(r)))
    tot = st["nll_attach"].item(); worst["tot"]=max(worst.get("tot",0), abs(tot-got.sum())/(1+abs(tot)))
print({k: "%.1e"%v for k,v in worst.items()})
