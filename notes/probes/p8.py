from common import *
import tempfile, os, itertools
df = synth(n=5, nft=2, miss=0.1)
os.chdir(tempfile.mkdtemp())
def run(**kw):
    m = LogisticModel(name="logistic", source_dimension=1)
    try:
        with quiet(): m.fit(df, "mcmc_saem", n_iter=12, seed=0, progress_bar=False, **kw)
        return {k: v.tolist() for k,v in m.parameters.items()}
    except Exception as e:
        return f"ERR {type(e).__name__}: {str(e)[:90]}"
ref = run()
for kw in [dict(print_periodicity=5), dict(save_periodicity=4), dict(save_periodicity=4, path="lg1"), dict(save_periodicity=3, plot_periodicity=6, path="lg2"), dict(plot_patient_periodicity=5, path="lg3"), dict(print_periodicity=5, path="lg4"), dict(save_periodicity=3, plot_periodicity=6, path="lg5", plot_sourcewise=True), dict(plot_patient_periodicity=5)]:
    r = run(**kw)
    print(kw, "->", "same as no-logs" if r==ref else r if isinstance(r,str) else "DIFFERENT")
