import warnings; warnings.filterwarnings('ignore')
import time, itertools, torch, leaspy.models
from leaspy.variables.dag import VariablesDAG
from leaspy.variables.specs import IndepVariable, LinkedVariable, DataVariable
from leaspy.exceptions import LeaspyInputError
def mk(anc):
    # anc: dict name -> frozenset
    class V(IndepVariable): pass
    return {n: V() for n in anc}
t=time.time(); n=0; ok=0; errs={}
names="abcd"
pairs=[(i,j) for i in names for j in names]  # includes self loops
for bits in range(2**len(pairs)):
    anc={x:set() for x in names}
    for k,(i,j) in enumerate(pairs):
        if bits>>k&1: anc[j].add(i)
    n+=1
    try:
        VariablesDAG(mk(anc), direct_ancestors={k:frozenset(v) for k,v in anc.items()}); ok+=1
    except Exception as e:
        errs[type(e).__name__]=errs.get(type(e).__name__,0)+1
    if n>=20000: break
print(n, ok, errs, "%.1fs"%(time.time()-t))
