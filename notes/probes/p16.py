from common import *
from leaspy.variables.specs import LatentVariableInitType
# C06 Bernoulli with garbage under mask
rng=np.random.RandomState(0)
df = synth(n=5, nft=2, miss=0.3)
for c in ["f0","f1"]:
    df[c] = np.where(df[c].isna(), np.nan, (df[c]>0.5).astype(float))
m = LogisticModel(name="logistic", source_dimension=1, obs_models="bernoulli")
ds = Dataset(Data.from_dataframe(df)); m.initialize(ds); st = m.state
with st.auto_fork(None):
    m.put_data_variables(st, ds); torch.manual_seed(0)
    st.put_individual_latent_variables(LatentVariableInitType.PRIOR_SAMPLES, n_individuals=ds.n_individuals)
ref = st["nll_attach_ind"].clone(); print("ref", ref)
for fill in [0.5, float('nan'), float('inf'), 7.0]:
    ds2 = Dataset(Data.from_dataframe(df)); ds2.values = ds2.values.clone(); ds2.values[ds2.mask==0] = fill
    st2 = m.state.clone(disable_auto_fork=True); m.put_data_variables(st2, ds2)
    try:
        v = st2["nll_attach_ind"]; print(fill, "equal:", torch.equal(v, ref), v)
    except Exception as e: print(fill, "ERR", type(e).__name__, str(e)[:120])
