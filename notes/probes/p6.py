from common import *
from leaspy.variables.specs import LatentVariableInitType
df = synth(n=5, nft=2, miss=0.2)
m = LogisticModel(name="logistic", source_dimension=1)
ds = Dataset(Data.from_dataframe(df)); m.initialize(ds); st = m.state
with st.auto_fork(None):
    m.put_data_variables(st, ds)
    st.put_individual_latent_variables(LatentVariableInitType.PRIOR_SAMPLES, n_individuals=ds.n_individuals)
st.precompute_all()
import copy
before = {k: copy.deepcopy(v) for k,v in st._values.items()}
change = torch.zeros(5,1); change[1,0]=200.; change[3,0]=0.1
st.put("xi", change, accumulate=True)
print("nll_attach_ind after", st["nll_attach_ind"], "regul", st["nll_regul_xi_ind"], "rt finite", torch.isfinite(st["rt"].value).all())
rej = torch.tensor([True,True,False,False,True])
st.revert(rej)
for k in ["xi","alpha","rt","model","nll_attach_ind","nll_regul_xi_ind","nll_regul_ind_sum_ind"]:
    v = st._values[k]; b = before[k]
    if v is None: print(k, None); continue
    vv = v.value if hasattr(v,'value') else v; bb = b.value if hasattr(b,'value') else b
    print(k, "rejected rows equal before:", torch.equal(vv[rej], bb[rej]), "finite:", torch.isfinite(vv).all().item())
print("nll_attach cached?", st._values["nll_attach"])
