from common import *
from leaspy.variables.specs import LatentVariableInitType
from leaspy.samplers import IndividualGibbsSampler, PopulationGibbsSampler, PopulationFastGibbsSampler, PopulationMetropolisHastingsSampler
import copy, random
df = synth(n=6, nft=2, miss=0.2)
m = LogisticModel(name="logistic", source_dimension=1)
ds = Dataset(Data.from_dataframe(df)); m.initialize(ds); st = m.state
with st.auto_fork(None):
    m.put_data_variables(st, ds); torch.manual_seed(0)
    st.put_individual_latent_variables(LatentVariableInitType.PRIOR_SAMPLES, n_individuals=ds.n_individuals)
rec = {"randn":[], "rand":[]}
orn, orr = torch.randn, torch.rand
def wrn(*a, **k):
    r = orn(*a, **k); rec["randn"].append(r.clone()); return r
def wrr(*a, **k):
    r = orr(*a, **k); rec["rand"].append(r.clone()); return r
torch.randn, torch.rand = wrn, wrr
beta = 0.37
# individual
s = IndividualGibbsSampler("tau", (1,), n_patients=6, scale=5.0)
pre = st.clone(disable_auto_fork=True)
old = st["tau"].clone(); std = s.std.clone()
t=time.time(); s.sample(st, temperature_inv=beta); print("ind sample %.4fs"%(time.time()-t))
prop = old + std[:,None]*rec["randn"][0]
c = pre.clone(disable_auto_fork=True); a0, r0 = c["nll_attach_ind"].clone(), c["nll_regul_tau_ind"].clone()
c["tau"] = prop; a1, r1 = c["nll_attach_ind"], c["nll_regul_tau_ind"]
alpha = torch.exp(-1*((r1-r0)*beta + (a1-a0)))
acc = rec["rand"][0] < alpha
exp_new = torch.where(acc[:,None], prop, old)
print("ind: decisions", acc.tolist(), "state matches:", torch.equal(st["tau"], exp_new), "n rand", len(rec["rand"]), rec["rand"][0].shape)
# population gibbs on log_v0
rec["randn"].clear(); rec["rand"].clear()
for cls in [PopulationGibbsSampler, PopulationFastGibbsSampler, PopulationMetropolisHastingsSampler]:
    sp = cls("betas", (1,1), scale=0.5) if False else cls("log_v0", (2,), scale=st["log_v0"].abs())
    idxs=[]; orig = sp._proposed_change_idx
    def wrap(idx, orig=orig): idxs.append(idx); return orig(idx)
    sp._proposed_change_idx = wrap
    rec["randn"].clear(); rec["rand"].clear()
    pre = st.clone(disable_auto_fork=True); cur = pre["log_v0"].clone(); ok=True
    sp.sample(st, temperature_inv=beta)
    for k, idx in enumerate(idxs):
        c = pre.clone(disable_auto_fork=True); c["log_v0"] = cur
        a0, r0 = c["nll_attach"].clone(), c["nll_regul_log_v0"].clone()
        change = sp.std[idx]*rec["randn"][k]
        prop = cur.index_put(tuple(map(torch.tensor, idx)), change, accumulate=True) if idx!=() else cur+change
        c["log_v0"] = prop
        alpha = torch.exp(-1*((c["nll_regul_log_v0"]-r0)*beta + (c["nll_attach"]-a0)))
        if rec["rand"][k] < alpha: cur = prop
    print(cls.__name__, "blocks", idxs, "final matches:", torch.equal(st["log_v0"], cur), "n rand", len(rec["rand"]))
torch.randn, torch.rand = orn, orr
