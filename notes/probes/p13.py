from common import *
df = synth(n=6, nft=2, miss=0.15)
m = LogisticModel(name="logistic", source_dimension=1)
with quiet(): m.fit(df, "mcmc_saem", n_iter=40, seed=0, progress_bar=False)
import tempfile; d=tempfile.mkdtemp(); m.save(d+"/m.json"); m = BaseModel.load(d+"/m.json")
res = {}
for nj in [1,1,2,2,3]:
    with quiet(): res.setdefault(nj, []).append(m.personalize(df, "scipy_minimize", seed=3, progress_bar=False, n_jobs=nj).to_dataframe())
print("1 vs 1", res[1][0].equals(res[1][1]), " 2 vs 2", res[2][0].equals(res[2][1]), "2 vs 3", res[2][0].equals(res[3][0]))
print((res[1][0]-res[2][0]).abs())
