from common import *
df = synth()
for kind, kw in [("logistic", dict(source_dimension=1)), ("logistic", dict(source_dimension=0, obs_models="gaussian-scalar")), ("linear", dict(source_dimension=1)), ("shared", dict(source_dimension=1))]:
    M = {"logistic":LogisticModel,"linear":LinearModel,"shared":SharedSpeedLogisticModel}[kind]
    m = M(name=kind, **kw)
    t=time.time()
    try:
        with quiet():
            m.fit(df, "mcmc_saem", n_iter=30, seed=0, progress_bar=False)
        print(kind, kw, "fit 30 it: %.2fs"%(time.time()-t), {k: v.tolist() for k,v in m.parameters.items() if k in('noise_std','tau_mean')})
    except Exception as e:
        import traceback; traceback.print_exc(); print(kind, kw, "ERR", type(e).__name__, e)
