from common import *
from leaspy.variables.specs import LatentVariableInitType
from leaspy.samplers import IndividualGibbsSampler, PopulationGibbsSampler, PopulationFastGibbsSampler, PopulationMetropolisHastingsSampler
rng=np.random.RandomState(0)
d = synth(n=8, nft=3, miss=0.1)
last = d.groupby("ID")["TIME"].max(); eb=(rng.rand(len(last))<0.5).astype(int); eb[0]=1; eb[1]=0
dj = d.merge(pd.DataFrame({"EVENT_TIME": last + rng.rand(len(last))*3+0.1, "EVENT_BOOL": eb}, index=last.index), left_on="ID", right_index=True)
data = Data.from_dataframe(dj, "joint"); ds=Dataset(data)
m = JointModel("joint", dimension=3, source_dimension=2, nb_events=1); m.initialize(ds); st=m.state
with st.auto_fork(None):
    m.put_data_variables(st, ds); m.put_individual_parameters(st, ds)
rec={"randn":[],"rand":[]}; orn,orr=torch.randn,torch.rand
torch.randn=lambda *a,**k:(lambda r:(rec["randn"].append(r.clone()),r)[1])(orn(*a,**k)); torch.rand=lambda *a,**k:(lambda r:(rec["rand"].append(r.clone()),r)[1])(orr(*a,**k))
beta=0.6
def check_pop(cls, name):
    shape=tuple(st[name].shape); sp=cls(name, shape, scale=0.5)
    idxs=[]; orig=sp._proposed_change_idx; sp._proposed_change_idx=lambda idx:(idxs.append(idx), orig(idx))[1]
    rec["randn"].clear(); rec["rand"].clear(); pre=st.clone(disable_auto_fork=True); cur=pre[name].clone()
    sp.sample(st, temperature_inv=beta); nacc=0
    for k,idx in enumerate(idxs):
        c=pre.clone(disable_auto_fork=True); c[name]=cur; a0,r0=c["nll_attach"].clone(), c[f"nll_regul_{name}"].clone()
        change=sp.std[idx]*rec["randn"][k]
        prop = cur.index_put(tuple(map(torch.tensor, idx)), change, accumulate=True) if idx!=() else cur+change
        assert ((prop-cur)!=0).sum() <= change.numel()
        c[name]=prop; alpha=torch.exp(-1*((c[f"nll_regul_{name}"]-r0)*beta+(c["nll_attach"]-a0)))
        if rec["rand"][k] < alpha: cur=prop; nacc+=1
    print(cls.__name__, name, shape, "blocks", len(idxs), "acc", nacc, "final matches:", torch.equal(st[name], cur), "n rand", len(rec["rand"]), "dtype", st["nll_attach"].dtype)
for cls in [PopulationGibbsSampler, PopulationFastGibbsSampler, PopulationMetropolisHastingsSampler]:
    for name in ["betas","zeta","log_rho"]: check_pop(cls, name)
for name, shape in [("tau",(1,)),("xi",(1,)),("sources",(2,))]:
    s=IndividualGibbsSampler(name, shape, n_patients=8, scale=1.0); rec["randn"].clear(); rec["rand"].clear()
    pre=st.clone(disable_auto_fork=True); old=st[name].clone(); std=s.std.clone(); s.sample(st, temperature_inv=beta)
    prop=old+std[:,None]*rec["randn"][0]; c=pre.clone(disable_auto_fork=True)
    a0,r0=c.get_tensor_value("nll_attach_ind").clone(), c.get_tensor_value(f"nll_regul_{name}_ind").clone(); c[name]=prop
    alpha=torch.exp(-1*((c.get_tensor_value(f"nll_regul_{name}_ind")-r0)*beta+(c.get_tensor_value("nll_attach_ind")-a0)))
    acc=rec["rand"][0]<alpha
    print("ind", name, "acc", acc.tolist(), "matches:", torch.equal(st[name], torch.where(acc[:,None], prop, old)), alpha.dtype)
torch.randn,torch.rand=orn,orr
