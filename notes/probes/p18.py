from common import *
from leaspy.models import LMEModel
import statsmodels.api as sm
from statsmodels.regression.mixed_linear_model import MixedLM
rng = np.random.RandomState(1)
rows=[]
for i in range(15):
    b0 = rng.randn()*0.5; b1 = rng.randn()*0.2
    for t in np.sort(60+rng.rand(rng.randint(2,6))*15):
        y = 1.0 + b0 + (0.3+b1)*(t-67)/4 + rng.randn()*0.1
        rows.append((f"s{i}", float(np.round(t,3)), y if rng.rand()>0.1 else np.nan))
df = pd.DataFrame(rows, columns=["ID","TIME","y"])
for slope in [True, False]:
    m = LMEModel("lme", with_random_slope_age=slope)
    t=time.time()
    with quiet():
        m.fit(df, "lme_fit")
        ip = m.personalize(df, "lme_personalize")
    print("slope", slope, "fit+perso %.2fs"%(time.time()-t), {k:(v if np.ndim(v)==0 else np.round(v,4).tolist()) for k,v in m.parameters.items() if k in("fe_params","noise_std","ages_mean","ages_std")})
    d = df.dropna(); ages=(d.TIME-m.parameters["ages_mean"])/m.parameters["ages_std"]
    X = sm.add_constant(ages.values, prepend=True, has_constant="add")
    f = MixedLM(d.y.values, X, d.ID.values, X if slope else None).fit()
    re = f.random_effects
    mx=0
    for i,(idx,p) in enumerate(ip.items()):
        r = np.atleast_1d(np.asarray(re[idx])); mine = np.array([p["random_intercept"]]+([p["random_slope_age"]] if slope else []))
        mx=max(mx, np.abs(r-mine).max())
    print("  max |re - statsmodels re| =", mx)
    est = m.estimate({"s0":[60.,70.,80.]}, ip); print("  est", est["s0"].ravel(), "2nd diff", np.diff(est["s0"].ravel(),2))
    try: print(ip.to_dataframe().head(2))
    except Exception as e: print("  to_dataframe ERR", type(e).__name__)
