from common import *
import random, copy
df = synth(n=6, nft=2, miss=0.15); dfB = synth(n=4, nft=3, miss=0.1, seed=9)
def fit(kind="logistic", **kw):
    m = {"logistic":LogisticModel,"linear":LinearModel}[kind](name=kind, source_dimension=1, dimension=2)
    with quiet(): m.fit(df, "mcmc_saem", n_iter=15, seed=5, progress_bar=False, **kw)
    return m
def P(m): return {k: v.clone() for k,v in m.parameters.items()}
def eq(a,b): return all(torch.equal(a[k],b[k]) for k in a)
ref = P(fit())
# prior activity
random.random(); np.random.rand(7); torch.randn(13)
print("after consuming RNG:", eq(ref, P(fit())))
m0 = LinearModel(name="linear", source_dimension=2, dimension=3)
with quiet(): m0.fit(dfB, "mcmc_saem", n_iter=9, progress_bar=False)   # unseeded other fit
print("after unseeded other fit:", eq(ref, P(fit())))
with quiet(): fit("linear", sampler_pop="FastGibbs")
print("after other sampler fit:", eq(ref, P(fit())))
# annealing + samplers reproducible
for kw in [dict(sampler_pop="FastGibbs"), dict(sampler_pop="Metropolis-Hastings"), dict(annealing=dict(do_annealing=True, n_plateau=3, initial_temperature=4))]:
    print(kw, "repeat:", eq(P(fit(**kw)), P(fit(**kw))))
# C06: padding + garbage differential on a seeded fit driven at Dataset level
from leaspy.algo import algorithm_factory
def fit_ds(ds):
    m = LogisticModel(name="logistic", source_dimension=1, dimension=2)
    m.initialize(ds)
    algo = algorithm_factory(AlgorithmSettings("mcmc_saem", n_iter=10, seed=5, progress_bar=False))
    with quiet(): algo.run(m, ds)
    return P(m)
ds = Dataset(Data.from_dataframe(df)); r0 = fit_ds(ds)
for fill in [0.0, 1e30, float('nan'), float('inf')]:
    ds1 = Dataset(Data.from_dataframe(df)); ds1.values = ds1.values.clone(); ds1.values[ds1.mask==0]=fill
    ds1.timepoints = ds1.timepoints.clone(); pad = (ds1.mask.sum(-1)==0) & (torch.arange(ds1.n_visits_max)[None,:] >= torch.tensor(ds1.n_visits_per_individual)[:,None]); ds1.timepoints[pad]=fill if fill==fill else float('nan')
    try: print("fill", fill, "same params:", eq(r0, fit_ds(ds1)))
    except Exception as e: print("fill", fill, "ERR", type(e).__name__, str(e)[:100])
# extra padding columns
ds2 = Dataset(Data.from_dataframe(df)); k=3
ds2.values = torch.cat([ds2.values, torch.full((ds2.n_individuals,k,ds2.dimension), float('nan'))],1); ds2.mask=torch.cat([ds2.mask, torch.zeros(ds2.n_individuals,k,ds2.dimension)],1); ds2.timepoints=torch.cat([ds2.timepoints, torch.full((ds2.n_individuals,k), 1e30)],1); ds2.n_visits_max+=k
try:
    r2 = fit_ds(ds2); print("extra padding: same params:", eq(r0,r2), {k_: (r0[k_]-r2[k_]).abs().max().item() for k_ in r0})
except Exception as e: print("extra padding ERR", type(e).__name__, str(e)[:100])
