import warnings; warnings.filterwarnings('ignore')
import numpy as np, pandas as pd, torch, time, io, contextlib
import leaspy.models
from leaspy.models import LogisticModel, LinearModel, SharedSpeedLogisticModel, JointModel, BaseModel
from leaspy.io.data import Data, Dataset
from leaspy.algo import AlgorithmSettings

def synth(n=8, nft=2, seed=0, miss=0.2, nv=(2,6)):
    rng = np.random.RandomState(seed)
    rows=[]
    for i in range(n):
        k = rng.randint(nv[0], nv[1]+1)
        t0 = 60+rng.rand()*20
        ts = np.sort(t0 + rng.rand(k)*8)
        xi = rng.randn()*0.3; tau = 70+rng.randn()*5
        for t in ts:
            vals = 1/(1+np.exp(-(np.exp(xi)*(t-tau)*0.15 + rng.randn(nft)*0.3 + np.arange(nft)*0.5-0.5)))
            vals = np.clip(vals + rng.randn(nft)*0.03, 0.01, 0.99)
            m = rng.rand(nft) < miss
            if m.all(): m[rng.randint(nft)] = False
            vals[m] = np.nan
            rows.append((f"s{i}", round(float(t),4), *vals))
    return pd.DataFrame(rows, columns=["ID","TIME"]+[f"f{j}" for j in range(nft)])

def quiet():
    return contextlib.redirect_stdout(io.StringIO())
