from common import *
import tempfile
df = synth(n=8, nft=3, miss=0.1)
m = LogisticModel(name="logistic", source_dimension=2, dimension=3)
with quiet(): m.fit(df, "mcmc_saem", n_iter=30, seed=0, progress_bar=False)
base = dict(patient_number=3, visit_type="random", first_visit_mean=0., first_visit_std=0.4, time_follow_up_mean=3, time_follow_up_std=0.5, distance_visit_mean=0.5, distance_visit_std=0.1)
def run(tag, feats=["f0","f1","f2"], **vp):
    v={**base, **vp}
    try:
        with quiet(): r = m.simulate(algorithm="simulate", features=feats, visit_parameters=v, seed=1)
        d=r.data.to_dataframe(); vals=d[[c for c in d.columns if c not in("ID","TIME")]].values
        print("OK ", tag, d.shape, "ids", d.ID.nunique(), "in[0,1]", bool(((vals>=0)&(vals<=1)).all()), "finite", bool(np.isfinite(vals).all()), "cols", list(d.columns)[2:])
    except Exception as e: print("ERR", tag, type(e).__name__, str(e)[:110])
run("base")
run("features subset", feats=["f0","f1"])
run("features renamed", feats=["a","b","c"])
run("features reordered", feats=["f2","f0","f1"])
run("std zeros", first_visit_std=0, time_follow_up_std=0, distance_visit_std=0)
run("followup 0", time_follow_up_mean=0, time_follow_up_std=0)
run("neg first visit", first_visit_mean=-30.)
run("late first visit", first_visit_mean=60.)
run("tiny spacing", distance_visit_mean=0.001, distance_visit_std=0.0, time_follow_up_mean=0.05, min_spacing_between_visits=0.001)
run("patient_number float", patient_number=3.0)
run("patient_number bool", patient_number=True)
run("mean as int", distance_visit_mean=1, time_follow_up_mean=2)
run("mean<=0,std>0 refused?", distance_visit_mean=0.0, distance_visit_std=0.0)
run("visit_type unknown", visit_type="regular")
run("missing key", **{"first_visit_mean": None})
