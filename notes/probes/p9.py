from common import *
from leaspy.models import LogisticMultivariateMixtureModel
df = synth(n=12, nft=3, miss=0.0)
m = LogisticMultivariateMixtureModel(name="mixture_logistic", obs_models="gaussian-diagonal", dimension=3, source_dimension=1, n_clusters=2)
t=time.time()
try:
    with quiet(): m.fit(df, "mcmc_saem", n_iter=30, seed=0, progress_bar=False)
    print("mixture fit ok %.2fs"%(time.time()-t), {k: v.tolist() for k,v in m.parameters.items() if k in ('probs','tau_mean','xi_mean')})
except Exception as e:
    import traceback; traceback.print_exc()
# joint
rng = np.random.RandomState(0)
dfj = synth(n=10, nft=1, miss=0.0).rename(columns={"f0":"Y"})
last = dfj.groupby("ID")["TIME"].max()
ev = pd.DataFrame({"EVENT_TIME": last + rng.rand(len(last))*3+0.1, "EVENT_BOOL": (rng.rand(len(last))<0.5).astype(int)})
dfj = dfj.merge(ev, left_on="ID", right_index=True)
mj = JointModel(name="joint", nb_events=1)
t=time.time()
try:
    data = Data.from_dataframe(dfj, "joint")
    with quiet(): mj.fit(data, "mcmc_saem", n_iter=30, seed=0, progress_bar=False)
    print("joint fit ok %.2fs"%(time.time()-t), {k: v.tolist() for k,v in mj.parameters.items()})
    with quiet(): ip = mj.personalize(data, "scipy_minimize", seed=0, progress_bar=False)
    print("joint fit->scipy personalize on same object OK")
except Exception as e:
    import traceback; traceback.print_exc()
