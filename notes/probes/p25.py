import warnings; warnings.filterwarnings('ignore')
import os, sys, time, itertools, torch, leaspy.models
from leaspy.variables.dag import VariablesDAG
from leaspy.variables.specs import DataVariable, LinkedVariable
from leaspy.variables.state import State, StateForkType
from leaspy.exceptions import LeaspyInputError
N=3
SPEC = {"a": DataVariable(), "b": DataVariable(), "p": DataVariable(),
        "c": LinkedVariable(lambda *, a, b: a+b), "d": LinkedVariable(lambda *, c, p: c*p),
        "e": LinkedVariable(lambda *, d: d.sum(dim=0))}
DAG = VariablesDAG.from_dict(SPEC); IND={"a","b","c","d"}
def scratch(vals, name):
    var = DAG[name]
    if not isinstance(var, LinkedVariable): return vals[name]
    args = {k: scratch(vals, k) for k in var.parameters}
    if any(v is None for v in args.values()): return None
    return var.f(**args)
V = [torch.tensor([[1.],[2.],[3.]]), torch.tensor([[10.],[20.],[30.]]), torch.tensor([[100.],[200.],[300.]])]
MASK = torch.tensor([True, False, True])
def ops():
    o=[]
    for n in ("a","b"):
        for ft in ("keep", None):
            o.append(("set", n, ft))
        o.append(("acc", n))
    o.append(("setp",))
    for n in ("c","d","e"): o.append(("read", n))
    o += [("revert",), ("prevert",), ("clone",), ("pre",)]
    return o
OPS = ops()
def run(seq, init_full):
    s = State(DAG, auto_fork_type=StateForkType.REF); k=0
    if init_full:
        with s.auto_fork(None):
            s["a"]=V[0]; s["b"]=V[1]; s["p"]=torch.tensor(2.)
        s.precompute_all()
    nonind=False; lastind=False
    for op in seq:
        k+=1; val = V[k%3]*k
        if op[0]=="set":
            if op[2] is None:
                with s.auto_fork(None): s[op[1]]=val
            else: s[op[1]]=val
            nonind=False; lastind=True
        elif op[0]=="acc":
            if s._values[op[1]] is None: continue
            s.put(op[1], val, accumulate=True); nonind=False; lastind=True
        elif op[0]=="setp": s["p"]=torch.tensor(float(k)); nonind=False; lastind=False
        elif op[0]=="read":
            n=op[1]; 
            if n not in IND: nonind=True
            exp = scratch({q: s._values[q] for q in ("a","b","p")}, n)
            if exp is None:
                try: s[n]; return f"read {n} should raise"
                except LeaspyInputError: pass
            else:
                got=s[n]
                if not torch.equal(got, exp): return f"stale {n}: got {got.flatten().tolist()} exp {exp.flatten().tolist()}"
        elif op[0]=="revert":
            try: s.revert()
            except LeaspyInputError: pass
        elif op[0]=="prevert":
            if nonind or not lastind: continue
            try: s.revert(MASK)
            except LeaspyInputError: pass
        elif op[0]=="clone": s = s.clone(keep_last_fork=True)
        elif op[0]=="pre":
            try: s.precompute_all()
            except LeaspyInputError: pass
            nonind=True
    # final: read all
    for n in ("c","d","e"):
        exp = scratch({q: s._values[q] for q in ("a","b","p")}, n)
        if exp is None: continue
        if not torch.equal(s[n], exp): return f"final stale {n}"
    return None
L=int(sys.argv[1]); t=time.time(); n=0; fails={}
for seq in itertools.product(OPS, repeat=L):
    for init in (True,):
        n+=1; r=run(seq, init)
        if r: fails.setdefault(r.split(":")[0], (seq, r))
    if n>=200000: break
print(len(OPS), "ops; ran", n, "histories in %.1fs"%(time.time()-t), "fail buckets:", {k:v for k,v in list(fails.items())[:3]})
