import warnings; warnings.filterwarnings('ignore')
import numpy as np, pandas as pd, torch, leaspy.models, tempfile, itertools
from leaspy.io.outputs import IndividualParameters as IP
from leaspy.exceptions import LeaspyIndividualParamsInputError as E
d=tempfile.mkdtemp()
def build(ids, spec):
    ip=IP()
    for k,i in enumerate(ids): ip.add_individual_parameters(i, {n: (f(k)) for n,f in spec.items()})
    return ip
specs = {
 "len1+lenN": {"xi": lambda k:[0.1*k], "tau": lambda k:[70.+k], "sources": lambda k:[0.1*k,-0.2]},
 "len1 sources": {"xi": lambda k:[0.1*k], "sources": lambda k:[0.3*k]},
 "lenN other name": {"xi": lambda k:[0.1*k], "w": lambda k:[1.*k,2.,3.]},
 "ints": {"xi": lambda k:[k], "tau": lambda k:[70+k]},
 "ndarray": {"xi": lambda k:np.array([0.1*k]), "sources": lambda k:np.array([0.5,0.25*k])},
}
for name, spec in specs.items():
    ids=["a","007","1e5"," b "]
    ip=build(ids, spec)
    res={}
    for conv in ["df","torch","csv","json"]:
        try:
            if conv=="df": ip2=IP.from_dataframe(ip.to_dataframe())
            elif conv=="torch": ip2=IP.from_pytorch(*ip.to_pytorch())
            else: ip.save(d+f"/x.{conv}"); ip2=IP.load(d+f"/x.{conv}")
            same_ids = ip2._indices==ids
            same_names = list(ip2._parameters_shape)==list(ip._parameters_shape)
            same_shapes = ip2._parameters_shape==ip._parameters_shape
            vals = all(np.allclose(np.ravel(ip2._individual_parameters[i][n]), np.ravel(ip._individual_parameters[i][n]), rtol=1e-6) for i in ids for n in ip._parameters_shape if n in ip2._individual_parameters.get(i,{}))
            res[conv]=f"ids={same_ids} names={same_names} shapes={same_shapes} vals={vals}"
        except Exception as ex: res[conv]=f"ERR {type(ex).__name__}: {str(ex)[:50]}"
    print(name); [print("   ",k,v) for k,v in res.items()]
# rejections
ip=IP(); ip.add_individual_parameters("a", {"xi":[0.1]})
for bad in [("a",{"xi":[0.2]}), (1,{"xi":[0.2]}), ("b",{"xi":"x"}), ("b",{"xi":[0.1,0.2]}), ("b",{"tau":[1.]}), ("b",{"xi":None}), ("b",{"xi":[[0.1]]}), ("b",{"xi":True}), ("b",[0.1])]:
    try: ip.add_individual_parameters(*bad); print("ACCEPTED", bad)
    except E as ex: print("rejected", bad)
    except Exception as ex: print("OTHER ERR", bad, type(ex).__name__)
print(ip._indices)
